"""Tier B for C06: executable contract "backmapping places rigid, centred, same-handed copies of the residue template"
on the REAL code, over an enumerated space of small worlds, driven two ways:

 (a) hand worlds: polyply.src.backmap.Backmap(fudge_coords=f).run_molecule / run_system on MetaMolecules prepared the way
     polyply/tests/test_backmap.py prepares them (vermouth Molecule + make_residue_graph; node attributes position /
     backmap / template / graph; ONE templates dict shared by every molecule of the system, as GenerateTemplates leaves it);
     the optimiser is either the real scipy L-BFGS-B from seeded random starting angles, or scripted (rebinding the
     name `scipy` inside polyply.src.backmap) to return angle triples from a grid, so that the property is exercised for
     angle triples the optimiser never happens to return;
 (b) program worlds: polyply.src.gen_coords.gen_coords on generated .top/.itp (.gro) files; templates are those of the real
     GenerateTemplates (including residues whose optimisation fails -> "proceeding with unoptimized coordinates");
     Backmap.run_system is rebound to record templates / residue positions / atom positions before and after.

The oracle is written from the statement of C06 in /verif/properties.jsonl: per backmapped residue (1) centre of geometry
of its atoms == residue position, (2) template[atomname] -> (atom - residue position)/factor is a proper rotation (pairwise
distances, signed volume of the largest tetrahedron, fit of the best proper rotation without translation), (3) which implies
every atom took the entry of its own name (templates are asymmetric), atoms of residues that are not backmapped are
untouched, (4) the shared template dict is unchanged, and all copies of a type are congruent with each other.
Bounded stand-in: never counted as proved."""
import itertools
import math
import os
import random
import shutil
import signal
import tempfile
import traceback
import types
from pathlib import Path

import numpy as np

from vlib.realcode import load
from vlib.framework import BUnit, Violation

os.environ.setdefault("TQDM_DISABLE", "1")

UNIT = "c06-backmap-congruence"
EPS = 1e-6
FACTORS = (0.4, 0.7, 1.0)


def _one_blas_thread():
    """pool initializer (harness hygiene, as in b_coords): 16 workers x 16 OpenBLAS threads make the tiny L-BFGS problems
    an order of magnitude slower; results do not depend on it."""
    import ctypes
    load("polyply.src.gen_coords")
    try:
        libs = {l.split()[-1] for l in open("/proc/self/maps") if "openblas" in l and l.rstrip().endswith(".so")}
    except OSError:
        return
    for path in libs:
        try:
            lib = ctypes.CDLL(path)
        except OSError:
            continue
        for sym in ("scipy_openblas_set_num_threads", "scipy_openblas_set_num_threads64_", "openblas_set_num_threads", "openblas_set_num_threads64_"):
            if hasattr(lib, sym):
                getattr(lib, sym)(1)


# --------------------------------------------------------------------------------------------------------------
# oracle (from the statement)
# --------------------------------------------------------------------------------------------------------------

def _pdist(X):
    return np.sqrt(((X[:, None, :] - X[None, :, :]) ** 2).sum(-1))


def _proper_fit(P, Q):
    """best PROPER rotation R (det +1) with R p_i ~ q_i, no translation allowed (Kabsch), its rmsd; and the determinant /
    rmsd of the best orthogonal map (which may be a reflection)"""
    H = P.T @ Q
    U, _, Vt = np.linalg.svd(H)
    O = Vt.T @ U.T
    det_o = float(np.linalg.det(O))
    R = Vt.T @ np.diag([1.0, 1.0, 1.0 if det_o >= 0 else -1.0]) @ U.T
    rmsd = float(np.sqrt(np.mean(np.sum((P @ R.T - Q) ** 2, axis=1))))
    rmsd_o = float(np.sqrt(np.mean(np.sum((P @ O.T - Q) ** 2, axis=1))))
    return R, rmsd, det_o, rmsd_o


def _vol(X, q):
    return float(np.linalg.det(X[list(q[1:])] - X[q[0]]))


def _best_quad(T):
    best, bq = -1.0, None
    for q in itertools.combinations(range(len(T)), 4):
        v = abs(_vol(T, q))
        if v > best:
            best, bq = v, q
    return bq


CHIRAL_VOL = 1e-4      # |det| of the edge vectors (nm^3) above which a reflection of the template is detectable


def is_chiral(tmpl):
    T = np.array(list(tmpl.values()), float)
    return len(T) >= 4 and abs(_vol(T, _best_quad(T))) > CHIRAL_VOL


def check_residue(tag, cg, tmpl, atoms, factor):
    """atoms: [(atomname, position after backmapping or None)] of ONE backmapped residue; tmpl: the residue's template as
    it was before backmapping.  returns [(finding_key, what, detail)]"""
    names = [a for a, _ in atoms]
    if sorted(names) != sorted(tmpl):
        return [("c06-world-names-not-template-keys", f"{tag}: atom names {names} are not the template keys {sorted(tmpl)} (world outside the quantifier)", "")]
    if any(p is None or not np.all(np.isfinite(p)) for _, p in atoms):
        return [("c06-no-position", f"{tag}: a backmapped residue has an atom without finite position", repr([(a, None if p is None else p.tolist()) for a, p in atoms]))]
    bad = []
    X = np.array([p for _, p in atoms], float)
    T = np.array([tmpl[a] for a in names], float)
    n = len(names)
    centre = X.mean(axis=0)
    centre_ok = bool(np.all(np.abs(centre - cg) <= EPS))
    if not centre_ok:
        bad.append(("c06-centre", f"{tag}: centre of geometry of the backmapped atoms is not the residue position (off by {np.abs(centre - cg).max():.3e})",
                    f"residue position {np.asarray(cg).tolist()} centre {centre.tolist()}"))
    Q = (X - cg) / factor
    if n >= 2:
        dT, dQ = _pdist(T), _pdist(Q)
        if np.abs(dT - dQ).max() > EPS:
            key, why = "c06-not-congruent", "pairwise distances of (atoms - residue position)/factor differ from the template's"
            iu = np.triu_indices(n, 1)
            nz = dT[iu] > 1e-9
            if nz.any():
                r = dQ[iu][nz] / dT[iu][nz]
                if r.max() <= 1e-9:
                    key, why = "c06-atoms-collapsed", "all atoms of the residue were put on one point"
                elif r.max() - r.min() <= 1e-6:
                    key, why = "c06-wrong-scale", f"the copy is the template scaled by {factor * r.mean():.6g}, the backmapping factor is {factor}"
            if key == "c06-not-congruent" and n <= 5:
                for perm in itertools.permutations(range(n)):
                    if perm != tuple(range(n)) and np.abs(_pdist(T[list(perm)]) - dQ).max() <= EPS:
                        key = "c06-atom-took-other-name"
                        why = "atoms carry template entries of other atom names: " + ", ".join(f"{names[i]}<-{names[p]}" for i, p in enumerate(perm) if i != p)
                        break
            bad.append((key, f"{tag}: {why} (max distance error {np.abs(dT - dQ).max():.3e})",
                        f"template {dict((a, np.round(tmpl[a], 6).tolist()) for a in names)} copy/factor {dict((a, np.round(q, 6).tolist()) for a, q in zip(names, Q))}"))
            return bad
    if n >= 4:
        q = _best_quad(T)
        vt, vq = _vol(T, q), _vol(Q, q)
        if abs(vq - vt) > EPS:
            key = "c06-reflected" if abs(vq + vt) <= EPS else "c06-signed-volume"
            bad.append((key, f"{tag}: signed volume of the tetrahedron {[names[i] for i in q]} is {vt:.6g} in the template and {vq:.6g} in the copy", ""))
            return bad
    if centre_ok:
        _, rmsd, det_o, rmsd_o = _proper_fit(T, Q)
        if rmsd > EPS:
            key = "c06-reflected" if (rmsd_o <= EPS and det_o < 0) else "c06-not-a-rotation-of-template"
            bad.append((key, f"{tag}: no proper rotation maps template[atomname] onto (atom - residue position)/factor: best proper fit rmsd {rmsd:.3e} "
                        f"(best orthogonal map: det {det_o:+.0f}, rmsd {rmsd_o:.3e})", ""))
    return bad


def check_world(residues, factor, tmpl_before, tmpl_after):
    """residues: [dict(tag, cg, tkey, backmap, atoms=[(name, before, after)])]"""
    bad = []
    shapes = {}
    for r in residues:
        if not r["backmap"]:
            for (a, b, c) in r["atoms"]:
                same = (b is None and c is None) or (b is not None and c is not None and np.array_equal(b, c))
                if not same:
                    bad.append(("c06-unbackmapped-touched", f"{r['tag']}: atom {a} of a residue that is not backmapped changed",
                                f"before {None if b is None else b.tolist()} after {None if c is None else c.tolist()}"))
                    break
            continue
        tm = tmpl_before.get(r["tkey"])
        if tm is None:
            bad.append(("c06-world-no-template", f"{r['tag']}: no template {r['tkey']!r}", ""))
            continue
        got = check_residue(r["tag"], r["cg"], tm, [(a, c) for (a, _, c) in r["atoms"]], factor)
        bad += got
        if not any(k == "c06-no-position" or k.startswith("c06-world") for k, _, _ in got) and len(r["atoms"]) >= 2:
            order = sorted(range(len(r["atoms"])), key=lambda i: r["atoms"][i][0])
            X = np.array([r["atoms"][i][2] for i in order], float)
            shapes.setdefault(r["tkey"], []).append((r["tag"], X))
    # all copies of a residue type are congruent with each other and same-handed (independent of the template)
    for tkey, lst in shapes.items():
        tag0, X0 = lst[0]
        d0 = _pdist(X0)
        q = _best_quad(X0) if len(X0) >= 4 else None
        for tag, X in lst[1:]:
            if np.abs(_pdist(X) - d0).max() > EPS * 2 or (q is not None and abs(_vol(X, q) - _vol(X0, q)) > EPS * 2):
                bad.append(("c06-copies-not-congruent", f"{tag} and {tag0} are copies of the same residue type but not congruent / same-handed "
                            f"(max distance difference {np.abs(_pdist(X) - d0).max():.3e})", ""))
                break
    # the shared templates are not modified by backmapping
    if set(tmpl_before) != set(tmpl_after):
        bad.append(("c06-template-modified", f"template keys changed: {sorted(map(str, tmpl_before))} -> {sorted(map(str, tmpl_after))}", ""))
    else:
        for k in tmpl_before:
            b, a = tmpl_before[k], tmpl_after[k]
            if list(b) != list(a) or any(not np.array_equal(b[x], a[x]) for x in b):
                diff = {x: (np.round(b[x], 6).tolist(), np.round(a[x], 6).tolist()) for x in b if x not in a or not np.array_equal(b[x], a[x])}
                bad.append(("c06-template-modified", f"the shared template {k!r} was modified by backmapping", f"(before, after) {diff}"))
                break
    return bad


def copy_templates(templates):
    return {k: {a: np.array(v, dtype=float, copy=True) for a, v in d.items()} for k, d in templates.items()}


def atom_pos(mol, a):
    p = mol.nodes[a].get("position")
    return None if p is None else np.array(p, dtype=float, copy=True)


# --------------------------------------------------------------------------------------------------------------
# (a) hand worlds
# --------------------------------------------------------------------------------------------------------------

# residue types: atom names (shared between types on purpose: an atom must take the entry of its name in ITS residue's
# template), shape class, virtual site (name, constructing atoms: the site sits at their centre)
HT = {
    "a1": dict(atoms=["A"], shape="point"),
    "a2": dict(atoms=["A", "B"], shape="generic"),
    "a3": dict(atoms=["A", "B", "C"], shape="generic"),                 # planar (any three atoms)
    "l3": dict(atoms=["C", "B", "D"], shape="line"),                    # collinear: rotation about the axis is free
    "p4": dict(atoms=["A", "B", "C", "D"], shape="plane"),              # four coplanar atoms
    "c4": dict(atoms=["D", "C", "B", "A"], shape="generic"),            # chiral
    "c5": dict(atoms=["A", "B", "C", "D", "E"], shape="generic"),       # chiral
    "v5": dict(atoms=["A", "B", "C", "D", "V"], shape="generic", vs=("V", ["A", "B", "D"])),   # chiral, with a virtual site
}
HAND_TYPES = list(HT)


def make_template(tname, nrng, rng):
    """centred template {atomname: vector} with keys in a seeded order (not the atom order of the residue)"""
    t = HT[tname]
    names = t["atoms"]
    n = len(names)
    while True:
        X = nrng.normal(scale=0.22, size=(n, 3))
        if t["shape"] == "line":
            u = nrng.normal(size=3)
            X = np.outer(nrng.normal(scale=0.3, size=n), u / np.linalg.norm(u))
        elif t["shape"] == "plane":
            u, v = nrng.normal(size=3), nrng.normal(size=3)
            X = np.outer(nrng.normal(scale=0.25, size=n), u) + np.outer(nrng.normal(scale=0.25, size=n), v)
        if "vs" in t:
            site, cons = t["vs"]
            X[names.index(site)] = X[[names.index(c) for c in cons]].mean(axis=0)
        X = X - X.mean(axis=0)
        d = _pdist(X)[np.triu_indices(n, 1)]
        if n == 1:
            break
        # asymmetric: all pairwise distances distinct, so that swapped atom names cannot go unnoticed
        sd = np.sort(d)
        if sd.min() < 0.05 or (len(sd) > 1 and np.diff(sd).min() < 0.004):
            continue
        if t["shape"] == "generic" and n >= 4 and abs(_vol(X, _best_quad(X))) < 20 * CHIRAL_VOL:
            continue
        break
    order = list(range(n))
    rng.shuffle(order)
    return {names[i]: X[i].copy() for i in order}


def labelled_shapes(n):
    """every labelled tree on n residues (the label is the position in the backmapping order, so 'neighbour built or not'
    is enumerated), plus the labelled cycles for n = 3, 4"""
    if n == 1:
        return [[]]
    alle = list(itertools.combinations(range(n), 2))
    out = []
    for es in itertools.combinations(alle, n - 1):
        seen, todo = {0}, [0]
        while todo:
            x = todo.pop()
            for (a, b) in es:
                y = b if a == x else a if b == x else None
                if y is not None and y not in seen:
                    seen.add(y)
                    todo.append(y)
        if len(seen) == n:
            out.append([list(e) for e in es])
    if n == 3:
        out.append([[0, 1], [1, 2], [0, 2]])
    if n == 4:
        out += [[[0, 1], [1, 2], [2, 3], [0, 3]], [[0, 1], [1, 3], [2, 3], [0, 2]], [[0, 2], [1, 2], [1, 3], [0, 3]]]
    return out


ANGLE_VALUES = [0.0, math.pi / 2, math.pi, 2.0, -1.3, 7.0, 1000.0]
ANGLE_GRID = list(itertools.product(ANGLE_VALUES, repeat=3))


class _ScriptedOptimize:
    """stands in for scipy.optimize inside polyply.src.backmap: the optimiser 'returns' the next triple of the grid"""

    def __init__(self, start):
        self.i = start
        self.used = []

    def minimize(self, fun, x0, *args, **kwargs):
        fun(np.asarray(x0, float))          # the real target function is still evaluated once (first half of orient_template)
        t = ANGLE_GRID[self.i % len(ANGLE_GRID)]
        self.i += 37
        self.used.append(self.i % len(ANGLE_GRID))
        return {"x": np.array(t, float)}


def build_hand_molecule(md, shared, rng, mm, vermouth, make_residue_graph, key0, stale):
    """returns (meta_molecule, description) for md = {types, edges, backmap, nlink}"""
    mol = vermouth.molecule.Molecule()
    res_atoms = []
    k = key0
    for ri, tname in enumerate(md["types"]):
        keys = []
        for an in HT[tname]["atoms"]:
            mol.add_node(k, atomname=an, resname=tname.upper(), resid=ri + 1)
            keys.append(k)
            k += 1
        for a, b in zip(keys, keys[1:]):
            mol.add_edge(a, b)
        res_atoms.append(keys)
    for (i, j) in md["edges"]:
        pairs = set()
        want = min(md.get("nlink", 1), len(res_atoms[i]) * len(res_atoms[j]))
        while len(pairs) < want:
            pairs.add((rng.choice(res_atoms[i]), rng.choice(res_atoms[j])))
        for a, b in sorted(pairs):
            mol.add_edge(a, b)
    graph = make_residue_graph(mol)
    meta = mm.MetaMolecule(graph)
    meta.molecule = mol
    meta.templates = shared
    if [meta.nodes[x]["resid"] for x in meta.nodes] != list(range(1, len(md["types"]) + 1)):
        raise RuntimeError("residue graph is not in residue order")
    cgs = []
    for ri, node in enumerate(meta.nodes):
        cg = np.array([rng.uniform(0.3, 3.7) for _ in range(3)])
        cgs.append(cg)
        meta.nodes[node]["template"] = md["types"][ri]
        meta.nodes[node]["position"] = cg.copy()
        meta.nodes[node]["backmap"] = bool(md["backmap"][ri])
        if not md["backmap"][ri] or stale:
            # residues that are not backmapped have their atoms already; with `stale`, backmapped ones hold old values too
            for a in res_atoms[ri]:
                mol.nodes[a]["position"] = cg + np.array([rng.uniform(-0.2, 0.2) for _ in range(3)])
    return meta, {"res_atoms": res_atoms, "cgs": cgs}


def eval_hand(w):
    try:
        return _eval_hand(w)
    except Exception as e:      # noqa: BLE001 - harness error, never silently green
        return {"status": "harness-error", "bad": [("harness-error", f"{type(e).__name__}: {e}", traceback.format_exc()[-700:])], "info": {}}


def _eval_hand(w):
    bm = load("polyply.src.backmap")
    mm = load("polyply.src.meta_molecule")
    import vermouth
    from vermouth.graph_utils import make_residue_graph
    rng = random.Random(w["seed"] * 1000003 + 17)
    nrng = np.random.RandomState((w["seed"] * 7919 + 5) % (2 ** 32))
    used = []
    for md in w["mols"]:
        for t in md["types"]:
            if t not in used:
                used.append(t)
    shared = {t: make_template(t, nrng, rng) for t in used}
    metas, descs = [], []
    for mi, md in enumerate(w["mols"]):
        meta, desc = build_hand_molecule(md, shared, rng, mm, vermouth, make_residue_graph, key0=(w["seed"] + mi) % 2, stale=bool(w.get("stale")))
        metas.append(meta)
        descs.append(desc)
    before_t = copy_templates(shared)
    before_a = [{a: atom_pos(m.molecule, a) for a in m.molecule.nodes} for m in metas]
    factor = w["factor"]
    random.seed(w["seed"])
    np.random.seed(w["seed"] % (2 ** 32))
    scripted = None
    had = "scipy" in vars(bm)
    old = vars(bm).get("scipy")
    if w["angles"] == "grid":
        scripted = _ScriptedOptimize(w["seed"] * 11 + 3)
        bm.scipy = types.SimpleNamespace(optimize=scripted)
    try:
        proc = bm.Backmap(fudge_coords=factor)
        if w["call"] == "molecule":
            out = [proc.run_molecule(m) for m in metas]
        else:
            system = types.SimpleNamespace(molecules=list(metas))
            proc.run_system(system)
            out = list(system.molecules)
    except Exception as e:      # noqa: BLE001
        tb = [f for f in traceback.extract_tb(e.__traceback__) if os.path.basename(f.filename) != "b_backmap.py"]
        where = "; ".join(f"{os.path.basename(f.filename)}:{f.lineno} {f.name}" for f in tb[-3:])
        return {"status": "error", "bad": [("c06-backmap-error", f"Backmap raised {type(e).__name__}: {str(e)[:200]} @ {where}", "")], "info": {}}
    finally:
        if w["angles"] == "grid":
            if had:
                bm.scipy = old
            else:
                del bm.scipy
    bad = []
    if len(out) != len(metas) or any(o is not m for o, m in zip(out, metas)):
        bad.append(("c06-backmap-returns-other-molecule", "run_molecule / run_system did not hand back the molecules it was given", ""))
    residues = []
    for mi, (meta, md, desc) in enumerate(zip(metas, w["mols"], descs)):
        for ri, tname in enumerate(md["types"]):
            atoms = [(HT[tname]["atoms"][k], before_a[mi][a], atom_pos(meta.molecule, a)) for k, a in enumerate(desc["res_atoms"][ri])]
            residues.append({"tag": f"molecule {mi} residue {ri + 1} ({tname}, {len(atoms)} atoms, {sum(1 for e in md['edges'] if ri in e)} neighbours)",
                             "cg": desc["cgs"][ri], "tkey": tname, "backmap": bool(md["backmap"][ri]), "atoms": atoms})
    bad += check_world(residues, factor, before_t, copy_templates(shared))
    for m in metas:
        if m.templates is not shared:
            bad.append(("c06-template-modified", "the molecule's templates attribute was replaced by backmapping", ""))
            break
    return {"status": "ok", "bad": bad, "info": world_info(residues, before_t, scripted.used if scripted else [])}


def world_info(residues, templates, angle_ids=()):
    cnt = {}
    for r in residues:
        cnt[r["tkey"]] = cnt.get(r["tkey"], 0) + 1
    bm_res = [r for r in residues if r["backmap"]]
    nontrivial = any(len(r["atoms"]) >= 2 and cnt[r["tkey"]] >= 2 for r in bm_res)
    return {"residues": len(bm_res), "untouched": len(residues) - len(bm_res),
            "multi_atom_shared": sum(1 for r in bm_res if len(r["atoms"]) >= 2 and cnt[r["tkey"]] >= 2),
            "chiral": sum(1 for r in bm_res if r["tkey"] in templates and is_chiral(templates[r["tkey"]])),
            "max_copies": max(cnt.values()) if cnt else 0, "nontrivial": nontrivial, "angle_ids": list(angle_ids)}


def hand_worlds(ctx):
    """the enumeration of part (a)"""
    srng = random.Random(ctx.seed * 31 + 7)
    structures = []
    for n in (1, 2, 3, 4):
        for edges in labelled_shapes(n):
            if n <= 3:
                assigns = list(itertools.product(HAND_TYPES, repeat=n))
            else:
                assigns = [(t,) * n for t in HAND_TYPES]
                assigns += [tuple(srng.choice(HAND_TYPES) for _ in range(n)) for _ in range(24 if not ctx.thorough else 120)]
            for ta in assigns:
                structures.append((n, edges, list(ta)))
    worlds = []
    nseeds = 1 if not ctx.thorough else 3
    for k, (n, edges, ta) in enumerate(structures):
        variants = []
        if not ctx.thorough:
            # two worlds per structure: real optimiser / scripted angles; factor, system composition, which residue is not
            # backmapped, link multiplicity and stale positions go round-robin
            variants.append(("real", FACTORS[k % 3], k % 3, None, 1 + (k // 3) % 2, (k // 2) % 2))
            variants.append(("grid", FACTORS[(k + 1) % 3], (k + 1) % 3, (k % n) if n >= 2 else None, 1 + (k // 5) % 2, (k // 7) % 2))
        else:
            for angles in ("real", "grid"):
                for fi, f in enumerate(FACTORS):
                    for off in [None] + list(range(n if n >= 2 else 0)):
                        variants.append((angles, f, (k + fi) % 3, off, 1 + (k + fi) % 2, (k // 2 + fi) % 2))
        for vi, (angles, f, comp, off, nlink, stale) in enumerate(variants):
            for s in range(nseeds if angles == "real" else 1):
                main = {"types": ta, "edges": edges, "backmap": [0 if i == off else 1 for i in range(n)], "nlink": nlink}
                if comp == 0:
                    mols, call = [main], "molecule"
                elif comp == 1:      # the type of the LAST residue is used first by a neighbour-less residue of another molecule
                    mols, call = [{"types": [ta[-1]], "edges": [], "backmap": [1]}, main], "system"
                else:                # the molecule twice, then a neighbour-less residue of the first residue's type
                    mols, call = [main, dict(main, backmap=[1] * n), {"types": [ta[0]], "edges": [], "backmap": [1]}], "system"
                worlds.append({"part": "hand", "mols": mols, "call": call, "factor": f, "angles": angles, "stale": stale,
                               "seed": ctx.seed * 100000 + (k * 13 + vi * 7 + s * 3571) % 99991})
    return worlds, len(structures)


# --------------------------------------------------------------------------------------------------------------
# (b) program worlds: gen_coords on generated files
# --------------------------------------------------------------------------------------------------------------

ATYPES = {"P4": (72.0, 0.47, 4.5), "C1": (72.0, 0.47, 3.5), "SC": (45.0, 0.41, 2.0), "VS": (0.0, 0.0, 0.0)}

# residue kinds: atoms (name, type), bonds (i, j, length), angles (i, j, k, degrees), virtual_sitesn (site, constructing atoms),
# connecting atoms.  f*: bond lengths violate the triangle inequality -> optimize_geometry fails on every attempt ->
# "Proceeding with unoptimized coordinates".  A virtual site is also held by a bond (a site that occurs in no bond is
# refused by the program before any coordinates are made).
GK = {
    "g1": dict(atoms=[("A", "C1")], bonds=[], cin=0, cout=0),
    "g2": dict(atoms=[("A", "C1"), ("B", "SC")], bonds=[(0, 1, 0.30)], cin=0, cout=1),
    "g3": dict(atoms=[("A", "C1"), ("B", "SC"), ("C", "SC")], bonds=[(0, 1, 0.28), (1, 2, 0.34)], angles=[(0, 1, 2, 110.0)], cin=0, cout=2),
    "g4": dict(atoms=[("A", "C1"), ("B", "SC"), ("C", "SC"), ("D", "SC")],
               bonds=[(0, 1, 0.30), (0, 2, 0.34), (0, 3, 0.38), (1, 2, 0.32), (1, 3, 0.36), (2, 3, 0.40)], cin=0, cout=3),
    "g5": dict(atoms=[("A", "C1"), ("B", "SC"), ("C", "SC"), ("D", "SC"), ("E", "SC")],
               bonds=[(0, 1, 0.30), (0, 2, 0.34), (0, 3, 0.38), (1, 2, 0.32), (1, 3, 0.36), (2, 3, 0.40), (4, 0, 0.31), (4, 1, 0.35), (4, 2, 0.39)], cin=0, cout=4),
    "gv3": dict(atoms=[("V1", "SC"), ("V2", "SC"), ("VS", "VS")], bonds=[(0, 1, 0.30), (0, 2, 0.15)], vs=[(2, (0, 1))], cin=0, cout=1),
    "gv": dict(atoms=[("A", "C1"), ("B", "SC"), ("C", "SC"), ("D", "SC"), ("VS", "VS")],
               bonds=[(0, 1, 0.30), (0, 2, 0.34), (0, 3, 0.38), (1, 2, 0.32), (1, 3, 0.36), (2, 3, 0.40), (0, 4, 0.20)], vs=[(4, (0, 1, 2, 3))], cin=0, cout=3),
    "f3": dict(atoms=[("P", "C1"), ("Q", "SC"), ("R", "SC")], bonds=[(0, 1, 0.10), (1, 2, 0.12), (0, 2, 0.50)], cin=0, cout=2, fails=True),
    "fv": dict(atoms=[("P", "C1"), ("Q", "SC"), ("R", "SC"), ("VS", "VS")], bonds=[(0, 1, 0.10), (1, 2, 0.12), (0, 2, 0.50), (0, 3, 0.15)],
               vs=[(3, (0, 1, 2))], cin=0, cout=2, fails=True),
    "f4": dict(atoms=[("P", "C1"), ("Q", "SC"), ("R", "SC"), ("S", "SC")],
               bonds=[(0, 1, 0.10), (1, 2, 0.12), (0, 2, 0.50), (0, 3, 0.30), (1, 3, 0.33), (2, 3, 0.36)], cin=0, cout=3, fails=True),
}
G_KINDS = list(GK)


def mol_type(name):
    """molecule type by name: S.<kind> single residue, C2./C3. chains, ST. star (centre first), TS. star (centre last),
    MX / MXF mixed chains"""
    if name == "MX":
        kinds, edges = ["g2", "g4", "g3", "g4", "gv", "g4"], [[i, i + 1] for i in range(5)]
    elif name == "MXF":
        kinds, edges = ["f3", "g4", "fv", "g4", "f3"], [[i, i + 1] for i in range(4)]
    else:
        shape, kind = name.split(".")
        if shape == "S":
            kinds, edges = [kind], []
        elif shape in ("C2", "C3"):
            n = int(shape[1])
            kinds, edges = [kind] * n, [[i, i + 1] for i in range(n - 1)]
        elif shape == "ST":
            kinds, edges = [kind] * 4, [[0, 1], [0, 2], [0, 3]]
        elif shape == "TS":
            kinds, edges = [kind] * 4, [[0, 3], [1, 3], [2, 3]]
        else:
            raise ValueError(name)
    return {"name": name.replace(".", "_"), "kinds": kinds, "edges": edges}


def type_atoms(t):
    atoms, blocks = [], []
    for ri, kind in enumerate(t["kinds"]):
        blk = []
        for (an, at) in GK[kind]["atoms"]:
            blk.append(len(atoms))
            atoms.append((ri + 1, "R" + kind.upper(), an, at))
        blocks.append(blk)
    return atoms, blocks


def itp_text(t):
    atoms, blocks = type_atoms(t)
    out = ["[ moleculetype ]", f"{t['name']} 1", "[ atoms ]"]
    for i, (resid, resname, an, at) in enumerate(atoms):
        out.append(f"{i + 1} {at} {resid} {resname} {an} {i + 1} 0.0")
    bonds, angles, vs = [], [], []
    for ri, kind in enumerate(t["kinds"]):
        k = GK[kind]
        bonds += [(blocks[ri][a] + 1, blocks[ri][b] + 1, l) for (a, b, l) in k["bonds"]]
        angles += [(blocks[ri][a] + 1, blocks[ri][b] + 1, blocks[ri][c] + 1, th) for (a, b, c, th) in k.get("angles", [])]
        vs += [(blocks[ri][s] + 1, [blocks[ri][c] + 1 for c in cons]) for (s, cons) in k.get("vs", [])]
    for (i, j) in t["edges"]:
        bonds.append((blocks[i][GK[t["kinds"][i]]["cout"]] + 1, blocks[j][GK[t["kinds"][j]]["cin"]] + 1, 0.45))
    if bonds:
        out.append("[ bonds ]")
        out += [f"{a} {b} 1 {l} 5000" for a, b, l in bonds]
    if angles:
        out.append("[ angles ]")
        out += [f"{a} {b} {c} 1 {th} 50" for a, b, c, th in angles]
    if vs:
        out.append("[ virtual_sitesn ]")
        out += [f"{s} 1 " + " ".join(map(str, cons)) for s, cons in vs]
    return "\n".join(out) + "\n\n"


def write_top(d, mollist):
    ff = ["[ defaults ]", "1 2 yes 1.0 1.0", "", "[ atomtypes ]"]
    for at, (m, s, e) in ATYPES.items():
        ff.append(f"{at} {m} 0.0 {'V' if m == 0 else 'A'} {s} {e}")
    (d / "ff.itp").write_text("\n".join(ff) + "\n")
    used = []
    for tn, _ in mollist:
        if tn not in used:
            used.append(tn)
    (d / "mols.itp").write_text("".join(itp_text(mol_type(tn)) for tn in used))
    top = ['#include "ff.itp"', '#include "mols.itp"', "", "[ system ]", "bounded world", "", "[ molecules ]"]
    top += [f"{mol_type(tn)['name']} {c}" for tn, c in mollist]
    (d / "sys.top").write_text("\n".join(top) + "\n")


def expand(mollist):
    mols = []
    for tn, c in mollist:
        t = mol_type(tn)
        atoms, blocks = type_atoms(t)
        for _ in range(c):
            mols.append({"type": tn, "atoms": atoms, "blocks": blocks, "kinds": t["kinds"], "edges": t["edges"]})
    return mols


def write_supplied(d, mols, mode, k, rng):
    """coordinates for the first k residues (topology order): -c all their atoms, -mc one line per residue"""
    rows, left = [], k
    offs = [(-0.10, 0.03, 0.00), (0.10, -0.03, 0.02), (0.02, 0.06, -0.05), (-0.03, -0.07, 0.06), (0.04, 0.02, 0.09)]
    for mi, mol in enumerate(mols):
        for ri, blk in enumerate(mol["blocks"]):
            if left <= 0:
                break
            left -= 1
            c = np.round(np.array([0.8 + 0.5 * ri, 0.9 + 0.7 * mi, 1.2]) + np.array([rng.uniform(-0.03, 0.03) for _ in range(3)]), 3)
            if mode == "mc":
                rows.append((ri + 1, mol["atoms"][blk[0]][1], "CG", c))
            else:
                for j, ai in enumerate(blk):
                    a = mol["atoms"][ai]
                    p = c if len(blk) == 1 else np.round(c + np.array(offs[j]) + np.array([rng.uniform(-0.02, 0.02) for _ in range(3)]), 3)
                    rows.append((a[0], a[1], a[2], p))
    out = ["supplied", f"{len(rows)}"]
    for i, (resid, resname, an, p) in enumerate(rows):
        out.append("%5d%-5s%5s%5d%8.3f%8.3f%8.3f" % (resid, resname, an, i + 1, p[0], p[1], p[2]))
    out.append("4.0 4.0 4.0")
    (d / "in.gro").write_text("\n".join(out) + "\n")
    return d / "in.gro"


class _Timeout(Exception):
    pass


def _alarm(signum, frame):
    raise _Timeout()


def eval_gc(w):
    d = Path(tempfile.mkdtemp(dir="/var/tmp", prefix="bbackmap."))
    try:
        return _eval_gc(w, d)
    except Exception as e:      # noqa: BLE001 - harness error, never silently green
        return {"status": "harness-error", "bad": [("harness-error", f"{type(e).__name__}: {e}", traceback.format_exc()[-700:])], "info": {}}
    finally:
        shutil.rmtree(d, ignore_errors=True)


def _eval_gc(w, d):
    gc = load("polyply.src.gen_coords")
    bm = load("polyply.src.backmap")
    gt = load("polyply.src.generate_templates")
    from vermouth.file_writer import DeferredFileWriter
    rng = random.Random(w["seed"] * 7919 + 13)
    mollist = [tuple(x) for x in w["molecules"]]
    mols = expand(mollist)
    write_top(d, mollist)
    factor = w["factor"]
    # the keyword set bin/polyply hands to gen_coords (argparse defaults), then the options of the world
    kw = dict(name="molname", toppath=d / "sys.top", outpath=d / "out.gro", coordpath=None, coordpath_meta=None, build=[],
              lib=None, build_res=[], ignore=[], cycles=[], cycle_tol=0.0, split=[], ligands=[], grid_spacing=0.2, grid=None,
              maxiter=60, skip_filter=bool(w.get("skip_filter")), start=[], density=None, box=None, maxiter_random=100, step_fudge=1.0,
              max_force=5 * 10 ** 4.0, nrewind=5, bfudge=factor)
    co = w.get("coords")
    if co:
        kw["coordpath" if co["mode"] == "c" else "coordpath_meta"] = write_supplied(d, mols, co["mode"], co["k"], rng)
    else:
        kw["box"] = [np.array(repr(4.0), dtype=float) for _ in range(3)]
    rec = {"before": None, "after": None, "opt": {}}
    o_run = bm.Backmap.run_system
    o_opt = gt.optimize_geometry

    def run_system(proc, system):
        rec["fudge"] = proc.fudge_coords
        rec["before"] = [{"templates": copy_templates(m.templates), "tid": id(m.templates),
                          "nodes": [(n, m.nodes[n].get("resid"), m.nodes[n].get("template"), bool(m.nodes[n].get("backmap")),
                                     None if m.nodes[n].get("position") is None else np.array(m.nodes[n]["position"], dtype=float, copy=True)) for n in m.nodes],
                          "atoms": [(a, m.molecule.nodes[a].get("atomname"), atom_pos(m.molecule, a)) for a in m.molecule.nodes]} for m in system.molecules]
        r = o_run(proc, system)
        rec["after"] = [{"templates": copy_templates(m.templates), "atoms": [atom_pos(m.molecule, a) for a in m.molecule.nodes]} for m in system.molecules]
        return r

    def optimize_geometry(block, coords, inter_types=[], **kwargs):
        ok, c = o_opt(block, coords, inter_types, **kwargs)
        rec["opt"][str(block.nodes[list(block.nodes)[0]].get("resname"))] = bool(ok)
        return ok, c

    random.seed(w["seed"])
    np.random.seed(w["seed"] % (2 ** 32))
    old = signal.signal(signal.SIGALRM, _alarm)
    signal.setitimer(signal.ITIMER_REAL, 90.0)
    bm.Backmap.run_system = run_system
    gt.optimize_geometry = optimize_geometry
    status, detail = "ok", ""
    try:
        gc.gen_coords(**kw)
    except _Timeout:
        status, detail = "unfinished", "90 s"
    except Exception as e:      # noqa: BLE001
        tb = [f for f in traceback.extract_tb(e.__traceback__) if os.path.basename(f.filename) != "b_backmap.py"]
        where = "; ".join(f"{os.path.basename(f.filename)}:{f.lineno} {f.name}" for f in tb[-3:])
        status, detail = "error", f"{type(e).__name__}: {str(e)[:200]} @ {where}"
    finally:
        signal.setitimer(signal.ITIMER_REAL, 0)
        signal.signal(signal.SIGALRM, old)
        bm.Backmap.run_system = o_run
        gt.optimize_geometry = o_opt
        wr = DeferredFileWriter()
        while wr.open_files:
            tmp, _, _ = wr.open_files.popleft()
            try:
                os.remove(tmp)
            except OSError:
                pass
    if status == "unfinished":
        return {"status": status, "bad": [], "info": {}}
    if status == "error":
        if rec["before"] is None and "maxiter" in detail.lower():
            return {"status": "unfinished", "bad": [], "info": {}}
        return {"status": status, "bad": [("c06-gen-coords-error", f"gen_coords raised {detail}", "")], "info": {}}
    if rec["before"] is None or rec["after"] is None:
        return {"status": "error", "bad": [("c06-backmap-not-run", "gen_coords returned without running Backmap.run_system", "")], "info": {}}
    bad = []
    if rec["fudge"] != factor:
        bad.append(("c06-factor-not-passed", f"gen_coords was given bfudge={factor}, Backmap has fudge_coords={rec['fudge']}", ""))
    if len(rec["before"]) != len(mols):
        return {"status": "ok", "bad": [("c06-world-molecule-count", f"{len(rec['before'])} molecules at backmapping, topology has {len(mols)}", "")], "info": {}}
    residues = []
    n_given = co["k"] if co and co["mode"] == "c" else 0
    seen = 0
    tb_all, ta_all = {}, {}
    for mi, mol in enumerate(mols):
        b, a = rec["before"][mi], rec["after"][mi]
        tb_all.update({(b["tid"], k): v for k, v in b["templates"].items()})
        ta_all.update({(b["tid"], k): v for k, v in a["templates"].items()})
        if len(b["nodes"]) != len(mol["blocks"]) or len(b["atoms"]) != len(mol["atoms"]):
            return {"status": "ok", "bad": [("c06-world-shape", f"molecule {mi}: residues/atoms at backmapping do not match the topology", "")], "info": {}}
        for ri, blk in enumerate(mol["blocks"]):
            node, resid, tkey, flag, pos = b["nodes"][ri]
            if resid != ri + 1 or [b["atoms"][ai][1] for ai in blk] != [mol["atoms"][ai][2] for ai in blk]:
                return {"status": "ok", "bad": [("c06-world-shape", f"molecule {mi} residue {ri + 1}: resid / atom names at backmapping do not match the topology", "")], "info": {}}
            # which residues the program has to backmap follows from the input (C04): those without supplied atoms
            want_flag = not (seen < n_given)
            seen += 1
            if flag != want_flag:
                bad.append(("c06-backmap-flag", f"molecule {mi} residue {ri + 1}: backmap flag {flag}, the input {'supplies' if not want_flag else 'does not supply'} its atoms", ""))
            if pos is None and want_flag:
                bad.append(("c06-no-residue-position", f"molecule {mi} residue {ri + 1} has no position at backmapping", ""))
                continue
            atoms = [(mol["atoms"][ai][2], b["atoms"][ai][2], a["atoms"][ai]) for ai in blk]
            nb = sum(1 for e in mol["edges"] if ri in e)
            residues.append({"tag": f"molecule {mi} ({mol['type']}) residue {ri + 1} ({mol['kinds'][ri]}, {len(blk)} atoms, {nb} neighbours)",
                             "cg": pos, "tkey": (b["tid"], tkey), "backmap": want_flag, "atoms": atoms, "kind": mol["kinds"][ri]})
    bad += check_world(residues, factor, tb_all, ta_all)
    info = world_info(residues, tb_all)
    kinds_here = {k for mol in mols for k in mol["kinds"]}
    failing = sorted(k for k in kinds_here if rec["opt"].get("R" + k.upper()) is False)
    info["failed_templates"] = failing
    info["one_templates_object"] = len({b["tid"] for b in rec["before"]}) == 1
    # harness honesty: kinds meant to fail must have failed, the others not (else the world is not what the bound says)
    for k in kinds_here:
        if bool(GK[k].get("fails")) != (k in failing) and ("R" + k.upper()) in rec["opt"]:
            info.setdefault("unexpected_opt", []).append(k)
    return {"status": "ok", "bad": bad, "info": info}


def gc_worlds(ctx):
    seeds = [ctx.seed * 1000 + i * 17 for i in range(2 if not ctx.thorough else 6)]
    systems = []
    for k in G_KINDS:
        systems += [[[f"S.{k}", 1]],
                    [[f"S.{k}", 1], [f"C3.{k}", 1]],            # a type used first by a neighbour-less residue, then by bonded ones (4 copies)
                    [[f"C3.{k}", 1], [f"S.{k}", 2]],
                    [[f"ST.{k}", 1]],                              # branch point: 3 neighbours, none built yet
                    [[f"S.{k}", 1], [f"TS.{k}", 1], [f"C2.{k}", 1]]]   # branch point whose 3 neighbours are built; 7 copies in 3 molecules
    systems += [[["MX", 1]], [["S.g4", 1], ["MX", 1]], [["MXF", 1]], [["S.fv", 1], ["MXF", 2]]]
    worlds = []
    for si, ml in enumerate(systems):
        for fi, f in enumerate(FACTORS):
            for s in seeds:
                worlds.append({"part": "gc", "molecules": ml, "factor": f, "seed": s + si * 3 + fi})
    n_plain = len(worlds)
    # supplied coordinates: -c for the first k residues (they are NOT backmapped and must stay), -mc for all residue centres
    for k in ("g2", "g4", "gv", "fv", "g5") if not ctx.thorough else G_KINDS:
        ml = [[f"C3.{k}", 1], [f"S.{k}", 1]]
        for (mode, kk) in (("c", 1), ("c", 2), ("mc", 4)):
            for f in (0.4, 1.0) if not ctx.thorough else FACTORS:
                for s in seeds:
                    worlds.append({"part": "gc", "molecules": ml, "factor": f, "seed": s + 50, "coords": {"mode": mode, "k": kk}})
    n_co = len(worlds) - n_plain
    # -skip_filter: templates are extracted on the other path of _extract_template_graphs
    for ml in ([["S.g4", 1], ["C3.g4", 1]], [["MX", 1]], [["S.fv", 1], ["C2.fv", 1]], [["ST.gv", 1]], [["C3.g3", 1], ["S.g3", 2]]):
        for f in (0.4, 0.7):
            for s in seeds:
                worlds.append({"part": "gc", "molecules": ml, "factor": f, "seed": s + 90, "skip_filter": True})
    return worlds, len(systems), n_plain, n_co, len(worlds) - n_plain - n_co


# --------------------------------------------------------------------------------------------------------------
# the unit
# --------------------------------------------------------------------------------------------------------------

def eval_any(w):
    return eval_hand(w) if w["part"] == "hand" else eval_gc(w)


def describe(w):
    if w["part"] == "hand":
        return {"part": "hand", "call": w["call"], "factor": w["factor"], "angles": w["angles"], "stale": w["stale"], "seed": w["seed"],
                "molecules": [{"types": m["types"], "edges": m["edges"], "backmap": m["backmap"], "nlink": m.get("nlink", 1)} for m in w["mols"]]}
    return {k: v for k, v in w.items() if v not in (None, [], ())}


def size_of(w):
    if w["part"] == "hand":
        return (0, sum(len(HT[t]["atoms"]) for m in w["mols"] for t in m["types"]), len(repr(w)))
    return (1, sum(len(mol_type(t)["kinds"]) * c for t, c in w["molecules"]), len(repr(w)))


def run_c06(ctx, res):
    import multiprocessing as mp
    hw, n_struct = hand_worlds(ctx)
    gw, n_sys, n_plain, n_co, n_sf = gc_worlds(ctx)
    # program worlds first and one by one (they are the long ones), hand worlds in chunks; the tree under verification is
    # imported once here, the forked workers inherit it
    _one_blas_thread()
    with mp.get_context("fork").Pool(min(16, os.cpu_count() or 1), initializer=_one_blas_thread) as pool:
        g_async = pool.map_async(eval_gc, gw, chunksize=1)
        h_out = pool.map(eval_hand, hw, chunksize=16)
        g_out = g_async.get()
    worlds = hw + gw
    out = h_out + g_out
    by_key, seen = {}, set()
    tot = {"hand": dict(worlds=0, residues=0, shared=0, chiral=0, untouched=0), "gc": dict(worlds=0, residues=0, shared=0, chiral=0, untouched=0)}
    unfinished, failed_worlds, failed_vs_worlds, unexpected, max_copies = 0, 0, 0, 0, 0
    angle_ids = set()
    for w, r in zip(worlds, out):
        if r["status"] == "unfinished":
            unfinished += 1
            continue
        res.evaluations += 1
        info = r.get("info") or {}
        t = tot[w["part"]]
        t["worlds"] += 1
        t["residues"] += info.get("residues", 0)
        t["shared"] += info.get("multi_atom_shared", 0)
        t["chiral"] += info.get("chiral", 0)
        t["untouched"] += info.get("untouched", 0)
        max_copies = max(max_copies, info.get("max_copies", 0))
        angle_ids.update(info.get("angle_ids", ()))
        if info.get("failed_templates"):
            failed_worlds += 1
            failed_vs_worlds += 1 if "fv" in info["failed_templates"] else 0
        if info.get("unexpected_opt"):
            unexpected += 1
        sig = repr(describe(w))
        if info.get("nontrivial") and sig not in seen:
            seen.add(sig)
            res.nontrivial += 1
            if len(res.samples) < 4 and (w["part"] == "gc" or len(res.samples) < 2) and (len(res.samples) % 2 == 0 or w["part"] == "gc"):
                res.samples.append({"world": describe(w), "info": {k: v for k, v in info.items() if k != "angle_ids"}})
        first = {}
        for (key, what, detail) in r["bad"]:
            first.setdefault(key, (w, what, detail))
        for key, item in first.items():
            by_key.setdefault(key, []).append(item)
    for key, lst in sorted(by_key.items()):
        if len(res.violations) >= 5:
            break
        lst.sort(key=lambda x: size_of(x[0]))
        w, what, detail = lst[0]
        res.violations.append(Violation(UNIT, f"{what}  [{len(lst)} world(s) with this failure; smallest shown]", inputs=describe(w),
                                        detail=detail or what, replayed=True, finding_key=key))
    th, tg = tot["hand"], tot["gc"]
    res.bound = (
        f"(a) HAND worlds, Backmap.run_molecule / run_system on prepared MetaMolecules: residue types {{{', '.join(f'{k}:{len(v['atoms'])}' for k, v in HT.items())}}} atoms "
        "(point, pair, planar triangle, collinear triple, 4 coplanar, chiral 4, chiral 5, chiral 5 with a virtual site at the centre of three atoms; atom names shared "
        "between types; seeded asymmetric centred templates with shuffled key order) on EVERY labelled tree of 1..4 residues (label = backmapping order, so every pattern "
        "of 0..3 neighbours built / not yet built: single residue, chain ends, chain middles, branch points) + the labelled 3- and 4-rings; type assignments: complete "
        f"product for <= 3 residues, all-same + {24 if not ctx.thorough else 120} seeded for 4 = {n_struct} structures; "
        + ("per structure 2 worlds (real L-BFGS from seeded random starting angles / optimiser scripted to a grid angle triple)" if not ctx.thorough else
           "per structure {real optimiser x 3 seeds, scripted} x factors {0.4,0.7,1.0} x {all backmapped, each single residue not backmapped}")
        + f"; factor in {list(FACTORS)}, composition {{molecule alone, neighbour-less residue of the last type first + molecule, molecule twice + neighbour-less residue}}, one residue "
        "not backmapped (atoms preset), 1-2 bonds per residue pair, stale atom positions: round-robin; scripted angle triples from "
        f"{[round(a, 4) for a in ANGLE_VALUES]}^3 ({len(angle_ids)} of {len(ANGLE_GRID)} triples used): {th['worlds']} worlds, {th['residues']} backmapped residues "
        f"({th['shared']} multi-atom with >= 2 copies in the world, {th['chiral']} chiral), {th['untouched']} residues not backmapped.  "
        f"(b) PROGRAM worlds, gen_coords on generated files, templates by the real GenerateTemplates: residue kinds {{{', '.join(f'{k}:{len(v['atoms'])}' for k, v in GK.items())}}} "
        "(gv3/gv/fv with a virtual_sitesn site; f3/fv/f4 with bond lengths violating the triangle inequality = optimisation fails, unoptimised coordinates are used) as "
        "{single residue; single + chain of 3; chain of 3 + 2 singles; star centre first; single + star centre last + chain of 2} + mixed chains MX, MXF "
        f"= {n_sys} systems x factors {list(FACTORS)} x {2 if not ctx.thorough else 6} seeds = {n_plain} worlds; + {n_co} worlds with supplied coordinates (-c first 1 / 2 residues, which are not backmapped; "
        f"-mc all centres) + {n_sf} worlds with -skip_filter: {tg['worlds']} worlds finished, {tg['residues']} backmapped residues ({tg['shared']} multi-atom with >= 2 copies, "
        f"{tg['chiral']} chiral), {tg['untouched']} supplied residues; {failed_worlds} worlds used a template whose optimisation failed ({failed_vs_worlds} with a virtual site); "
        f"largest number of copies of one type in a world: {max_copies}.  Placement and starting angles are seeded, not exhaustive.  "
        f"NOT EVALUATED: {unfinished} of {len(worlds)} worlds (no placement within -mi 60 / 90 s)")
    res.rule = ("world = (molecules, factor, optimiser mode, seed); non-trivial iff distinct, finished and it holds a backmapped residue with >= 2 atoms whose type occurs "
                ">= 2 times in the world (template sharing is exercised); tolerance 1e-6 on arrays taken from the Topology / MetaMolecule after Backmap")
    res.exhaustive = True
    res.assumptions.append("atom names of a residue are in bijection with the keys of its template (worlds are built that way; in program worlds it is what GenerateTemplates produced and is checked)")
    res.assumptions.append("program worlds: 'the residue's template' and 'residue position' are read from the Topology at the moment Backmap.run_system is entered (rebinding), "
                           "the backmapping factor is the -bfudge value given to gen_coords")
    res.assumptions.append("hand worlds, scripted mode: the name `scipy` inside polyply.src.backmap is rebound so that minimize returns a grid triple; the target function is still called once")
    if unexpected:
        res.assumptions.append(f"{unexpected} program worlds where a kind meant to fail optimisation did not (or vice versa); counted as evaluated, failing-template count is the measured one")


UNITS = [BUnit(UNIT, run_c06)]

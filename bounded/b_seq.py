"""Tier B for C12 (sequence inputs -> residue graph), C19 (dsDNA completion) and C20 (outputs only after success).

Bounded stand-ins: executable readings of the three property statements evaluated on the REAL functions of the tree
under verification (parsers on generated files, gen_seq writing JSON, complement_dsDNA on real MetaMolecules, gen_params -dsdna
read at the written .itp,
gen_params / gen_coords / gen_seq with an exception injected at every stage boundary) over an exhaustively
enumerated small space.  The oracles below (`spec_*`) are written out from the statements in properties.jsonl and
from the documented input formats, never by calling the code under test.  Never counted as proved.
"""
import inspect
import itertools
import json
import os
import random
import shutil
import sys
import tempfile
from pathlib import Path

from vlib.realcode import load
from vlib.framework import BUnit, Violation

# ======================================================================================================
# shared: observation of a real residue graph as a labelled graph keyed by resid, and comparison
# ======================================================================================================

BOOKKEEPING = ("build", "backmap", "seqid")     # attributes the programs add for their own use; not part of the statement


def observe(graph):
    """real graph -> ((nodes {resid: labels}, edges {(resid_i, resid_j): labels}), None) or (None, why not)"""
    nodes = {}
    for key, data in graph.nodes(data=True):
        if "resid" not in data:
            return None, f"node {key!r} carries no resid"
        rid = data["resid"]
        if rid in nodes:
            return None, f"resid {rid} is used by two residues"
        nodes[rid] = {k: v for k, v in data.items() if k != "resid" and k not in BOOKKEEPING}
    edges = {}
    for a, b, data in graph.edges(data=True):
        i, j = sorted((graph.nodes[a]["resid"], graph.nodes[b]["resid"]))
        edges[(i, j)] = dict(data)
    return (nodes, edges), None


def differ(obs, exp_nodes, exp_edges):
    """None, or the first difference between an observation and the expected labelled graph.
    exp_nodes: {resid: labels}; a resname of None means 'not fixed by the statement'."""
    got_nodes, got_edges = obs
    if sorted(got_nodes) != sorted(exp_nodes):
        return f"residues (by resid) {sorted(got_nodes)}, expected {sorted(exp_nodes)}"
    for rid in sorted(exp_nodes):
        want = dict(exp_nodes[rid])
        got = dict(got_nodes[rid])
        if want.get("resname", "") is None:
            want.pop("resname")
            got.pop("resname", None)
        if got != want:
            return f"residue {rid} is {got}, expected {want}"
    if got_edges != exp_edges:
        miss = sorted(set(exp_edges) - set(got_edges))
        extra = sorted(set(got_edges) - set(exp_edges))
        lab = sorted((e, got_edges[e], exp_edges[e]) for e in set(got_edges) & set(exp_edges) if got_edges[e] != exp_edges[e])
        return f"edges differ: missing {miss}, unexpected {extra}, labels (edge, got, expected) {lab}"
    return None


THREAD_VARS = ("OMP_NUM_THREADS", "OPENBLAS_NUM_THREADS", "MKL_NUM_THREADS")


def _quiet_worker():
    # tqdm / log output of the programs is irrelevant here
    sys.stderr = open(os.devnull, "w")
    sys.stdout = open(os.devnull, "w")


def _pool_run(worker, jobs, root, chunk):
    import multiprocessing as mp
    batches = [(root, jobs[i:i + chunk]) for i in range(0, len(jobs), chunk)]
    if not batches:
        return []
    # one BLAS/OpenMP thread per worker: 16 workers x 16 threads is 20x slower (measured); the workers import numpy themselves
    saved = {k: os.environ.get(k) for k in THREAD_VARS}
    os.environ.update({k: "1" for k in THREAD_VARS})
    try:
        with mp.Pool(min(16, os.cpu_count() or 1), initializer=_quiet_worker) as pool:
            outs = pool.map(worker, batches, chunksize=1)
    finally:
        for k, v in saved.items():
            if v is None:
                os.environ.pop(k, None)
            else:
                os.environ[k] = v
    return [o for batch in outs for o in batch]


_FF = {}


def _force_field():
    """a force field object made the way gen_params makes it (no library, no files)"""
    if "ff" not in _FF:
        _FF["ff"] = load("polyply.src.load_library").load_ff_library("bseq", None, [])
    return _FF["ff"]


def _collect(res, unit, outcomes, cap_per_key=2, cap=25, count_in_text=False):
    """outcomes: iterable of (job, nontrivial, bad, key).  Fills counters; one violation per class first, <= cap in total."""
    by_key = {}
    for job, nontrivial, bad, key in outcomes:
        res.evaluations += 1
        res.nontrivial += int(bool(nontrivial))
        if bad:
            by_key.setdefault(key, []).append((job, bad))
        elif nontrivial and len(res.samples) < 3 and res.evaluations % 997 == 1:
            res.samples.append({"input": _j(job)})
    chosen = []
    for rank in range(cap_per_key):
        for key in sorted(by_key):
            if rank < len(by_key[key]) and len(chosen) < cap:
                chosen.append((key,) + by_key[key][rank])
    for key, job, bad in chosen:
        head = f"[{len(by_key[key])} world(s) in this class] " if count_in_text else ""
        res.violations.append(Violation(unit, f"{head}{_j(job)}: {bad}"[:900], inputs={"job": _j(job)}, detail=bad, replayed=True, finding_key=key))
    if by_key:
        res.samples.append({"violations_per_class": {k: len(v) for k, v in sorted(by_key.items())}})


def _j(obj):
    return json.loads(json.dumps(obj, default=str))


# ======================================================================================================
# C12 -- oracle (from the statement and the documented formats)
# ======================================================================================================

# one-letter codes.  DNA: deoxy-nucleotide residue names D<base>.  RNA: plain base letters; sequence files spell uracil
# with the letter T (polyply convention), it becomes residue U.  Protein: the 20 standard amino acids; O is
# hydroxyproline HYP (polyply convention).
SPEC_DNA = {"A": "DA", "C": "DC", "G": "DG", "T": "DT"}
SPEC_RNA = {"A": "A", "C": "C", "G": "G", "T": "U"}
SPEC_AA = {"A": "ALA", "R": "ARG", "N": "ASN", "D": "ASP", "C": "CYS", "Q": "GLN", "E": "GLU", "G": "GLY", "H": "HIS",
           "I": "ILE", "L": "LEU", "K": "LYS", "M": "MET", "F": "PHE", "P": "PRO", "S": "SER", "T": "THR", "W": "TRP",
           "Y": "TYR", "V": "VAL", "O": "HYP"}
SPEC_TABLES = {"DNA": SPEC_DNA, "RNA": SPEC_RNA, "PROTEIN": SPEC_AA}


def spec_linear(names):
    """exactly the stated residues, resid = position from 1, connected linearly"""
    nodes = {i + 1: {"resname": nm} for i, nm in enumerate(names)}
    edges = {(i, i + 1): {} for i in range(1, len(names))}
    return nodes, edges


def spec_one_letter(kind, letters, circular):
    """one-letter translation; nucleic acids: first residue named <name>5, last <name>3 when linear;
    circular: no terminal names, closed by an edge labelled linktype=circle (label as documented for parse_ig)"""
    names = [SPEC_TABLES[kind][c] for c in letters]
    if kind in ("DNA", "RNA") and not circular:
        if len(names) == 1:
            names = [None]          # a single nucleotide is both ends: its name is not fixed by the statement
        else:
            names[0] += "5"
            names[-1] += "3"
    nodes, edges = spec_linear(names)
    if circular:
        edges[(1, len(names))] = {"linktype": "circle"}
    return nodes, edges


def spec_seq_blocks(blocks):
    """-seq name:count ... : block repetition in input order"""
    return spec_linear([nm for nm, cnt in blocks for _ in range(cnt)])


def spec_tree_edges(levels, bfact):
    """balanced tree with `levels` generations and branching `bfact`, residues numbered generation by generation
    (level order, root first): the children of residue i are bfact*i+1 .. bfact*i+bfact"""
    size = sum(bfact ** g for g in range(levels))
    return size, [((i - 1) // bfact, i) for i in range(1, size)]


def spec_gen_seq(blocks, connects, mods, tags):
    """blocks: [(levels, bfact, resname)] in sequence order; connects: [(i, j, [(a, b), ...])] 0-based block and
    in-block residue indices; mods: [(block, new name)] applied to residues with exactly one neighbour in the final
    graph; tags: [(block, label, value)].  Returns labelled graph by resid (= position from 1 in input order)."""
    offset, names, owner, edges = [], [], [], {}
    for bi, (levels, bfact, resname) in enumerate(blocks):
        size, tree = spec_tree_edges(levels, bfact)
        off = len(names)
        offset.append(off)
        names += [resname] * size
        owner += [bi] * size
        for a, b in tree:
            edges[(off + a + 1, off + b + 1)] = {}
    for i, j, pairs in connects:
        for a, b in pairs:
            u, v = sorted((offset[i] + a + 1, offset[j] + b + 1))
            edges[(u, v)] = {}
    degree = {}
    for u, v in edges:
        degree[u] = degree.get(u, 0) + 1
        degree[v] = degree.get(v, 0) + 1
    nodes = {k + 1: {"resname": nm} for k, nm in enumerate(names)}
    for bi, new in mods:
        for k in range(len(names)):
            if owner[k] == bi and degree.get(k + 1, 0) == 1:
                nodes[k + 1]["resname"] = new
    for bi, label, value in tags:
        for k in range(len(names)):
            if owner[k] == bi:
                nodes[k + 1][label] = value
    return nodes, edges


# ------------------------------------------------------------------------------------------------------
# C12 -- worlds
# ------------------------------------------------------------------------------------------------------

TXT_NAMES = ("PEO", "PS", "A1")
AA_ORDER = "ARNDCQEGHILKMFPSTWYVO"


def _broken(tokens, mask, joiner):
    out = tokens[0]
    for i, tok in enumerate(tokens[1:]):
        out += ("\n" if (mask >> i) & 1 else joiner) + tok
    return out


def c12_jobs(ctx, rng):
    jobs = []
    max_len = 6 if ctx.thorough else 5
    # (a) -seq
    for k in range(1, (4 if ctx.thorough else 3) + 1):
        for blocks in itertools.product(itertools.product(TXT_NAMES, (1, 2, 3)), repeat=k):
            jobs.append(("seq", blocks))
    # (b) .txt : every sequence over three arbitrary names x every line breaking x final newline or not
    for n in range(1, max_len + 1):
        for names in itertools.product(TXT_NAMES, repeat=n):
            for mask in range(2 ** (n - 1)):
                for final_newline in (True, False):
                    jobs.append(("txt", names, mask, final_newline))
    # .fasta / .ig over the nucleic alphabets: every sequence x every line breaking
    for kind in ("DNA", "RNA"):
        for n in range(1, max_len + 1):
            for si, letters in enumerate(itertools.product("ACGT", repeat=n)):
                letters = "".join(letters)
                for mask in range(2 ** (n - 1)):
                    jobs.append(("fasta", kind, letters, mask, mask % 2))
                    # terminator on the last sequence line / on its own line: both, except (quick) at the largest length where they alternate
                    own_lines = (False, True) if (ctx.thorough or n < max_len) else (bool((si + mask) % 2),)
                    for own_line in own_lines:
                        jobs.append(("ig", kind, letters, mask, False, own_line, "title"))
                        if n >= 2:                   # a ring of two: the closing edge is the only edge
                            jobs.append(("ig", kind, letters, mask, True, own_line, "title"))
    # protein: every sequence of length <= 2 (thorough 3), every cyclic window of the alphabet up to max_len, seeded longer ones
    prot = []
    for n in range(1, (3 if ctx.thorough else 2) + 1):
        prot += ["".join(p) for p in itertools.product(AA_ORDER, repeat=n)]
    for n in range(3, max_len + 1):
        for start in range(len(AA_ORDER)):
            prot.append("".join(AA_ORDER[(start + i) % len(AA_ORDER)] for i in range(n)))
    for _ in range(3000 if ctx.thorough else 300):
        n = rng.randint(3, max_len + 3)
        prot.append("".join(rng.choice(AA_ORDER) for _ in range(n)))
    for letters in prot:
        n = len(letters)
        masks = range(2 ** (n - 1)) if n <= max_len else [rng.randrange(2 ** (n - 1)) for _ in range(2)]
        for mask in masks:
            jobs.append(("fasta", "PROTEIN", letters, mask, mask % 2))
            jobs.append(("ig", "PROTEIN", letters, mask, False, False, "title"))
            # circular: terminator placement alternates with the line breaking; both placements for the ring of two
            for own_line in ((False, True) if n == 2 else (bool(mask % 2),) if n > 2 else ()):
                jobs.append(("ig", "PROTEIN", letters, mask, True, own_line, "title"))
    # probes inside the quantifier but outside the tables/format corner the enumeration above uses
    # (no probe with the letter U: the statement refers to polyply's one-letter tables, whose RNA table spells uracil T;
    #  demanding U would ask for more than the statement says -- triaged by the lead as an oracle error, not a defect)
    for title in ("seq1", "chr2"):                                               # the .ig title line is free text
        jobs.append(("ig", "DNA", "ACGT", 0, False, False, title))
    # .json : every connected labelled graph on <= 4 nodes through the real node_link_data writer
    for n in range(1, 5):
        pairs = list(itertools.combinations(range(n), 2))
        for bits in range(2 ** len(pairs)):
            edges = tuple(p for i, p in enumerate(pairs) if (bits >> i) & 1)
            if not _connected(n, edges):
                continue
            for naming in range(2):
                for with_resid in (True, False):
                    for order in ("natural", "reversed"):
                        jobs.append(("json", n, edges, naming, with_resid, order))
    # (c) gen_seq
    jobs += genseq_jobs(ctx, rng)
    return jobs


def _connected(n, edges):
    seen, todo = {0}, [0]
    while todo:
        u = todo.pop()
        for a, b in edges:
            for x, y in ((a, b), (b, a)):
                if x == u and y not in seen:
                    seen.add(y)
                    todo.append(y)
    return len(seen) == n


SHAPES = [(lv, bf) for lv in (1, 2, 3) for bf in (1, 2, 3)]
# residue mixes with probability 1: (macro residue text, the residue every node must get)
RESVAR = [("{0}-1.0", 0), ("{0}-1.,{1}-0.0", 0), ("{1}-0.0,{0}-1", 0)]
DECOR = [((), ()),
         (((0, "END0"), (-1, "ENDL")), ((-1, "chiral", "R", "R-1.0"),)),
         (((-1, "TER"),), ((0, "chiral", "S", "R-0.0,S-1.0"), (0, "kind", "core", "core-1"))),
         (((0, "CAP"),), ())]


def _picks(size):
    return sorted({0, size - 1, size // 2})


def genseq_jobs(ctx, rng):
    """job = ("genseq", blocks[(levels, bfact, resvar index, residue letter)], connects[(i, j, ((a, b), ...))], decor index)"""
    jobs = []
    for lv, bf in SHAPES:                                   # the macro alone
        for rv in range(len(RESVAR)):
            jobs.append(("macro", lv, bf, rv))
    sizes = {s: spec_tree_edges(*s)[0] for s in SHAPES}
    for s in SHAPES:                                        # one block
        for rv in range(len(RESVAR)):
            for dec in range(len(DECOR)):
                jobs.append(("genseq", ((s[0], s[1], rv, "X"),), (), dec))
    for s0, s1 in itertools.product(SHAPES, repeat=2):      # two blocks: connect records in both index orders
        for combo, (r0, n0, r1, n1) in enumerate(((0, "X", 0, "Z"), (1, "X", 2, "Z"), (0, "X", 0, "X"))):
            blocks = ((s0[0], s0[1], r0, n0), (s1[0], s1[1], r1, n1))
            pairs = [(a, b) for a in _picks(sizes[s0]) for b in _picks(sizes[s1])]
            for pi, (a, b) in enumerate(pairs):
                decs = range(len(DECOR)) if ctx.thorough else ((pi + combo) % len(DECOR), (pi + combo + 1) % len(DECOR))
                for dec in decs:
                    jobs.append(("genseq", blocks, ((0, 1, ((a, b),)),), dec))
                    jobs.append(("genseq", blocks, ((1, 0, ((b, a),)),), dec))
            if sizes[s0] > 1 or sizes[s1] > 1:               # one record with two edges, and the same as two records
                two = ((0, 0), (sizes[s0] - 1, sizes[s1] - 1))
                jobs.append(("genseq", blocks, ((0, 1, two),), combo % len(DECOR)))
                jobs.append(("genseq", blocks, ((1, 0, tuple((b, a) for a, b in two)),), combo % len(DECOR)))
                jobs.append(("genseq", blocks, ((0, 1, (two[0],)), (1, 0, ((two[1][1], two[1][0]),))), combo % len(DECOR)))
    topologies = [((0, 1), (1, 2)), ((0, 1), (0, 2)), ((0, 2), (1, 2)), ((0, 1), (1, 2), (0, 2))]
    count = 0
    for triple in itertools.product(SHAPES, repeat=3):      # three blocks: a connect record between every pair of blocks
        for topo in topologies:
            for orient in range(3):                          # all records i<j, all j>i, alternating
                variants = itertools.product(range(3), range(len(DECOR))) if ctx.thorough else [((count // 3) % 3, count % len(DECOR))]
                for combo, dec in variants:
                    count += 1
                    r = ((0, "X", 0, "Y", 0, "Z"), (1, "X", 2, "Y", 0, "X"), (0, "X", 0, "X", 0, "X"))[combo]
                    blocks = tuple((triple[p][0], triple[p][1], r[2 * p], r[2 * p + 1]) for p in range(3))
                    connects = []
                    for ci, (i, j) in enumerate(topo):
                        a = (sizes[triple[i]] - 1, 0, sizes[triple[i]] // 2)[(ci + count) % 3]
                        b = (sizes[triple[j]] // 2, sizes[triple[j]] - 1, 0)[(ci + count) % 3]
                        flip = orient == 1 or (orient == 2 and ci % 2 == 1)
                        connects.append((j, i, ((b, a),)) if flip else (i, j, ((a, b),)))
                    jobs.append(("genseq", blocks, tuple(connects), dec))
    return jobs


def _genseq_inputs(blocks, connects, dec):
    """command-line strings for gen_seq and the arguments of the oracle"""
    partner = {"X": "Q", "Y": "P", "Z": "W"}
    macro_names, macro_strings, seq, spec_blocks = {}, [], [], []
    for lv, bf, rv, res in blocks:
        key = (lv, bf, rv, res)
        if key not in macro_names:
            macro_names[key] = "ABCDEFG"[len(macro_names)]
            macro_strings.append(f"{macro_names[key]}:{lv}:{bf}:" + RESVAR[rv][0].format(res, partner[res]))
        seq.append(macro_names[key])
        spec_blocks.append((lv, bf, res))
    connect_strings = [f"{i}:{j}:" + ",".join(f"{a}-{b}" for a, b in pairs) for i, j, pairs in connects]
    last = len(blocks) - 1
    mods, tags = DECOR[dec]
    mods = [((last if b == -1 else b), name) for b, name in mods]
    tags = [((last if b == -1 else b), label, value, text) for b, label, value, text in tags]
    # a later record for the same block overrides an earlier one; keep them distinct so the order is immaterial
    seen_m, mods_u = set(), []
    for b, name in mods:
        if b not in seen_m:
            seen_m.add(b)
            mods_u.append((b, name))
    seen_t, tags_u = set(), []
    for b, label, value, text in tags:
        if (b, label) not in seen_t:
            seen_t.add((b, label))
            tags_u.append((b, label, value, text))
    mod_strings = [f"{b}:{name}" for b, name in mods_u]
    tag_strings = [f"{b}:{label}:{text}" for b, label, value, text in tags_u]
    spec_args = (spec_blocks, [(i, j, list(pairs)) for i, j, pairs in connects], mods_u, [(b, label, value) for b, label, value, _ in tags_u])
    return macro_strings, seq, connect_strings, mod_strings, tag_strings, spec_args


# ------------------------------------------------------------------------------------------------------
# C12 -- evaluation of one world on the real code
# ------------------------------------------------------------------------------------------------------

def _c12_key(job, bad):
    """finding key of a failure: the known classes are recognised by input class AND symptom, everything else by family"""
    fam = job[0]
    if not bad:
        return None
    if fam in ("txt", "fasta", "ig"):
        n = len(job[1]) if fam == "txt" else len(job[2])
        if fam in ("fasta", "ig") and "U" in job[2] and job[1] == "RNA" and "residue match for U" in bad:
            return "rna-letter-U-rejected"
        if fam == "ig" and job[6] != "title" and not job[4] and bad.startswith("raised IndexError"):
            return "ig-title-ending-in-1-or-2"
        if n == 1 and (bad.startswith("residues (by resid) [], expected [1]") or bad.startswith("raised IndexError")):
            return "F7-single-residue-sequence"
        if fam == "ig" and job[1] == "PROTEIN" and job[4]:
            first = SPEC_AA[job[2][0]]
            if bad == f"residue 1 is {{'resname': '{first[:-1]}'}}, expected {{'resname': '{first}'}}":
                return "ig-circular-protein-terminal-names-truncated"
    return "c12-" + fam


def c12_eval(job, scratch):
    """-> (nontrivial, None or text)"""
    mm = load("polyply.src.meta_molecule")
    ff = _force_field()
    fam = job[0]
    if fam == "seq":
        gen_itp = load("polyply.src.gen_itp")
        blocks = job[1]
        monomers = gen_itp.split_seq_string([f"{nm}:{cnt}" for nm, cnt in blocks])
        mol = mm.MetaMolecule.from_monomer_seq_linear(force_field=ff, monomers=monomers, mol_name="m")
        exp = spec_seq_blocks(blocks)
        return _cmp(mol, exp)
    if fam == "txt":
        _, names, mask, final_newline = job
        path = scratch / "s.txt"
        path.write_text(_broken(list(names), mask, " ") + ("\n" if final_newline else ""))
        mol = mm.MetaMolecule.from_sequence_file(ff, path, "m")
        return _cmp(mol, spec_linear(list(names)))
    if fam == "fasta":
        _, kind, letters, mask, header = job
        path = scratch / "s.fasta"
        head = (f">{kind}", f"> sequence 7 {kind} example")[header]
        path.write_text(head + "\n" + _broken(list(letters), mask, "") + "\n")
        mol = mm.MetaMolecule.from_sequence_file(ff, path, "m")
        return _cmp(mol, spec_one_letter(kind, letters.replace("U", "T") if kind == "RNA" else letters, False))
    if fam == "ig":
        _, kind, letters, mask, circular, own_line, title = job
        path = scratch / "s.ig"
        term = "2" if circular else "1"
        body = _broken(list(letters), mask, "") + ("\n" if own_line else "") + term
        path.write_text(f"; a comment line\n; this is {kind}\n{title}\n{body}\n")
        mol = mm.MetaMolecule.from_sequence_file(ff, path, "m")
        return _cmp(mol, spec_one_letter(kind, letters.replace("U", "T") if kind == "RNA" else letters, circular))
    if fam == "json":
        import networkx as nx
        from networkx.readwrite import json_graph
        _, n, edges, naming, with_resid, order = job
        names = [("ALA", "GLY")[i % 2] if naming else "PEO" for i in range(n)]
        graph = nx.Graph()
        for i in (range(n) if order == "natural" else reversed(range(n))):
            attrs = {"resname": names[i]}
            if with_resid:
                attrs["resid"] = i + 1
            graph.add_node(i, **attrs)
        exp_edges = {}
        for ei, (a, b) in enumerate(edges):
            attrs = {"linktype": "special"} if ei == 0 else {}
            graph.add_edge(a, b, **attrs)
            exp_edges[(a + 1, b + 1)] = attrs
        path = scratch / "s.json"
        with open(path, "w") as handle:
            json.dump(json_graph.node_link_data(graph), handle, indent=2)
        mol = mm.MetaMolecule.from_sequence_file(ff, path, "m")
        return _cmp(mol, ({i + 1: {"resname": names[i]} for i in range(n)}, exp_edges))
    if fam == "macro":
        gen_seq = load("polyply.src.gen_seq")
        _, lv, bf, rv = job
        graph = gen_seq.MacroString(f"A:{lv}:{bf}:" + RESVAR[rv][0].format("X", "Q")).gen_graph()
        size, tree = spec_tree_edges(lv, bf)
        exp = ({i + 1: {"resname": "X"} for i in range(size)}, {(a + 1, b + 1): {} for a, b in tree})
        return size >= 2, _differ_keyed(graph, exp)
    if fam == "genseq":
        gen_seq = load("polyply.src.gen_seq")
        _, blocks, connects, dec = job
        macro_strings, seq, connect_strings, mod_strings, tag_strings, spec_args = _genseq_inputs(blocks, connects, dec)
        exp_plain = spec_gen_seq(spec_args[0], spec_args[1], [], [])
        exp = spec_gen_seq(*spec_args)
        nontrivial = len(exp[0]) >= 2
        # generate_seq_graph on its own: the unlabelled shape
        macros = {}
        for text in macro_strings:
            macro = gen_seq.MacroString(text)
            macros[macro.name] = macro
        graph = gen_seq.generate_seq_graph(list(seq), macros, list(connect_strings))
        bad = _differ_keyed(graph, exp_plain)
        if bad:
            return nontrivial, "generate_seq_graph: " + bad
        # the program: writes JSON; read back the way gen_params does
        path = scratch / "g.json"
        if path.exists():
            path.unlink()
        gen_seq.gen_seq(name="m", outpath=path, seq=list(seq), inpath=[], macro_strings=list(macro_strings), from_file=None,
                        connects=list(connect_strings), modifications=list(mod_strings), tags=list(tag_strings))
        mol = mm.MetaMolecule.from_sequence_file(ff, path, "m")
        obs, why = observe(mol)
        bad = why or differ(obs, *exp)
        return nontrivial, ("gen_seq -> json -> from_sequence_file: " + bad) if bad else None
    raise RuntimeError(f"unknown job family {fam}")


def _cmp(mol, exp):
    obs, why = observe(mol)
    return len(exp[0]) >= 2, (why or differ(obs, *exp))


def _differ_keyed(graph, exp):
    """a plain graph without resids: residue k+1 is node key k (numbering from 1 in input order)"""
    import networkx as nx
    keys = list(graph.nodes)
    if any(not isinstance(k, int) for k in keys):
        return f"node keys {keys} are not positions"
    view = nx.Graph()
    for k, data in graph.nodes(data=True):
        view.add_node(k, resid=k + 1, **{a: v for a, v in data.items() if a != "resid"})
    view.add_edges_from(graph.edges(data=True))
    obs, why = observe(view)
    return why or differ(obs, *exp)


def c12_worker(arg):
    root, batch = arg
    scratch = Path(tempfile.mkdtemp(dir=root))
    out = []
    for job in batch:
        try:
            nontrivial, bad = c12_eval(job, scratch)
        except Exception as exc:                     # noqa: BLE001 -- a rejected valid input is a failure of the contract
            nontrivial, bad = _job_len(job) >= 2, f"raised {type(exc).__name__}: {exc}"
        out.append((nontrivial, bad))
    shutil.rmtree(scratch, ignore_errors=True)
    return out


def _job_len(job):
    fam = job[0]
    if fam == "seq":
        return sum(c for _, c in job[1])
    if fam == "txt":
        return len(job[1])
    if fam in ("fasta", "ig"):
        return len(job[2])
    if fam == "json":
        return job[1]
    if fam == "macro":
        return spec_tree_edges(job[1], job[2])[0]
    return sum(spec_tree_edges(b[0], b[1])[0] for b in job[1])


def run_c12(ctx, res):
    rng = random.Random(ctx.seed)
    jobs = c12_jobs(ctx, rng)
    max_len = 6 if ctx.thorough else 5
    root = tempfile.mkdtemp(dir="/var/tmp", prefix="bseq-c12-")
    try:
        outs = _pool_run(c12_worker, jobs, root, 400)
    finally:
        shutil.rmtree(root, ignore_errors=True)
    fam_count = {}
    letters = {k: set() for k in SPEC_TABLES}
    for job in jobs:
        fam_count[job[0]] = fam_count.get(job[0], 0) + 1
        if job[0] in ("fasta", "ig"):
            letters[job[1]] |= set(job[2]) & set(SPEC_TABLES[job[1]])
    _collect(res, "c12-sequence-inputs", ((job, nt, bad, _c12_key(job, bad)) for job, (nt, bad) in zip(jobs, outs)))
    cover = ", ".join(f"{k} {len(letters[k])}/{len(SPEC_TABLES[k])}" for k in SPEC_TABLES)
    n_ring2 = sum(1 for job in jobs if job[0] == "ig" and job[4] and len(job[2]) == 2)
    res.bound = (f"EXHAUSTIVE: -seq: every list of <= {4 if ctx.thorough else 3} blocks name:count over {len(TXT_NAMES)} names x counts 1..3; "
                 f".txt: every sequence of length 1..{max_len} over {len(TXT_NAMES)} arbitrary names x every line breaking x with/without final newline; "
                 f".fasta (two header forms) and .ig (terminator on the last sequence line and on its own line" + ("" if ctx.thorough else
                 f", alternating at length {max_len}") + "; linear, and circular for length >= 2 -- at length 2 the closing edge 1-2 is the only edge and must carry the circular label): every "
                 f"sequence of length 1..{max_len} over ACGT as DNA and as RNA x every line breaking; protein through .fasta/.ig: every sequence of length "
                 f"<= {3 if ctx.thorough else 2}, every cyclic window of the 21-letter table of length 3..{max_len} x every line breaking, linear and (length >= 2) "
                 f"circular, the circular ring of two with both terminator placements (letters of the tables exercised: {cover}; circular .ig worlds of "
                 f"length 2: {n_ring2}); .json: every connected labelled graph on 1..4 nodes x 2 namings x resid given/absent x node order in the file, written "
                 "by the real node_link_data; gen_seq: the 27 macros (levels 1..3 x branching 1..3 x three residue mixes with probability 1) alone, in every "
                 "one-block sequence x 4 terminal-renaming/label sets, every ordered pair of shapes x 3 residue combinations x connect records between "
                 "first/middle/last residues in BOTH index orders (plus two-edge records), every triple of shapes x 4 connect topologies (a record between "
                 "every pair of blocks) x 3 index-order patterns" + (" x 3 residue combinations x 4 decorations" if ctx.thorough else " (residue combination and "
                 "decoration cycled)") + f"; each gen_seq world: generate_seq_graph checked, then gen_seq -> JSON -> MetaMolecule.from_sequence_file.  "
                 f"BEYOND THE BOUND (seeded, not exhaustive): {3000 if ctx.thorough else 300} random protein sequences of length 3..{max_len + 3} with random "
                 f"line breakings; probes: RNA letter U, .ig titles ending in 1/2.  Worlds per family: {fam_count}")
    res.rule = "world = one input (command-line strings or a generated file); non-trivial iff it states >= 2 residues"
    res.exhaustive = True
    res.assumptions += [
        "oracle conventions taken from the documented formats, not the statement: RNA files spell uracil T (-> residue U), O -> HYP, "
        "the circular edge label is linktype=circle, gen_seq block and in-block residue indices are 0-based, tree residues are numbered "
        "generation by generation, a terminus is a residue with exactly one neighbour in the final graph",
        "attributes build/backmap/seqid are bookkeeping and not compared; node keys are not compared, residues are identified by resid",
        "not in the bound: circular .ig of length 1 (a ring of one residue has no two ends to close; whether the statement wants a self-loop "
        "is not defined, so no oracle is written for it), the name of a single linear nucleotide (both ends at once), MacroFile (-from_file) macros",
    ]


# ======================================================================================================
# C19
# ======================================================================================================

WC = {"A": "T", "T": "A", "G": "C", "C": "G"}


def spec_complement_name(name):
    """Watson-Crick partner with 5' and 3' roles exchanged; None for a name that is not a DNA residue name"""
    if len(name) not in (2, 3) or name[0] != "D" or name[1] not in WC or name[2:] not in ("", "5", "3"):
        return None
    return "D" + WC[name[1]] + {"": "", "5": "3", "3": "5"}[name[2:]]


def spec_dsdna(names, edges):
    """names: residues 1..n; edges {(i, j): labels} of the single strand.  2n residues; residue n+k is the complement of
    residue n+1-k; the second strand is connected in that order with the labels of the mirrored edges; no edge
    between the strands"""
    n = len(names)
    nodes = {i + 1: {"resname": names[i]} for i in range(n)}
    for k in range(1, n + 1):
        nodes[n + k] = {"resname": spec_complement_name(names[n - k])}
    out = dict(edges)
    for (i, j), labels in edges.items():
        # residue r of the first strand corresponds to residue 2n+1-r
        u, v = sorted((2 * n + 1 - i, 2 * n + 1 - j))
        out[(u, v)] = dict(labels)
    return nodes, out


def c19_jobs(ctx):
    jobs = []
    max_len = 7 if ctx.thorough else 5
    for n in range(1, max_len + 1):
        for letters in itertools.product("ACGT", repeat=n):
            letters = "".join(letters)
            for form in ("fasta", "ig", "seq"):
                jobs.append(("strand", form, letters, ""))
            if n >= 3:
                jobs.append(("strand", "ig-circular", letters, ""))
            if n >= 2:                               # every edge carries its own label (JSON input through the real writer)
                jobs.append(("strand", "json-labelled", letters, ""))
    for base in "ACGT":                              # a single nucleotide given by name, in each terminal role
        for suffix in ("", "5", "3"):
            jobs.append(("strand", "seq1", base, suffix))
    for n in range(1, (4 if ctx.thorough else 3) + 1):   # unknown residue names at every position
        for letters in itertools.product("ACGT", repeat=n):
            for pos in range(n):
                for bad_name in ("ALA", "DX", "A", "DA53", "da"):
                    jobs.append(("unknown", "".join(letters), pos, bad_name))
    return jobs


GP_ROUTES = ("seq", "fasta", "txt")


def c19_route_jobs(ctx):
    """the program path: gen_params(..., dsdna=True) with the shipped parmbsc1 library, the strand supplied through each input route
    of the program; observed at the written .itp.  job = ("gen_params", route, letters)"""
    strands = ["AT", "CGT", "GAATC"]                 # lengths 2, 3, 5; the last with a repeated base (-seq token DA:2)
    routes = GP_ROUTES
    if ctx.thorough:
        routes = GP_ROUTES + ("ig",)
        strands += ["CG", "GC", "TA", "AAA", "TCA", "GGC", "ACGT", "TTTT", "CCGGA", "ATGCATG", "CCGTTTAAG"]
        rng = random.Random(ctx.seed)
        for n in (6, 8, 11):
            strands.append("".join(rng.choice("ACGT") for _ in range(n)))
    return [("gen_params", route, letters) for letters in strands for route in routes]


def _rle(names):
    out = []
    for nm in names:
        if out and out[-1][0] == nm:
            out[-1][1] += 1
        else:
            out.append([nm, 1])
    return [f"{nm}:{cnt}" for nm, cnt in out]


def _terminal_names(letters):
    names = ["D" + c for c in letters]
    if len(names) >= 2:
        names[0] += "5"
        names[-1] += "3"
    return names


def _build_strand(form, letters, suffix, scratch):
    """the single strand as the real parsers / the -seq path produce it, and what the statement says it is"""
    mm = load("polyply.src.meta_molecule")
    ff = _force_field()
    circular = form == "ig-circular"
    if form == "fasta":
        path = scratch / "d.fasta"
        path.write_text(f">DNA\n{letters}\n")
        mol = mm.MetaMolecule.from_sequence_file(ff, path, "dna")
    elif form in ("ig", "ig-circular"):
        path = scratch / "d.ig"
        path.write_text(f"; DNA\ntitle\n{letters}{'2' if circular else '1'}\n")
        mol = mm.MetaMolecule.from_sequence_file(ff, path, "dna")
    elif form == "json-labelled":
        import networkx as nx
        from networkx.readwrite import json_graph
        graph = nx.Graph()
        for i, nm in enumerate(_terminal_names(letters)):
            graph.add_node(i, resname=nm, resid=i + 1)
        for i in range(len(letters) - 1):
            graph.add_edge(i, i + 1, bond=f"b{i + 1}")
        path = scratch / "d.json"
        with open(path, "w") as handle:
            json.dump(json_graph.node_link_data(graph), handle)
        mol = mm.MetaMolecule.from_sequence_file(ff, path, "dna")
    else:
        gen_itp = load("polyply.src.gen_itp")
        names = _terminal_names(letters) if form == "seq" else ["D" + letters + suffix]
        mol = mm.MetaMolecule.from_monomer_seq_linear(force_field=ff, monomers=gen_itp.split_seq_string(_rle(names)), mol_name="dna")
    if form == "seq1":
        exp = spec_linear(["D" + letters + suffix])
    elif form == "seq":
        exp = spec_linear(_terminal_names(letters))
    elif form == "json-labelled":
        exp = spec_linear(_terminal_names(letters))
        exp = (exp[0], {(i, j): {"bond": f"b{i}"} for (i, j) in exp[1]})
    else:
        exp = spec_one_letter("DNA", letters, circular)
    return mol, exp


def read_itp_residue_graph(path):
    """the residue graph an .itp file states: ((nodes {resid: {"resname": name}}, edges {(resid_i, resid_j): {}}), None) or (None, why not).
    Residues from the [ atoms ] lines (nr type resnr residue ...), an edge for every [ bonds ] line between atoms of different residues."""
    section, atom_res, nodes, edges = None, {}, {}, {}
    with open(path) as handle:
        for raw in handle:
            line = raw.split(";")[0].strip()
            if not line or line.startswith("#"):
                continue
            if line.startswith("["):
                section = line.strip("[] \t")
                continue
            tokens = line.split()
            if section == "atoms":
                if len(tokens) < 4:
                    return None, f"atoms line {raw!r} has fewer than 4 fields"
                rid = int(tokens[2])
                if nodes.setdefault(rid, {"resname": tokens[3]})["resname"] != tokens[3]:
                    return None, f"residue {rid} is named both {nodes[rid]['resname']} and {tokens[3]}"
                atom_res[int(tokens[0])] = rid
            elif section == "bonds":
                if int(tokens[0]) not in atom_res or int(tokens[1]) not in atom_res:
                    return None, f"bond line {raw!r} names an atom that is not in the atoms section"
                i, j = sorted((atom_res[int(tokens[0])], atom_res[int(tokens[1])]))
                if i != j:
                    edges[(i, j)] = {}
    return (nodes, edges), None


def c19_route_eval(job, scratch):
    """gen_params -dsdna on one strand through one input route; the statement read at the written .itp (edge labels are not observable there)"""
    gen_itp = load("polyply.src.gen_itp")
    _, route, letters = job
    n = len(letters)
    names = _terminal_names(letters)
    seq, seq_file = None, None
    if route == "seq":
        seq = _rle(names)
        how = "-seq " + " ".join(seq)
    elif route == "fasta":
        seq_file = scratch / "strand.fasta"
        seq_file.write_text(f">DNA {letters}\n{letters}\n")
        how = f"-seqf strand.fasta ({letters})"
    elif route == "ig":
        seq_file = scratch / "strand.ig"
        seq_file.write_text(f"; DNA\ntitle\n{letters}1\n")
        how = f"-seqf strand.ig ({letters}1)"
    else:
        seq_file = scratch / "strand.txt"
        seq_file.write_text(" ".join(names) + "\n")
        how = "-seqf strand.txt (" + " ".join(names) + ")"
    out = scratch / "out.itp"
    if out.exists():
        out.unlink()
    gen_itp.gen_params(name="DNA", outpath=out, inpath=[], lib=["parmbsc1"], seq=seq, seq_file=seq_file, dsdna=True)
    if not out.exists():
        return n >= 2, f"gen_params {how} -dsdna returned without writing the .itp", "c19-gen-params-route"
    obs, why = read_itp_residue_graph(out)
    exp = spec_dsdna(names, spec_linear(names)[1])
    bad = why or differ(obs, *exp)
    if bad:
        return n >= 2, f"gen_params -lib parmbsc1 {how} -dsdna, residue graph of the written .itp: {bad}", "c19-gen-params-route"
    return n >= 2, None, None


def c19_eval(job, scratch):
    """-> (nontrivial, None or text, key)"""
    if job[0] == "gen_params":
        return c19_route_eval(job, scratch)
    gen_dna = load("polyply.src.gen_dna")
    mm = load("polyply.src.meta_molecule")
    import networkx as nx
    if job[0] == "unknown":
        _, letters, pos, bad_name = job
        gen_itp = load("polyply.src.gen_itp")
        names = _terminal_names(letters)
        names[pos] = bad_name
        mol = mm.MetaMolecule.from_monomer_seq_linear(force_field=_force_field(), monomers=gen_itp.split_seq_string(_rle(names)), mol_name="dna")
        try:
            gen_dna.complement_dsDNA(mol)
        except Exception:                            # noqa: BLE001 -- any rejection is what the statement asks for
            return len(letters) >= 2, None, None
        obs, _ = observe(mol)
        return len(letters) >= 2, f"residue name {bad_name!r} at position {pos + 1} of {names} was accepted: {obs}", "c19-unknown-resname-accepted"
    _, form, letters, suffix = job
    n = len(letters)
    nontrivial = n >= 2
    file_form = form in ("fasta", "ig", "ig-circular")
    key_input = "F7-single-residue-sequence" if (n == 1 and file_form) else "c19-input-strand"
    mol, exp_in = _build_strand(form, letters, suffix, scratch)
    obs, why = observe(mol)
    if why is None and len(obs[0]) != n:
        return nontrivial, f"the strand read from the {form} input has {len(obs[0])} residues, {n} stated", key_input
    if n == 1 and file_form:
        # single nucleotide from a file: its terminal name is not fixed by the statement; take the one the parser gave if it is a DNA name
        only = obs[0][1].get("resname")
        if spec_complement_name(only) is None:
            # The parser names a nucleotide that is both ends '<base>53'; no DNA residue of that name exists, and the
            # statement only fixes terminal names for strands that have two ends.  Its last clause applies: an unknown
            # residue name must be rejected (an exception), never completed silently.  (lead's triage)
            try:
                gen_dna.complement_dsDNA(mol)
            except Exception:                        # noqa: BLE001
                return nontrivial, None, None
            return nontrivial, (f"the single nucleotide read from the {form} input is named {only!r} (not a DNA residue name) but "
                                f"completing it did not raise: {observe(mol)[0]}"), "c19-unknown-name-not-rejected"
        exp_in = spec_linear([only])
    bad = why or differ(obs, *exp_in)
    if bad:
        return nontrivial, f"input strand: {bad}", key_input
    names = [exp_in[0][i + 1]["resname"] for i in range(n)]
    gen_dna.complement_dsDNA(mol)
    obs2, why = observe(mol)
    exp = spec_dsdna(names, exp_in[1])
    bad = why or differ(obs2, *exp)
    if bad:
        return nontrivial, f"after completion: {bad}", "c19-complement"
    # separate strands (stated on its own): no path between residue 1 and residue n+1
    by_resid = {d["resid"]: k for k, d in mol.nodes(data=True)}
    if nx.has_path(mol, by_resid[1], by_resid[n + 1]):
        return nontrivial, "the two strands are connected", "c19-complement"
    # complementing the added strand again recovers the original sequence
    second = nx.Graph()
    for k in range(n):
        second.add_node(k, resname=obs2[0][n + 1 + k]["resname"], resid=k + 1)
    for (i, j), labels in obs2[1].items():
        if i > n:
            second.add_edge(i - n - 1, j - n - 1, **labels)
    mol2 = mm.MetaMolecule(second, force_field=_force_field(), mol_name="dna2")
    gen_dna.complement_dsDNA(mol2)
    obs3, why = observe(mol2)
    if why:
        return nontrivial, f"second completion: {why}", "c19-double-complement"
    again = [obs3[0].get(n + 1 + k, {}).get("resname") for k in range(n)]
    if again != names:
        return nontrivial, f"complement of the added strand is {again}, the original sequence is {names}", "c19-double-complement"
    return nontrivial, None, None


def c19_worker(arg):
    root, batch = arg
    scratch = Path(tempfile.mkdtemp(dir=root))
    out = []
    for job in batch:
        try:
            out.append(c19_eval(job, scratch))
        except Exception as exc:                     # noqa: BLE001
            n = len(job[2]) if job[0] in ("strand", "gen_params") else len(job[1])
            file_form = job[0] == "strand" and job[1] in ("fasta", "ig", "ig-circular")
            key = "F7-single-residue-sequence" if (n == 1 and file_form) else "c19-raised"
            out.append((n >= 2, f"raised {type(exc).__name__}: {exc}", key))
    shutil.rmtree(scratch, ignore_errors=True)
    return out


def run_c19(ctx, res):
    jobs = c19_jobs(ctx)
    max_len = 7 if ctx.thorough else 5
    root = tempfile.mkdtemp(dir="/var/tmp", prefix="bseq-c19-")
    try:
        outs = _pool_run(c19_worker, jobs, root, 300)
        # the program path: few, slower worlds (force-field library load, mapping, links, itp writing) -- one per task
        route_jobs = c19_route_jobs(ctx)
        outs += _pool_run(c19_worker, route_jobs, root, 1)
        jobs += route_jobs
    finally:
        shutil.rmtree(root, ignore_errors=True)
    _collect(res, "c19-dsdna", ((job, nt, bad, key) for job, (nt, bad, key) in zip(jobs, outs)))
    route_names = sorted({j[1] for j in route_jobs})
    route_strands = sorted({j[2] for j in route_jobs}, key=lambda t: (len(t), t))
    n_lin = sum(1 for j in jobs if j[0] == "strand" and j[1] in ("fasta", "ig", "seq"))
    n_circ = sum(1 for j in jobs if j[0] == "strand" and j[1] == "ig-circular")
    n_unknown = sum(1 for j in jobs if j[0] == "unknown")
    n_lab = sum(1 for j in jobs if j[0] == "strand" and j[1] == "json-labelled")
    res.bound = (f"EXHAUSTIVE: every sequence over ACGT of length 1..{max_len}, linear with 5'/3' terminal names, produced three ways (.fasta parser, "
                 f".ig parser, -seq with DX5/DX/DX3 names through split_seq_string + from_monomer_seq_linear) = {n_lin} strands; every sequence of length "
                 f"2..{max_len} as a .json residue graph whose every edge carries its own label = {n_lab}; every circular sequence "
                 f"of length 3..{max_len} through the .ig parser = {n_circ}; each single nucleotide by name in each terminal role (12); on each: "
                 "complement_dsDNA, the full statement as postcondition, and a second completion of the added strand taken on its own; "
                 f"unknown names: every sequence of length 1..{4 if ctx.thorough else 3} x every position x 5 non-DNA names = {n_unknown}, must raise.  "
                 f"PROGRAM PATH (fixed list, not exhaustive): gen_params(lib=['parmbsc1'], dsdna=True) on the strands {route_strands}"
                 + (" (the last three seeded-random)" if ctx.thorough else "") +
                 f" x input routes {route_names} (seq = -seq DX5/DX/DX3 tokens, fasta/ig = one-letter file, txt = explicit residue names) = "
                 f"{len(route_jobs)} runs; the written .itp is read back (atoms: resid/resname; bonds between atoms of different residues) and must "
                 "state 2n residues, 1..n as given, n+k the complement of n+1-k with 5'/3' exchanged, each strand bonded in order, no bond between the strands")
    res.rule = "world = one strand (sequence x way of producing it); non-trivial iff n >= 2; program-path world = one gen_params run (strand x input route)"
    res.exhaustive = True
    res.assumptions += [
        "residue naming D<base>[5|3] and the circular edge label linktype=circle are conventions of the input parsers (C12), not of the C19 statement",
        "'rejected' is read as: an exception of any type is raised",
        "the second completion is run on the added strand rebuilt as its own MetaMolecule (same names, resids from 1, same edge labels)",
        "program path: the residue graph is read from the .itp with a reader written here (atoms columns nr/type/resnr/residue; an edge = a [ bonds ] "
        "line between atoms of different residues); edge labels are not observable in an .itp; the parmbsc1 library shipped with the tree is used as is; "
        "circular strands and .json input are not run through gen_params",
    ]


# ======================================================================================================
# C20
# ======================================================================================================

class Injected(Exception):
    """the failure injected at a stage boundary"""


# (stage label, kind, where): kind func   -> module global callable `where`
#                             kind method -> method `where[1]` of the class bound to module global `where[0]`
#                             kind attr   -> dotted attribute reached from a module global (e.g. vermouth.gmx.itp.write_molecule_itp)
#                             kind single -> method of the singleton DeferredFileWriter (proxy, the class cannot be subclassed without losing the queue)
STAGES = {
    "gen_params": ("polyply.src.gen_itp", [
        ("reading force field input", "func", "load_ff_library"),
        ("reading -seq", "func", "split_seq_string"),
        ("residue graph from -seq", "method", ("MetaMolecule", "from_monomer_seq_linear")),
        ("reading the sequence file", "method", ("MetaMolecule", "from_sequence_file")),
        ("dsDNA completion", "func", "complement_dsDNA"),
        ("mapping", "method", ("MapToMolecule", "run_molecule")),
        ("link application", "method", ("ApplyLinks", "run_molecule")),
        ("modifications", "method", ("ApplyModifications", "run_molecule")),
        ("missing-link check", "func", "find_missing_edges"),
        ("opening the deferred output", "func", "deferred_open"),
        ("header citations", "func", "citation_formatter"),
        ("itp serialisation", "attr", "vermouth.gmx.itp.write_molecule_itp"),
        ("flush of the deferred writer", "single", ("DeferredFileWriter", "write")),
    ]),
    "gen_coords": ("polyply.src.gen_coords", [
        ("reading the topology", "method", ("Topology", "from_gmx_topfile")),
        ("processing the topology", "method", ("Topology", "preprocess")),
        ("connectivity check", "func", "_check_molecules"),
        ("loading coordinates", "method", ("Topology", "add_positions_from_file")),
        ("reading build files", "func", "load_build_files"),
        ("start nodes", "func", "find_starting_node_from_spec"),
        ("residue equivalence check", "func", "check_residue_equivalence"),
        ("template generation", "method", ("GenerateTemplates", "run_system")),
        ("ligand annotation", "method", ("AnnotateLigands", "run_system")),
        ("cycle restraints", "func", "_initialize_cylces"),
        ("system building", "method", ("BuildSystem", "run_system")),
        ("ligand splitting", "method", ("AnnotateLigands", "split_ligands")),
        ("backmapping", "method", ("Backmap", "run_system")),
        ("conversion to a vermouth system", "method", ("Topology", "convert_to_vermouth_system")),
        ("gro serialisation", "attr", "vermouth.gmx.gro.write_gro"),
        ("flush of the deferred writer", "single", ("DeferredFileWriter", "write")),
    ]),
    "gen_seq": ("polyply.src.gen_seq", [
        ("reading force field input", "func", "load_ff_library"),
        ("macro definition", "func", "MacroString"),
        ("sequence graph generation", "func", "generate_seq_graph"),
        ("terminal renaming", "func", "_apply_termini_modifications"),
        ("labelling", "func", "_tag_nodes"),
        ("serialisation to node-link data", "attr", "json_graph.node_link_data"),
    ]),
}
INPUTS = {"gen_params": ("seq", "seqfile"), "gen_coords": ("build", "meta-coordinates"), "gen_seq": ("strings",)}
PATH_STATES = ("absent", "present", "present+backup")
OUT_NAME = {"gen_params": "out.itp", "gen_coords": "out.gro", "gen_seq": "out.json"}


def _wrapped(real, when, hits):
    def wrapper(*args, **kwargs):
        hits.append(1)
        if when == "before":
            raise Injected("before")
        result = real(*args, **kwargs)
        if inspect.isgenerator(result):
            result = list(result)
        raise Injected("after")
    return wrapper


def _rebind(module, kind, where, when, hits):
    """rebinds the stage's entry point in the calling module; returns the undo list [(object, attribute, original)]"""
    if kind == "func":
        undo = [(module, where, getattr(module, where))]
        setattr(module, where, _wrapped(getattr(module, where), when, hits))
        return undo
    if kind == "attr":
        parts = where.split(".")
        owner = getattr(module, parts[0])
        for part in parts[1:-1]:
            owner = getattr(owner, part)
        undo = [(owner, parts[-1], getattr(owner, parts[-1]))]
        setattr(owner, parts[-1], _wrapped(getattr(owner, parts[-1]), when, hits))
        return undo
    if kind == "method":
        cls_name, meth = where
        real_cls = getattr(module, cls_name)
        static = inspect.getattr_static(real_cls, meth)
        sub = type(real_cls)(cls_name, (real_cls,), {})
        if isinstance(static, classmethod):
            func = static.__func__
            setattr(sub, meth, classmethod(_wrapped(func, when, hits)))
        else:
            setattr(sub, meth, _wrapped(getattr(real_cls, meth), when, hits))
        undo = [(module, cls_name, real_cls)]
        setattr(module, cls_name, sub)
        return undo
    if kind == "single":
        cls_name, meth = where
        real_cls = getattr(module, cls_name)

        class Proxy:
            def __init__(self):
                self._real = real_cls()

            def __getattr__(self, name):
                if name == meth:
                    return _wrapped(getattr(self._real, meth), when, hits)
                return getattr(self._real, name)
        undo = [(module, cls_name, real_cls)]
        setattr(module, cls_name, Proxy)
        return undo
    raise RuntimeError(kind)


def _snapshot(directory):
    snap = {}
    for base, _, files in os.walk(directory):
        for name in files:
            full = os.path.join(base, name)
            with open(full, "rb") as handle:
                snap[os.path.relpath(full, directory)] = handle.read()
    return snap


def _call_program(prog, variant, work, out):
    """one small valid input per program, arguments as bin/polyply passes them"""
    import numpy as np
    test_data = Path(load("polyply").TEST_DATA)
    if prog == "gen_params":
        module = load("polyply.src.gen_itp")
        common = dict(name="PEO", outpath=out, inpath=[test_data / "gen_params" / "input" / "PEO.martini.3.itp"], lib=None,
                      dsdna=False, mods=[], protter=False)
        if variant == "seq":
            return module.gen_params(seq=["PEO:3"], seq_file=None, **common)
        return module.gen_params(seq=None, seq_file=work / "in" / "seq.txt", **common)
    if prog == "gen_coords":
        module = load("polyply.src.gen_coords")
        top = test_data / "topology_test" / "system.top"
        if variant == "build":
            return module.gen_coords(toppath=top, outpath=out, name="test", box=np.array([10.0, 10.0, 10.0]))
        return module.gen_coords(toppath=top, outpath=out, name="test", coordpath_meta=test_data / "topology_test" / "cog.gro",
                                 box=np.array([11.0, 11.0, 11.0]))
    module = load("polyply.src.gen_seq")
    return module.gen_seq(name="m", outpath=out, seq=["A", "B"], inpath=[], macro_strings=["A:3:1:PEO-1.0", "B:2:2:PS-1.0"], from_file=None,
                          connects=["0:1:2-0"], modifications=["0:OH"], tags=["1:chiral:R-1.0"])


def spec_complete(prog, data):
    """None or why the bytes are not a complete output of the program for the chosen input"""
    try:
        text = data.decode()
    except UnicodeDecodeError as exc:
        return f"not text: {exc}"
    if not text.endswith("\n") and prog != "gen_seq":
        return "the last line is not terminated"
    if prog == "gen_params":
        import vermouth
        ff = vermouth.forcefield.ForceField("check")
        try:
            vermouth.gmx.itp_read.read_itp(text.splitlines(), ff)
        except Exception as exc:                     # noqa: BLE001
            return f"does not parse as itp: {exc}"
        if "PEO" not in ff.blocks or len(ff.blocks["PEO"].nodes) != 3:
            return "the itp does not hold moleculetype PEO with 3 atoms"
        if len(ff.blocks["PEO"].interactions.get("bonds", [])) != 2:
            return "the itp does not hold the 2 bonds of PEO:3"
        return None
    if prog == "gen_coords":
        lines = text.split("\n")[:-1]
        try:
            natoms = int(lines[1])
        except (ValueError, IndexError):
            return "no atom count on line 2"
        if natoms != 21 or len(lines) != natoms + 3:
            return f"{natoms} atoms announced, {len(lines) - 3} atom lines, 21 atoms in the topology"
        try:
            box = [float(x) for x in lines[-1].split()]
            coords = [[float(line[20 + 8 * d: 28 + 8 * d]) for d in range(3)] for line in lines[2:-1]]
        except ValueError:
            return "atom or box line does not parse"
        if len(box) < 3 or any(c != c or abs(c) == float("inf") for xyz in coords for c in xyz):
            return "box incomplete or non-finite coordinates"
        return None
    try:
        doc = json.loads(text)
    except ValueError as exc:
        return f"not complete JSON: {exc}"
    if len(doc.get("nodes", [])) != 6:
        return f"{len(doc.get('nodes', []))} residues in the JSON, 6 stated"
    return None


def c20_eval(scn, root, seed):
    """scn = (prog, variant, stage index or None, when, path state) -> (reached, bad, key, note)"""
    import numpy as np
    prog, variant, stage, when, state = scn
    modname, stages = STAGES[prog]
    module = load(modname)
    writer = load("vermouth.file_writer").DeferredFileWriter
    work = Path(tempfile.mkdtemp(dir=root))
    (work / "in").mkdir()
    (work / "in" / "seq.txt").write_text("PEO PEO\nPEO\n")
    out = work / OUT_NAME[prog]
    old, older = b"PREVIOUS CONTENT OF THE OUTPUT PATH\n", b"AN OLDER BACKUP\n"
    if state != "absent":
        out.write_bytes(old)
    if state == "present+backup":
        (work / f"#{out.name}.1#").write_bytes(older)
    before = _snapshot(work)
    cwd = os.getcwd()
    os.chdir(work)
    random.seed(seed)
    np.random.seed(seed % (2 ** 32))
    writer().close()                                 # the deferred queue is process-wide: every scenario starts from an empty one
    hits, undo, raised = [], [], None
    try:
        if stage is not None:
            _, kind, where = stages[stage]
            undo = _rebind(module, kind, where, when, hits)
        try:
            _call_program(prog, variant, work, out)
        except Exception as exc:                     # noqa: BLE001
            raised = exc
    finally:
        for owner, attr, original in reversed(undo):
            setattr(owner, attr, original)
        writer().close()
        os.chdir(cwd)
    after = _snapshot(work)
    shutil.rmtree(work, ignore_errors=True)
    label = stages[stage][0] if stage is not None else "no injection"
    reached = bool(hits) if stage is not None else raised is None
    if raised is not None and not isinstance(raised, Injected):
        return reached, f"valid input failed with {type(raised).__name__}: {raised} ({label}, {when})", "c20-valid-input-failed", None
    if stage is not None and hits and raised is None:
        return reached, f"the exception injected {when} '{label}' did not end the program", "c20-injected-failure-swallowed", None
    wrote = raised is None or (stages[stage][1] == "single" and when == "after")
    if not wrote:
        # failure before writing: nothing created, truncated or modified
        if after != before:
            created = sorted(set(after) - set(before))
            gone = sorted(set(before) - set(after))
            changed = sorted(k for k in set(after) & set(before) if after[k] != before[k])
            sizes = {k: len(after[k]) for k in created + changed}
            return reached, (f"failure {when} '{label}' with the output path {state}: created {created}, removed {gone}, modified {changed} "
                             f"(sizes now {sizes})"), f"c20-{prog}-output-touched-before-success", None
        return reached, None, None, None
    # success: complete file in place; gen_params / gen_coords keep a previous file under #name.N#
    name = out.name
    if name not in after:
        return reached, f"the program returned but {name} does not exist", f"c20-{prog}-no-output", None
    bad = spec_complete(prog, after[name])
    if bad:
        return reached, f"output after success is not complete: {bad}", f"c20-{prog}-incomplete-output", None
    expected = dict(before)
    expected[name] = after[name]
    if state == "present":
        expected[f"#{name}.1#"] = old
    elif state == "present+backup":
        expected[f"#{name}.2#"] = old
    note = None
    if after != expected:
        if prog == "gen_seq":
            # the statement promises the backup for gen_params and gen_coords only; everything else must be untouched
            rest_a = {k: v for k, v in after.items() if k != name}
            rest_b = {k: v for k, v in before.items() if k != name}
            if rest_a == rest_b:
                return reached, None, None, "gen_seq replaced the existing file without a backup (not promised by the statement)"
        diff = sorted(k for k in set(after) | set(expected) if after.get(k) != expected.get(k))
        return reached, (f"after success with the output path {state}: files differing from 'previous file kept under the next free "
                         f"#name.N#, everything else untouched': {diff}; listing {sorted(after)}"), f"c20-{prog}-backup", None
    return reached, None, None, note


# ------------------------------------------------------------------------------------------------------
# C20, thorough tier only: more inputs per program, more states / spellings of the output path, and a failure injected
# at every line event and at every call made directly by the top-level function (sys.settrace), besides the stage table
# ------------------------------------------------------------------------------------------------------

OWN_FF = ("[ defaults ]\n1 2 yes 1.0 1.0\n\n[ atomtypes ]\nP4 72.0 0.0 A 0.47 4.5\nC1 72.0 0.0 A 0.47 3.5\nSC 45.0 0.0 A 0.41 2.0\n")
OWN_MOLS = ("[ moleculetype ]\nCH 1\n[ atoms ]\n1 C1 1 RA A 1 0.0\n2 C1 2 RA A 2 0.0\n3 C1 3 RB B1 3 0.0\n4 SC 3 RB B2 4 0.0\n"
            "[ bonds ]\n1 2 1 0.45 5000\n2 3 1 0.45 5000\n3 4 1 0.30 5000\n\n"
            "[ moleculetype ]\nW 1\n[ atoms ]\n1 P4 1 W W 1 0.0\n\n"
            "[ moleculetype ]\nLG 1\n[ atoms ]\n1 SC 1 LG L 1 0.0\n\n")
OWN_ATOMS = {"own": 4 + 2, "own-lig": 4 + 2 + 1}          # CH 1, W 2 (+ LG 1)
OWN_VOLUMES = "[ volumes ]\nRA 0.45\nRB 0.5\nW 0.47\nLG 0.41\n"

# variant -> (what the input states: used by the completeness oracle)
DEEP_INPUTS = {
    "gen_params": {
        "seq": dict(name="PEO", residues=3), "seqfile": dict(name="PEO", residues=3), "seqfile-json": dict(name="PEO", residues=3),
        "lib-protein": dict(name="prot", residues=3), "mods": dict(name="prot", residues=3), "protter": dict(name="prot", residues=3),
        "dsdna-fasta": dict(name="dna", residues=8), "dsdna-seq": dict(name="dna", residues=6),
    },
    "gen_coords": {
        "build": dict(atoms=21), "meta-coordinates": dict(atoms=21), "pmma-bld": dict(atoms=21),
        "own-box": dict(atoms=6), "own-c": dict(atoms=6), "own-bld-start": dict(atoms=6), "own-dens-grid": dict(atoms=6), "own-lig": dict(atoms=7),
        "own-mc-res": dict(atoms=6),
    },
    "gen_seq": {"strings": dict(residues=6), "plain": dict(residues=4), "random-mix": dict(residues=5), "from-file": dict(residues=4)},
}
# (is the output path occupied, indices N of existing #name.N# backups)
PATH_CONTENTS = {"absent": (False, ()), "present": (True, ()), "present+1": (True, (1,)), "present+1+2": (True, (1, 2)), "present+2(gap)": (True, (2,)),
                 "absent+1": (False, (1,))}
# how the output path is spelled: absolute / relative to the working directory, in the directory itself / in a sub-directory
PATH_SPELLINGS = ("abs", "rel", "sub-abs", "sub-rel")
OLD = b"PREVIOUS CONTENT OF THE OUTPUT PATH\n"


def _backup_bytes(idx):
    return b"AN OLDER BACKUP number %d\n" % idx


def _write_inputs(prog, variant, work):
    """own input files of the variant under work/in (the test data of the tree are used read-only where named)"""
    ind = work / "in"
    ind.mkdir()
    (ind / "seq.txt").write_text("PEO PEO\nPEO\n")
    if prog == "gen_params" and variant == "seqfile-json":
        import networkx as nx
        from networkx.readwrite import json_graph
        graph = nx.Graph()
        for i in range(3):
            graph.add_node(i, resname="PEO", resid=i + 1)
        graph.add_edges_from([(0, 1), (1, 2)])
        with open(ind / "seq.json", "w") as handle:
            json.dump(json_graph.node_link_data(graph), handle)
    if prog == "gen_params" and variant == "dsdna-fasta":
        (ind / "d.fasta").write_text(">DNA\nACGT\n")
    if prog == "gen_coords" and variant.startswith("own"):
        (ind / "ff.itp").write_text(OWN_FF)
        (ind / "mols.itp").write_text(OWN_MOLS)
        mols = "CH 1\nW 2\n" + ("LG 1\n" if variant == "own-lig" else "")
        (ind / "sys.top").write_text('#include "ff.itp"\n#include "mols.itp"\n\n[ system ]\nown\n\n[ molecules ]\n' + mols)
        rows = [(1, "RA", "A", (0.5, 0.5, 0.5)), (2, "RA", "A", (0.95, 0.5, 0.5)), (3, "RB", "B1", (1.4, 0.5, 0.5)), (3, "RB", "B2", (1.4, 0.8, 0.5))]
        gro = ["supplied", str(len(rows))] + ["%5d%-5s%5s%5d%8.3f%8.3f%8.3f" % (r, rn, an, i + 1, *xyz) for i, (r, rn, an, xyz) in enumerate(rows)] + ["4.0 4.0 4.0"]
        (ind / "in.gro").write_text("\n".join(gro) + "\n")
        cen = [(1, "RA", "CG", (0.5, 0.5, 0.5)), (1, "W", "CG", (2.5, 2.5, 2.5))]
        gro = ["centres", str(len(cen))] + ["%5d%-5s%5s%5d%8.3f%8.3f%8.3f" % (r, rn, an, i + 1, *xyz) for i, (r, rn, an, xyz) in enumerate(cen)] + ["4.0 4.0 4.0"]
        (ind / "cen.gro").write_text("\n".join(gro) + "\n")
        (ind / "opts.bld").write_text("[ molecule ]\nCH 0 1\n[ sphere ]\nRA 1 3 in 2.0 2.0 2.0 1.6\n" + OWN_VOLUMES)
        (ind / "vol.bld").write_text(OWN_VOLUMES)
        rng = random.Random(5)
        (ind / "grid.dat").write_text("\n".join(" ".join(repr(round(rng.uniform(0.3, 2.4), 3)) for _ in range(3)) for _ in range(30)) + "\n")


def _call_program_deep(prog, variant, work, out):
    """the programs with the keyword set of the command line; `out` as the user spelled it"""
    import numpy as np
    test_data = Path(load("polyply").TEST_DATA)
    ind = work / "in"
    if prog == "gen_params":
        module = load("polyply.src.gen_itp")
        peo = dict(name="PEO", outpath=out, inpath=[test_data / "gen_params" / "input" / "PEO.martini.3.itp"], lib=None, dsdna=False, mods=[], protter=False)
        if variant == "seq":
            return module.gen_params(seq=["PEO:3"], seq_file=None, **peo)
        if variant == "seqfile":
            return module.gen_params(seq=None, seq_file=ind / "seq.txt", **peo)
        if variant == "seqfile-json":
            return module.gen_params(seq=None, seq_file=ind / "seq.json", **peo)
        prot = dict(name="prot", outpath=out, inpath=[], lib=["martini3"], dsdna=False, seq=["GLY:1", "ALA:2"], seq_file=None)
        if variant == "lib-protein":
            return module.gen_params(mods=[], protter=False, **prot)
        if variant == "mods":
            return module.gen_params(mods=[["GLY1", "N-ter"], ["ALA3", "C-ter"]], protter=False, **prot)
        if variant == "protter":
            return module.gen_params(mods=[], protter=True, **prot)
        if variant == "dsdna-fasta":
            return module.gen_params(name="dna", outpath=out, inpath=[], lib=["martini2"], dsdna=True, mods=[], protter=False, seq=None, seq_file=ind / "d.fasta")
        if variant == "dsdna-seq":
            return module.gen_params(name="dna", outpath=out, inpath=[], lib=["martini2"], dsdna=True, mods=[], protter=False, seq=["DA5:1", "DC:1", "DG3:1"], seq_file=None)
    if prog == "gen_coords":
        module = load("polyply.src.gen_coords")
        tt = test_data / "topology_test"
        if variant == "build":
            return module.gen_coords(toppath=tt / "system.top", outpath=out, name="test", box=np.array([10.0, 10.0, 10.0]))
        if variant == "meta-coordinates":
            return module.gen_coords(toppath=tt / "system.top", outpath=out, name="test", coordpath_meta=tt / "cog.gro", box=np.array([11.0, 11.0, 11.0]))
        if variant == "pmma-bld":
            return module.gen_coords(toppath=tt / "system.top", outpath=out, name="test", build=[tt / "test.bld"], box=np.array([10.0, 10.0, 10.0]))
        own = dict(toppath=ind / "sys.top", outpath=out, name="own", maxiter=200)
        box = [np.array("4.0", dtype=float)] * 3
        if variant == "own-box":
            return module.gen_coords(box=box, **own)
        if variant == "own-c":
            return module.gen_coords(coordpath=ind / "in.gro", **own)
        if variant == "own-mc-res":
            return module.gen_coords(coordpath_meta=ind / "cen.gro", build_res=["RB"], **dict(own))
        if variant == "own-bld-start":
            return module.gen_coords(box=box, build=[ind / "opts.bld"], start=["CH#0-RA#2"], **own)
        if variant == "own-dens-grid":
            return module.gen_coords(density=30.0, grid=str(ind / "grid.dat"), **own)
        if variant == "own-lig":
            return module.gen_coords(box=box, build=[ind / "vol.bld"], ligands=[["CH#0-RA#1", "LG#3"]], **own)
    if prog == "gen_seq":
        module = load("polyply.src.gen_seq")
        if variant == "strings":
            return module.gen_seq(name="m", outpath=out, seq=["A", "B"], inpath=[], macro_strings=["A:3:1:PEO-1.0", "B:2:2:PS-1.0"], from_file=None,
                                  connects=["0:1:2-0"], modifications=["0:OH"], tags=["1:chiral:R-1.0"])
        if variant == "plain":
            return module.gen_seq(name="m", outpath=out, seq=["A"], inpath=[], macro_strings=["A:4:1:PEO-1.0"], from_file=None, connects=[], modifications=[], tags=[])
        if variant == "random-mix":
            return module.gen_seq(name="m", outpath=out, seq=["A", "B"], inpath=[], macro_strings=["A:3:1:PS-0.5,PEO-0.5", "B:2:1:PEO-1.0"], from_file=None,
                                  connects=["0:1:2-0"], modifications=[], tags=["0:chiral:R-0.5,S-0.5"])
        if variant == "from-file":
            return module.gen_seq(name="m", outpath=out, seq=["A", "B"], inpath=[test_data / "gen_params" / "input" / "PEO.martini.3.itp"],
                                  macro_strings=["B:3:1:PS-1.0"], from_file=["A:PEO"], connects=["0:1:0-0"], modifications=[], tags=[])
    raise RuntimeError(f"unknown variant {prog}/{variant}")


def spec_complete_deep(prog, variant, data):
    """None or why the bytes are not a complete output for what the input of the variant states (name, residue / atom count)"""
    want = DEEP_INPUTS[prog][variant]
    try:
        text = data.decode()
    except UnicodeDecodeError as exc:
        return f"not text: {exc}"
    if not text.endswith("\n") and prog != "gen_seq":
        return "the last line is not terminated"
    if prog == "gen_params":
        import vermouth
        ff = vermouth.forcefield.ForceField("check")
        try:
            vermouth.gmx.itp_read.read_itp(text.splitlines(), ff)
        except Exception as exc:                     # noqa: BLE001
            return f"does not parse as itp: {exc}"
        if list(ff.blocks) != [want["name"]]:
            return f"the itp holds moleculetypes {list(ff.blocks)}, requested {want['name']}"
        block = ff.blocks[want["name"]]
        resids = sorted({block.nodes[n]["resid"] for n in block.nodes})
        if resids != list(range(1, want["residues"] + 1)):
            return f"the itp holds residues {resids}, the input states {want['residues']} residues"
        if want["residues"] > 1 and not block.interactions.get("bonds") and not block.interactions.get("constraints"):
            return "no bonds or constraints in the itp"
        return None
    if prog == "gen_coords":
        lines = text.split("\n")[:-1]
        try:
            natoms = int(lines[1])
        except (ValueError, IndexError):
            return "no atom count on line 2"
        if natoms != want["atoms"] or len(lines) != natoms + 3:
            return f"{natoms} atoms announced, {len(lines) - 3} atom lines, {want['atoms']} atoms in the topology"
        try:
            box = [float(x) for x in lines[-1].split()]
            coords = [[float(line[20 + 8 * d: 28 + 8 * d]) for d in range(3)] for line in lines[2:-1]]
        except ValueError:
            return "atom or box line does not parse"
        if len(box) < 3 or any(c != c or abs(c) == float("inf") for xyz in coords for c in xyz):
            return "box incomplete or non-finite coordinates"
        return None
    try:
        doc = json.loads(text)
    except ValueError as exc:
        return f"not complete JSON: {exc}"
    if len(doc.get("nodes", [])) != want["residues"]:
        return f"{len(doc.get('nodes', []))} residues in the JSON, {want['residues']} stated"
    return None


def _write_statement_lines(func):
    """gen_seq writes with `with open(outpath, "w")`: absolute (first, last) line of that statement, from the AST of the function"""
    import ast
    import textwrap
    tree = ast.parse(textwrap.dedent(inspect.getsource(func)))
    first = func.__code__.co_firstlineno
    for node in ast.walk(tree):
        if isinstance(node, ast.With):
            for item in node.items:
                call = item.context_expr
                if isinstance(call, ast.Call) and isinstance(call.func, ast.Name) and call.func.id == "open":
                    return first + node.lineno - 1, first + node.end_lineno - 1
    return None


class KthEvent:
    """sys.settrace tracer: numbers the line events of the frame of the top-level function and the call events of frames it calls
    directly (a generator resumed by it counts), and raises Injected at event number k (k=None: only records).
    phase: 'pre' until writing starts, 'writing', 'post' after it returned.  Writing starts when DeferredFileWriter.write is
    entered (an injection AT its entry is still 'pre'), for gen_seq when the `with open(outpath, "w")` statement starts to run"""

    def __init__(self, func, k, with_lines):
        self.code, self.k, self.with_lines = func.__code__, k, with_lines
        self.top, self.events, self.phase, self.injected, self.done = None, [], "pre", None, False

    def _event(self, desc):
        idx = len(self.events)
        self.events.append((desc, self.phase))
        if self.k is not None and idx == self.k:
            self.injected = (desc, self.phase)
            self.done = True
            raise Injected(f"event {idx}: {desc}")

    def __call__(self, frame, event, arg):
        if self.done:
            return None
        if self.top is None:
            if frame.f_code is self.code:
                self.top = frame
                return self._local_top
            return None
        if frame.f_back is self.top:
            code = frame.f_code
            if code.co_name == "__del__":        # a finalizer the collector happens to run here: not a call of the function, and exceptions in it are ignored by the interpreter
                return None
            self._event(f"call {code.co_qualname} (line {self.top.f_lineno - self.code.co_firstlineno} of the function)")
            if code.co_name == "write" and code.co_filename.endswith("file_writer.py"):
                self.phase = "writing"
                return self._local_write
        return None

    def _local_top(self, frame, event, arg):
        if event == "line":
            self._event(f"line {frame.f_lineno - self.code.co_firstlineno} of the function")
            if self.with_lines and frame.f_lineno == self.with_lines[0]:
                self.phase = "writing"
        elif event == "return":
            self.done = True
        return self._local_top

    def _local_write(self, frame, event, arg):
        if event == "return":
            self.phase = "post"
        return self._local_write


def _place(work, prog, contents, spelling):
    """creates the state of the output path; returns (path as handed to the program, name relative to work, directory relative to work)"""
    present, backups = PATH_CONTENTS[contents]
    name = OUT_NAME[prog]
    sub = "results/run1" if spelling.startswith("sub") else ""
    directory = work / sub
    directory.mkdir(parents=True, exist_ok=True)
    if present:
        (directory / name).write_bytes(OLD)
    for idx in backups:
        (directory / f"#{name}.{idx}#").write_bytes(_backup_bytes(idx))
    handed = (directory / name) if spelling.endswith("abs") else Path(sub) / name if sub else Path(name)
    return handed, os.path.join(sub, name) if sub else name, sub


def c20_eval_deep(scn, root, seed):
    """scn: dict(prog, variant, inject=None | ("stage", index, when) | ("trace", k) | ("count",), contents, spelling)
    -> (reached, bad, key, note)   (inject ("count",): -> list of the events of an uninjected traced run)"""
    import numpy as np
    import re
    prog, variant, inject = scn["prog"], scn["variant"], scn["inject"]
    modname, stages = STAGES[prog]
    module = load(modname)
    func = getattr(module, "gen_params" if prog == "gen_params" else prog)
    writer = load("vermouth.file_writer").DeferredFileWriter
    work = Path(tempfile.mkdtemp(dir=root))
    _write_inputs(prog, variant, work)
    handed, rel_name, sub = _place(work, prog, scn["contents"], scn["spelling"])
    present, _ = PATH_CONTENTS[scn["contents"]]
    before = _snapshot(work)
    cwd = os.getcwd()
    os.chdir(work)
    random.seed(seed)
    np.random.seed(seed % (2 ** 32))
    writer().close()
    hits, undo, raised, tracer = [], [], None, None
    try:
        if inject and inject[0] == "stage":
            _, kind, where = stages[inject[1]]
            undo = _rebind(module, kind, where, inject[2], hits)
        if inject and inject[0] in ("trace", "count"):
            tracer = KthEvent(func, inject[1] if inject[0] == "trace" else None, _write_statement_lines(func) if prog == "gen_seq" else None)
            sys.settrace(tracer)
        try:
            _call_program_deep(prog, variant, work, handed)
        except Exception as exc:                     # noqa: BLE001
            raised = exc
        finally:
            sys.settrace(None)
    finally:
        for owner, attr, original in reversed(undo):
            setattr(owner, attr, original)
        writer().close()
        os.chdir(cwd)
    after = _snapshot(work)
    shutil.rmtree(work, ignore_errors=True)
    if inject and inject[0] == "count":
        if raised is not None:
            return ("error", f"{type(raised).__name__}: {raised}")
        return ("events", tracer.events)
    if inject is None:
        label, when, reached, phase = "no injection", "-", raised is None, "post"
    elif inject[0] == "stage":
        label, when, reached = stages[inject[1]][0], inject[2], bool(hits)
        phase = "post" if (stages[inject[1]][1] == "single" and when == "after") or not reached else "pre"     # never reached = an uninjected run
    else:
        reached = tracer.injected is not None
        label, phase = (tracer.injected if reached else ("never reached", "post"))
        when = "at"
    if raised is not None and not isinstance(raised, Injected):
        return reached, f"valid input failed with {type(raised).__name__}: {raised} ({label}, {when})", "c20-valid-input-failed", None
    if reached and inject is not None and raised is None:
        return reached, f"the exception injected {when} '{label}' did not end the program", "c20-injected-failure-swallowed", None
    where = f"output path {scn['contents']}, spelled {scn['spelling']}"

    def touched():
        created = sorted(set(after) - set(before))
        gone = sorted(set(before) - set(after))
        changed = sorted(k for k in set(after) & set(before) if after[k] != before[k])
        return f"created {created}, removed {gone}, modified {changed} (sizes now { {k: len(after[k]) for k in created + changed} })"

    def success_state():
        """None or why `after` is not: complete output at the path, the previous file under ONE new #name.N# in the same directory, nothing else touched"""
        if rel_name not in after:
            return f"c20-{prog}-no-output", f"the program returned but {rel_name} does not exist; {touched()}"
        bad = spec_complete_deep(prog, variant, after[rel_name])
        if bad:
            return f"c20-{prog}-incomplete-output", f"output after success is not complete: {bad}"
        rest_a = {k: v for k, v in after.items() if k != rel_name}
        rest_b = {k: v for k, v in before.items() if k != rel_name}
        if prog == "gen_seq":
            if rest_a != rest_b:
                return "c20-gen_seq-other-files-touched", f"files other than the output changed: {touched()}"
            return None
        new = sorted(set(rest_a) - set(rest_b))
        if any(rest_a.get(k) != v for k, v in rest_b.items()):
            return f"c20-{prog}-backup", f"with {where}: existing files (inputs / older backups) were removed or modified: {touched()}"
        if not present:
            if new:
                return f"c20-{prog}-backup", f"with {where}: nothing to back up, yet new files {new}"
            return None
        pattern = re.compile(re.escape(os.path.join(sub, "#" + OUT_NAME[prog] + ".")) + r"([1-9][0-9]*)#$")
        if len(new) != 1 or not pattern.match(new[0]) or rest_a[new[0]] != OLD:
            return f"c20-{prog}-backup", (f"with {where}: the previous file is not kept under exactly one new GROMACS-style name #{OUT_NAME[prog]}.N# next to the output: "
                                        f"new files {new}; listing {sorted(after)}")
        return None

    if phase == "pre":
        if after != before:
            return reached, f"failure {when} '{label}' with {where}: {touched()}", f"c20-{prog}-output-touched-before-success", None
        return reached, None, None, None
    if phase == "writing":
        # not a stage before writing (gen_seq: json.dump inside `with open(outpath, "w")`): only 'nothing else is touched' is checked
        rest_a = {k: v for k, v in after.items() if k != rel_name}
        rest_b = {k: v for k, v in before.items() if k != rel_name}
        if rest_a != rest_b:
            return False, f"failure while writing ({label}) with {where}: other files changed: {touched()}", f"c20-{prog}-other-files-touched", None
        return False, None, None, "gen_seq: failures injected after open(outpath, 'w') started are evaluated for side effects on OTHER files only (counted trivial)"
    got = success_state()
    if got is not None and raised is not None and after == before:
        got = None          # a failure after the write statement: untouched-or-complete is what the statement supports
    if got is not None:
        return reached, got[1], got[0], None
    return reached, None, None, None


def c20_worker(arg):
    root, batch = arg
    out = []
    for scn, seed in batch:
        try:
            out.append(c20_eval_deep(scn, root, seed) if isinstance(scn, dict) else c20_eval(scn, root, seed))
        except Exception as exc:                     # noqa: BLE001 -- harness trouble must be visible, not silent
            out.append((False, f"harness: {type(exc).__name__}: {exc}", "c20-harness", None))
    return out


def c20_scenarios(ctx):
    scns = []
    for prog, (_, stages) in STAGES.items():
        for variant in INPUTS[prog]:
            for state in PATH_STATES:
                scns.append((prog, variant, None, "-", state))
                for si in range(len(stages)):
                    for when in ("before", "after"):
                        scns.append((prog, variant, si, when, state))
    return scns


SLOW_VARIANTS = ("build", "meta-coordinates", "pmma-bld")      # the PMMA test topology (template generation for 7-atom residues)
ALL_PLACES = [(c, sp) for sp in PATH_SPELLINGS for c in PATH_CONTENTS]
TRACE_PLACES = [(c, "abs") for c in PATH_CONTENTS] + [(c, sp) for sp in PATH_SPELLINGS[1:] for c in ("absent", "present+1")]
STAGE_PLACES = [("present+1+2", "abs"), ("present", "sub-rel"), ("absent", "rel"), ("present+2(gap)", "sub-abs"), ("absent+1", "sub-rel"), ("present+1", "rel")]
FEW_PLACES = [("present+1", "abs"), ("absent", "sub-rel"), ("present+2(gap)", "rel"), ("present", "sub-abs")]


def c20_deep_scenarios(counts):
    """counts: {(prog, variant): number of trace events of the uninjected run}"""
    scns = []
    for prog, variants in DEEP_INPUTS.items():
        nstages = len(STAGES[prog][1])
        for variant in variants:
            slow = variant in SLOW_VARIANTS
            for contents, spelling in ALL_PLACES:
                scns.append(dict(prog=prog, variant=variant, inject=None, contents=contents, spelling=spelling))
            for contents, spelling in (FEW_PLACES if slow else STAGE_PLACES):
                for si in range(nstages):
                    for when in ("before", "after"):
                        scns.append(dict(prog=prog, variant=variant, inject=("stage", si, when), contents=contents, spelling=spelling))
            for contents, spelling in (FEW_PLACES if slow else TRACE_PLACES):
                for k in range(counts[(prog, variant)]):
                    scns.append(dict(prog=prog, variant=variant, inject=("trace", k), contents=contents, spelling=spelling))
    return scns


def _c20_cost(scn):
    """rough relative cost, for balancing the pool"""
    if not isinstance(scn, dict):
        return (2.0 if scn[0] == "gen_coords" else 0.1) * (1 + (scn[2] if scn[2] is not None else 99))
    base = 30.0 if scn["variant"] in SLOW_VARIANTS else 1.0
    inj = scn["inject"]
    frac = 1.0 if inj is None else (inj[1] + 1) / 16.0 if inj[0] == "stage" else (inj[1] + 1) / 90.0
    return base * frac


def run_c20(ctx, res):
    scns = c20_scenarios(ctx)
    # the slow ones (late gen_coords stages) first so the pool is balanced
    order = sorted(range(len(scns)), key=lambda i: (scns[i][0] != "gen_coords", -(scns[i][2] if scns[i][2] is not None else 99)))
    jobs = [(scns[i], ctx.seed + i) for i in order]
    root = tempfile.mkdtemp(dir="/var/tmp", prefix="bseq-c20-")
    deep_text, counts = "", {}
    try:
        if ctx.thorough:
            keys = [(prog, variant) for prog, variants in DEEP_INPUTS.items() for variant in variants]
            counted = _pool_run(c20_worker, [(dict(prog=p, variant=v, inject=("count",), contents="absent", spelling="abs"), ctx.seed) for p, v in keys], root, 1)
            for key, got in zip(keys, counted):
                if got[0] != "events":
                    raise RuntimeError(f"c20: the traced uninjected run of {key} did not complete: {got}")
                counts[key] = len(got[1])
            deep = c20_deep_scenarios(counts)
            deep.sort(key=lambda scn: -_c20_cost(scn))
            # round-robin over the sorted list so that every batch of 8 holds scenarios of every cost class
            nb = (len(deep) + 7) // 8
            deep = [deep[i] for b in range(nb) for i in range(b, len(deep), nb)]
            djobs = [(scn, ctx.seed + 1000 + i) for i, scn in enumerate(deep)]
            douts = _pool_run(c20_worker, djobs, root, 8)
        outs = _pool_run(c20_worker, jobs, root, 1)
        if ctx.thorough:
            jobs, outs = jobs + djobs, outs + douts
    finally:
        shutil.rmtree(root, ignore_errors=True)
    notes = set()
    reached_stages, all_stages = set(), set()
    outcomes = []
    kinds = {}
    for (scn, _), (reached, bad, key, note) in zip(jobs, outs):
        outcomes.append((scn, reached, bad, key))
        if note:
            notes.add(note)
        if isinstance(scn, dict):
            kind = "uninjected" if scn["inject"] is None else scn["inject"][0]
            kinds[kind] = kinds.get(kind, 0) + 1
            if kind == "stage":
                all_stages.add((scn["prog"], scn["inject"][1]))
                if reached:
                    reached_stages.add((scn["prog"], scn["inject"][1]))
            continue
        if scn[2] is not None:
            all_stages.add((scn[0], scn[2]))
            if reached:
                reached_stages.add((scn[0], scn[2]))
    _collect(res, "c20-outputs-after-success", outcomes, count_in_text=ctx.thorough)
    if ctx.thorough:
        per = {f"{p}/{v}": n for (p, v), n in counts.items()}
        deep_text = (f"  || THOROUGH, in addition ({sum(kinds.values())} scenarios): inputs per program { {p: list(v) for p, v in DEEP_INPUTS.items()} } "
                     "(gen_params: -seq, -seqf .txt/.json, -lib martini3 protein with/without -mods and protein termini, -dsdna from .fasta and from -seq; gen_coords: PMMA test topology from scratch / "
                     "-mc / -b template+volumes, own 3-type topology with -box, -c, -mc with -res, -b sphere restraint + -start, -dens + -grid, -lig with [ volumes ]; gen_seq: macros with connect/terminal/label, "
                     f"plain, random residue mix + random label, -from_file macro); output path = 6 contents {list(PATH_CONTENTS)} (N = existing #name.N# backups) x 4 spellings "
                     f"{list(PATH_SPELLINGS)} (sub = existing sub-directory results/run1; rel = relative to the working directory); uninjected run of every input at all 24 places = {kinds.get('uninjected', 0)}; "
                     f"the stage table x before/after x every input at {len(STAGE_PLACES)} places ({len(FEW_PLACES)} for the 3 PMMA inputs) = {kinds.get('stage', 0)}; "
                     "sys.settrace injection: the exception raised at EVERY line event of the frame of gen_params / gen_coords / gen_seq and at the entry of EVERY frame called directly by it "
                     f"(incl. generator resumptions, constructors, logger calls), events per input {per}, each at {len(TRACE_PLACES)} places ({len(FEW_PLACES)} for the PMMA inputs) = {kinds.get('trace', 0)}. "
                     "Expectation by phase: before DeferredFileWriter.write is entered (gen_seq: before the `with open(outpath, 'w')` statement starts) the whole directory tree is byte-identical; "
                     "after success: complete output (parsed; molecule name, residue / atom count of the input), previous file under exactly ONE new #name.N# next to it, older backups and inputs untouched; "
                     "an injection after the write returned: untouched or the success state")
    never = sorted(f"{p}: {STAGES[p][1][s][0]}" for p, s in all_stages - reached_stages)
    res.bound = ("EXHAUSTIVE over the stage tables: gen_params (13 entry points: force-field reading, -seq parsing, graph from -seq, sequence-file reading, "
                 "dsDNA completion, mapping, link application, modifications, missing-link check, deferred open, citations, itp serialisation, flush) on "
                 "-seq PEO:3 and on a .txt sequence file; gen_coords (16: topology reading/processing, connectivity check, coordinate loading, build files, "
                 "start nodes, equivalence check, templates, ligands, cycles, system building, ligand split, backmapping, system conversion, gro "
                 "serialisation, flush) on the 3-residue PMMA test topology built from scratch and from meta-molecule coordinates; gen_seq (6: force-field "
                 "reading, macro definition, graph generation, terminal renaming, labelling, node-link serialisation) on a two-macro sequence with connect, "
                 "terminal renaming and label; each stage x exception raised on entry / raised after the stage returned x output path absent / "
                 "present / present with an existing #name.1# backup, plus the uninjected run in each path state; whole scratch directory (listing and "
                 f"bytes) compared before vs after.  Stages never reached by these inputs (evaluated, counted trivial): {never}" + deep_text)
    res.rule = ("world = (program, input, stage, before/after, state of the output path); non-trivial iff the rebound entry point was actually "
                "called (uninjected runs: the program completed)")
    res.exhaustive = True
    if ctx.thorough:
        res.rule += ("; thorough scenarios (program, input, injection, contents and spelling of the output path): non-trivial iff the injection point was reached "
                     "before or after writing (uninjected: the program completed); injections while gen_seq has the output open are evaluated for side effects only and counted trivial")
        res.assumptions += [
            "sys.settrace injection: frames of finalizers (__del__) that the collector runs under the top-level frame are not injection points (the interpreter ignores exceptions raised in them)",
            "a GROMACS-style backup is read as: exactly one NEW file #name.N# (N >= 1) in the directory of the output holding the previous bytes; which free N is taken is not demanded",
            "a failure injected after DeferredFileWriter.write returned (gen_params logs warnings afterwards) may leave either the untouched state or the complete success state",
        ]
    res.assumptions += [
        "every scenario starts from an empty DeferredFileWriter queue (true for the command-line programs; queue carry-over belongs to C13)",
        "gen_seq: json.dump runs after open(outpath, 'w') and is counted as writing, not as a stage before writing; a failure there would leave a truncated file",
        "completeness of an output is judged by parsing it and counting atoms/bonds/residues of the chosen input, not by comparison with another run",
    ] + sorted(notes)


UNITS = [BUnit("c12-sequence-inputs", run_c12), BUnit("c19-dsdna", run_c19), BUnit("c20-outputs-after-success", run_c20)]

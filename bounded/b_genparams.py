"""Tier B for C01 / C13 / C14: executable contracts on the REAL gen_params pipeline
(load_ff_library on generated files -> MetaMolecule -> MapToMolecule -> ApplyLinks -> ApplyModifications)
over exhaustively enumerated small worlds.  Oracles are written from the property statements in
/verif/properties.jsonl (bounded stand-in; never counted as proved).

World = (force field written to files in .ff or polyply-.itp syntax, residue graph, resid offset, -mods selection).
All world descriptions are plain JSON-able data; the oracles below only read that data (never the code under test).
"""
import itertools
import json
import os
import random
import shutil
import tempfile
from collections import Counter

import networkx as nx

from vlib.realcode import load
from vlib.framework import BUnit, Violation

os.environ.setdefault("TQDM_DISABLE", "1")
NAMES = ["ALA", "GLY", "SER"]            # protein residue names, so that terminal modifications are applicable
ATOMN = ["a1", "a2", "a3"]
ATTRS = ("resid", "resname", "atomname", "atype", "charge", "mass")
NPROC = min(16, os.cpu_count() or 1)


# ------------------------------------------------------------------------------------------------------------
# world description: blocks, links, modifications (pure data)
# ------------------------------------------------------------------------------------------------------------

def single_block(name, size, nrexcl, variant, tag, atom_resname=None):
    """one single-residue block (atom_resname: residue name in its [ atoms ] section when it differs from the block name); `tag` makes atom types / parameters unique per block type.
    variant 0 'full'  : every section that fits (bonds, angles, exclusions, pairs, constraints), one tagged interaction
    variant 1 'sparse': constraint instead of bond (2 atoms) / one bond + virtual_sitesn + exclusion (3 atoms)
    variant 2 'path'  : bonds along a1-a2-a3 only
    variant 3 'pathx' : path bonds + explicit exclusion between the two ends (the pair at distance size-1)"""
    cgs = {1: [[1], [1], [1], [1]], 2: [[1, 1], [1, 2], [1, 1], [1, 2]], 3: [[1, 1, 2], [1, 2, 3], [1, 1, 1], [1, 2, 2]]}[size][variant]
    atoms = [{"atomname": ATOMN[i], "atype": f"T{tag}{i + 1}", "resid": 1, "resname": atom_resname or name, "cg": cgs[i],
              "charge": 0.25 * (i + 1) - 0.5 + 0.125 * tag, "mass": 10.0 * (i + 1) + tag} for i in range(size)]
    p = str(tag)
    inter = {}
    if variant == 0:
        if size == 2:
            inter = {"bonds": [[[0, 1], ["1", "0.3" + p, "1000"], {}]],
                     "pairs": [[[0, 1], ["1"], {}]],
                     "exclusions": [[[0, 1], [], {}]]}
        elif size == 3:
            inter = {"bonds": [[[0, 1], ["1", "0.3" + p, "1000"], {}], [[1, 2], ["1", "0.4" + p, "1100"], {"group": "G" + p}]],
                     "angles": [[[0, 1, 2], ["2", "12" + p, "50"], {}]],
                     "exclusions": [[[0, 2], [], {}]],
                     "pairs": [[[0, 2], ["1"], {}]],
                     "constraints": [[[0, 2], ["1", "0.5" + p], {}]]}
    elif variant == 1:
        if size == 2:
            inter = {"constraints": [[[0, 1], ["1", "0.2" + p], {}]]}
        elif size == 3:
            inter = {"bonds": [[[0, 1], ["1", "0.3" + p, "1000"], {}]],
                     "virtual_sitesn": [[[2, 0, 1], ["1"], {}]],
                     "exclusions": [[[1, 2], [], {}]]}
    else:
        bonds = [[[i, i + 1], ["1", f"0.3{p}{i}", "1000"], {}] for i in range(size - 1)]
        if bonds:
            inter["bonds"] = bonds
        if variant == 3 and size >= 2:
            inter["exclusions"] = [[[0, size - 1], [], {}]]
    return {"name": name, "nrexcl": nrexcl, "atoms": atoms, "inter": inter}


def multi_block(name, res_sizes, nrexcl, tag):
    """multi-residue block (from_itp style): residues R1..Rm of the given sizes, bonds along the whole chain,
    one angle over the first three atoms, one exclusion between first and last atom"""
    atoms, k = [], 0
    for r, size in enumerate(res_sizes, start=1):
        for _ in range(size):
            atoms.append({"atomname": f"m{k + 1}", "atype": f"M{tag}{k + 1}", "resid": r, "resname": f"R{r}", "cg": r,
                          "charge": 0.1 * (k + 1), "mass": 20.0 + k})
            k += 1
    p = str(tag)
    inter = {"bonds": [[[i, i + 1], ["1", f"0.2{p}{i}", "2000"], {"group": "MG"} if i == 1 else {}] for i in range(k - 1)]}
    if k >= 3:
        inter["angles"] = [[[0, 1, 2], ["2", "100", "2" + p], {}]]
        inter["exclusions"] = [[[0, k - 1], [], {}]]
    return {"name": name, "nrexcl": nrexcl, "atoms": atoms, "inter": inter, "multi": len(res_sizes)}


def ff_link(atoms, inter, resnames):
    """vermouth-syntax link between two residues.  atoms: list of [atomname, order symbol ('' '+' '>'), resname or None];
    inter: {type: [[atom positions into `atoms`], params, meta]}"""
    return {"resnames": resnames, "atoms": atoms, "inter": inter}


def termini_mods(with_interaction):
    mods = [{"name": "N-ter", "atoms": [["a1", {"atype": "QN", "charge": 1.0}]], "inter": {}},
            {"name": "C-ter", "atoms": [["a1", {"atype": "QC", "charge": -1.0}]], "inter": {}}]
    if with_interaction:
        mods[1]["atoms"].append(["a2", {}])
        mods[1]["inter"] = {"constraints": [[["a1", "a2"], ["1", "0.99"], {"group": "CT"}]]}
    return mods


def disjoint_mods(with_interaction):
    """three modifications that name DIFFERENT atoms: N-ter replaces a1, SC-cap only names a2 (and a3), C-ter only a3"""
    mods = [{"name": "N-ter", "atoms": [["a1", {"atype": "QN", "charge": 1.0}]], "inter": {}},
            {"name": "SC-cap", "atoms": [["a2", {"atype": "QS"}]], "inter": {}},
            {"name": "C-ter", "atoms": [["a3", {"charge": -1.0, "mass": 99.0}]], "inter": {}}]
    if with_interaction:
        mods[1]["atoms"].append(["a3", {}])
        mods[1]["inter"] = {"constraints": [[["a2", "a3"], ["1", "0.98"], {"group": "SC"}]]}
    return mods


# residue-graph annotations whose names collide with atom attributes (they describe the residue node, not its atoms)
ANNOT = {"charge": -1.0, "mass": 5.0, "atype": "ZZ", "atomname": "XX", "charge_group": 9}
ANNOT_VARIANTS = [{k: v} for k, v in ANNOT.items()] + [dict(ANNOT)]


# ------------------------------------------------------------------------------------------------------------
# writers (the syntax of the two input languages; nothing of the code under test is used)
# ------------------------------------------------------------------------------------------------------------

def _fnum(x):
    return repr(float(x))


def write_ff_text(items):
    out = []
    for kind, spec in items:
        if kind == "block":
            out += ["[ moleculetype ]", f"{spec['name']} {spec['nrexcl']}", "[ atoms ]"]
            for i, a in enumerate(spec["atoms"], start=1):
                out.append(f"{i} {a['atype']} {a['resid']} {a['resname']} {a['atomname']} {a['cg']} {_fnum(a['charge'])} {_fnum(a['mass'])}")
            for typ, lst in spec["inter"].items():
                out.append(f"[ {typ} ]")
                for atoms, params, meta in lst:
                    names = [spec["atoms"][i]["atomname"] for i in atoms]
                    toks = names + (["--"] if typ == "virtual_sitesn" else []) + list(params)
                    if meta:
                        toks.append(json.dumps(meta))
                    out.append(" ".join(toks))
        elif kind == "link":
            out += ["[ link ]", 'resname "%s"' % "|".join(spec["resnames"])]
            for typ, lst in spec["inter"].items():
                out.append(f"[ {typ} ]")
                for atoms, params, meta in lst:
                    toks = []
                    for i in atoms:
                        nm, order, rn = spec["atoms"][i]
                        toks.append(order + nm)
                        if rn is not None:
                            toks.append(json.dumps({"resname": rn}))
                    toks += list(params)
                    if meta:
                        toks.append(json.dumps(meta))
                    out.append(" ".join(toks))
        elif kind == "mod":
            out += ["[ modification ]", spec["name"], "[ atoms ]"]
            for nm, repl in spec["atoms"]:
                out.append(nm + " " + (json.dumps({"replace": repl}) if repl else "{ }"))
            for typ, lst in spec["inter"].items():
                out.append(f"[ {typ} ]")
                for names, params, meta in lst:
                    out.append(" ".join(list(names) + list(params) + ([json.dumps(meta)] if meta else [])))
        out.append("")
    return "\n".join(out) + "\n"


def write_itp_text(items):
    """polyply .itp syntax: blocks only; a link is a 'dangling' bond of a block that refers to atom n+1.. (next residue)"""
    out = []
    for kind, spec in items:
        assert kind == "block", "polyply .itp files define blocks (links are dangling interactions)"
        out += ["[ moleculetype ]", f"{spec['name']} {spec['nrexcl']}", "[ atoms ]"]
        for i, a in enumerate(spec["atoms"], start=1):
            out.append(f"{i} {a['atype']} {a['resid']} {a['resname']} {a['atomname']} {a['cg']} {_fnum(a['charge'])} {_fnum(a['mass'])}")
        inter = {t: list(l) for t, l in spec["inter"].items()}
        for typ, lst in spec.get("dangling", {}).items():
            inter.setdefault(typ, [])
            inter[typ] = inter[typ] + [list(x) + ["dangling"] for x in lst]
        for typ, lst in inter.items():
            out.append(f"[ {typ} ]")
            for entry in lst:
                atoms, params, meta = entry[0], entry[1], entry[2]
                nums = [str(i + 1) for i in atoms]
                if typ == "virtual_sitesn":
                    toks = [nums[0]] + list(params) + nums[1:]
                else:
                    toks = nums + list(params)
                if meta:
                    (tag,) = meta.values()
                    out += [f"#ifdef {tag}", " ".join(toks), "#endif"]
                else:
                    out.append(" ".join(toks))
        out.append("")
    return "\n".join(out) + "\n"


def meta_as_read(meta, syntax):
    """a tagged interaction is written as JSON {"group": X} in .ff and as '#ifdef X' in .itp"""
    if not meta:
        return ()
    if syntax == "ff":
        return tuple(sorted(meta.items()))
    (tag,) = meta.values()
    return (("ifdef", tag),)


def write_world_files(ffw, directory, stem):
    """ffw['files'] = [[syntax, [items]], ...] -> list of paths"""
    paths = []
    for i, (syntax, items) in enumerate(ffw["files"]):
        path = os.path.join(directory, f"{stem}_{i}.{syntax}")
        with open(path, "w") as fh:
            fh.write(write_ff_text(items) if syntax == "ff" else write_itp_text(items))
        paths.append(path)
    return paths


def ff_blocks(ffw):
    """name -> (block spec, syntax it is written in)"""
    return {spec["name"]: (spec, syntax) for syntax, items in ffw["files"] for kind, spec in items if kind == "block"}


def ff_links(ffw):
    """all links of a world in one description: list of (atoms [[name, order, resname-set or None]], inter {type: [(positions, params, meta-as-read)]})"""
    links = []
    for syntax, items in ffw["files"]:
        for kind, spec in items:
            if kind == "link":
                atoms = [[nm, order, ([rn] if rn is not None else list(spec["resnames"]))] for nm, order, rn in spec["atoms"]]
                inter = {t: [(tuple(a), tuple(p), meta_as_read(m, "ff"), None) for a, p, m in lst] for t, lst in spec["inter"].items()}
                links.append((atoms, inter))
            elif kind == "block" and spec.get("dangling"):
                n = len(spec["atoms"])
                for typ, lst in spec["dangling"].items():
                    for atoms_idx, params, meta in lst:
                        atoms = []
                        for i in atoms_idx:
                            atoms.append([spec["atoms"][i % n]["atomname"], "+" * (i // n), [spec["name"]]])
                        links.append((atoms, {typ: [(tuple(range(len(atoms))), tuple(params), meta_as_read(meta, "itp"), None)]}))
    return links


def ff_mods(ffw):
    return {spec["name"]: spec for syntax, items in ffw["files"] for kind, spec in items if kind == "mod"}


# ------------------------------------------------------------------------------------------------------------
# residue graphs
# ------------------------------------------------------------------------------------------------------------

_ATLAS = {}
PATH5 = [(5, [(0, 1), (1, 2), (2, 3), (3, 4)])]      # quick tier, multi-residue worlds only: two block copies separated by a single residue


def atlas_graphs(max_nodes):
    """every connected graph with 1..max_nodes nodes of the networkx atlas, as (n, sorted edge list), node keys 0..n-1"""
    if max_nodes not in _ATLAS:
        out = []
        for g in nx.graph_atlas_g():
            n = g.number_of_nodes()
            if 1 <= n <= max_nodes and nx.is_connected(g):
                out.append((n, sorted(tuple(sorted(e)) for e in g.edges)))
        _ATLAS[max_nodes] = out
    return _ATLAS[max_nodes]


def graph_world(n, edges, resnames, offset, from_itp=None):
    """nodes: [key, resname, resid, from_itp-or-None] in insertion order; resid = key + offset (contiguous)"""
    from_itp = from_itp or {}
    return {"nodes": [[k, resnames[k], k + offset, from_itp.get(k)] for k in range(n)], "edges": [list(e) for e in edges]}


def has_branch_or_cycle(gw):
    deg = Counter()
    for u, v in gw["edges"]:
        deg[u] += 1
        deg[v] += 1
    return len(gw["edges"]) >= len(gw["nodes"]) or any(d > 2 for d in deg.values())


# ------------------------------------------------------------------------------------------------------------
# driving the real pipeline (exactly the calls of gen_params, on files)
# ------------------------------------------------------------------------------------------------------------

class Stage:
    def __init__(self):
        self.snap = None
        self.error = None


def snapshot(meta):
    mol = meta.molecule
    order = sorted(mol.nodes)                       # the itp writer emits atoms in sorted node order
    pos = {k: i for i, k in enumerate(order)}
    atoms = []
    for k in order:
        d = mol.nodes[k]
        atoms.append({a: d.get(a) for a in ATTRS + ("charge_group",)})
    inter = []
    dangling = []
    for typ, lst in mol.interactions.items():
        for it in lst:
            if any(a not in pos for a in it.atoms):
                dangling.append((typ, tuple(map(str, it.atoms))))
                continue
            inter.append((typ, tuple(pos[a] for a in it.atoms), tuple(it.parameters), tuple(sorted(it.meta.items()))))
    graphs = {}
    for n in meta.nodes:
        g = meta.nodes[n].get("graph")
        graphs[meta.nodes[n].get("resid")] = None if g is None else sorted(pos.get(a, -1) for a in g.nodes)
    bond_edges = sorted(tuple(sorted((pos[u], pos[v]))) for u, v in mol.edges)
    return {"atoms": atoms, "inter": inter, "dangling": dangling, "graphs": graphs, "nrexcl": mol.nrexcl, "edges": bond_edges,
            "node_keys_are_positions": order == list(range(len(order)))}


def quiet_load(modname):
    """polyply prints a numba notice to stdout on first import"""
    import contextlib
    import io
    with contextlib.redirect_stdout(io.StringIO()):
        return load(modname)


def _where(exc):
    """function in which the exception was raised (used to tell classes of crashes apart, never to excuse one)"""
    tb = exc.__traceback__
    while tb.tb_next is not None:
        tb = tb.tb_next
    return tb.tb_frame.f_code.co_name


def run_pipeline(paths, gw, modsel=None, name="test"):
    """returns (stage after ApplyLinks, stage after ApplyModifications)"""
    from pathlib import Path
    ll = quiet_load("polyply.src.load_library")
    mm = load("polyply.src.meta_molecule")
    m2m = load("polyply.src.map_to_molecule")
    al = load("polyply.src.apply_links")
    am = load("polyply.src.apply_modifications")
    s2, s3 = Stage(), Stage()
    try:
        ff = ll.load_ff_library(name, None, [Path(p) for p in paths])
        g = nx.Graph()
        for key, resname, resid, fi in gw["nodes"]:
            attrs = {"resname": resname, "resid": resid}
            if fi:
                attrs["from_itp"] = fi
            attrs.update(dict(gw.get("attrs", [])).get(key, {}))      # annotations of the residue node
            g.add_node(key, **attrs)
        g.add_edges_from([tuple(e) for e in gw["edges"]])
        meta = mm.MetaMolecule(g, force_field=ff, mol_name=name)
        meta = m2m.MapToMolecule(ff).run_molecule(meta)
        meta = al.ApplyLinks().run_molecule(meta)
        s2.snap = snapshot(meta)
    except Exception as e:                       # noqa: BLE001
        s2.error = f"{type(e).__name__}: {e} @{_where(e)}"
        s3.error = s2.error
        return s2, s3
    try:
        meta = am.ApplyModifications(modifications=[list(m) for m in (modsel or [])], meta_molecule=meta).run_molecule(meta)
        s3.snap = snapshot(meta)
    except Exception as e:                       # noqa: BLE001
        s3.error = f"{type(e).__name__}: {e} @{_where(e)}"
    return s2, s3


# ------------------------------------------------------------------------------------------------------------
# C01 oracle (from the statement)
# ------------------------------------------------------------------------------------------------------------

def expected_layout(ffw, gw):
    """the molecule the statement prescribes: residues in residue-id order, each a verbatim re-indexed copy of its block.
    returns (atoms, interactions Counter, instances [(first position, block spec)], resid -> positions)"""
    blocks = ff_blocks(ffw)
    nodes = sorted(gw["nodes"], key=lambda x: x[2])
    atoms, inter, instances, res_pos = [], Counter(), [], {}
    i = 0
    while i < len(nodes):
        key, resname, resid, fi = nodes[i]
        spec, syntax = blocks[fi if fi else resname]
        nres = spec.get("multi", 1) if fi else 1
        off = len(atoms)
        instances.append((off, spec))
        for a in spec["atoms"]:
            r = resid + a["resid"] - 1
            res_pos.setdefault(r, []).append(len(atoms))
            atoms.append({"resid": r, "resname": a["resname"], "atomname": a["atomname"], "atype": a["atype"],
                          "charge": float(a["charge"]), "mass": float(a["mass"]), "_cg": a["cg"], "_inst": len(instances) - 1})
        for typ, lst in spec["inter"].items():
            for at, params, meta in lst:
                inter[(typ, tuple(off + x for x in at), tuple(params), meta_as_read(meta, syntax))] += 1
        i += nres
    return atoms, inter, instances, res_pos


def link_instances(ffw, gw, exp_atoms, res_pos):
    """interactions an applicable link may add: for every residue-graph edge and every link whose residue names, order
    relation and atom names fit, the link interaction on the named atoms of these two residues"""
    resid_of = {k: r for k, _, r, _ in gw["nodes"]}
    out = set()
    for atoms, inter in ff_links(ffw):
        if any(order == "**" for _, order, _ in atoms):
            continue                                   # three-residue links: see star_link_instances
        for u, v in [tuple(e) for e in gw["edges"]] + [tuple(reversed(e)) for e in gw["edges"]]:
            ru, rv = resid_of[u], resid_of[v]
            place = []
            for nm, order, rns in atoms:
                if order == "":
                    r = ru
                elif order == "*":
                    r = rv                             # any other residue joined by a residue-graph edge, in BOTH orientations
                elif order == "+":
                    r = rv if rv == ru + 1 else None
                elif order == ">":
                    r = rv if rv > ru else None
                else:
                    raise ValueError(order)
                hit = [p for p in res_pos.get(r, []) if exp_atoms[p]["atomname"] == nm and exp_atoms[p]["resname"] in rns] if r is not None else []
                place.append(hit[0] if len(hit) == 1 else None)
            if any(p is None for p in place):
                continue
            for typ, lst in inter.items():
                for at, params, meta, _ in lst:
                    out.add((typ, tuple(place[x] for x in at), params))
    return out


def star_link_instances(ffw, gw, exp_atoms, res_pos):
    """instances that links with '*' / '**' orders prescribe (C02: a link is applied exactly where its definition matches):
    two-residue links on both orientations of every residue-graph edge; three-residue links (orders '', '*', '**' along a path
    of the link) on every path u - v - w of three distinct residues whose ends are not adjacent, in both directions"""
    resid_of = {k: r for k, _, r, _ in gw["nodes"]}
    adj = {k: set() for k in resid_of}
    for u, v in gw["edges"]:
        adj[u].add(v)
        adj[v].add(u)
    out = set()

    def place_atoms(atoms, where):
        place = []
        for nm, order, rns in atoms:
            r = resid_of[where[order]]
            hit = [p for p in res_pos.get(r, []) if exp_atoms[p]["atomname"] == nm and exp_atoms[p]["resname"] in rns]
            place.append(hit[0] if len(hit) == 1 else None)
        return None if any(p is None for p in place) else place

    for atoms, inter in ff_links(ffw):
        orders = {order for _, order, _ in atoms}
        if "*" not in orders or not orders <= {"", "*", "**"}:
            continue
        wheres = []
        if "**" not in orders:
            wheres = [{"": u, "*": v} for u in adj for v in adj[u]]
        else:
            # which link residue is the middle one follows from the link's own bonded atoms (consecutive atoms of its interactions)
            link_edges = set()
            for typ, lst in inter.items():
                for at, params, meta, _ in lst:
                    link_edges |= {frozenset((atoms[a][1], atoms[b][1])) for a, b in zip(at[:-1], at[1:]) if atoms[a][1] != atoms[b][1]}
            mids = [m for m in ("", "*", "**") if all(frozenset((m, o)) in link_edges for o in ("", "*", "**") if o != m)]
            if len(mids) != 1 or len(link_edges) != 2:
                continue
            ends = [o for o in ("", "*", "**") if o != mids[0]]
            for v in adj:
                for u in adj[v]:
                    for w in adj[v]:
                        if u != w and w not in adj[u]:
                            wheres.append({mids[0]: v, ends[0]: u, ends[1]: w})
        for where in wheres:
            place = place_atoms(atoms, where)
            if place is None:
                continue
            for typ, lst in inter.items():
                for at, params, meta, _ in lst:
                    out.add((typ, tuple(place[x] for x in at), params))
    return out


def mod_targets(ffw, gw, modsel):
    """[(target resid, modification spec)]: explicit -mods selections name the residue id; without a selection the
    terminal modifications N-ter / C-ter address the first / last residue"""
    mods = ff_mods(ffw)
    if not mods:
        return []
    resids = sorted(r for _, _, r, _ in gw["nodes"])
    if modsel:
        out = []
        for spec, modname in modsel:
            digits = "".join(ch for ch in spec if ch.isdigit())
            out.append((int(digits), mods[modname]))
        return out
    return [(resids[0], mods["N-ter"]), (resids[-1], mods["C-ter"])]


def check_c01(ffw, gw, snap, modsel=None, after_mods=False):
    """returns (finding_key, text) of the first clause of the statement that fails, or None"""
    exp_atoms, exp_inter, instances, res_pos = expected_layout(ffw, gw)
    got = snap["atoms"]
    if len(got) != len(exp_atoms):
        return "c01-atom-count", f"molecule has {len(got)} atoms, the blocks of the residues have {len(exp_atoms)}: resids {[a['resid'] for a in got]}"
    allowed_attr = {}
    allowed_inter = set()
    if after_mods:
        for resid, mod in mod_targets(ffw, gw, modsel):
            named = {}
            for nm, repl in mod["atoms"]:
                for p in res_pos.get(resid, []):
                    if exp_atoms[p]["atomname"] == nm:
                        named[nm] = p
                        for k, v in repl.items():
                            allowed_attr.setdefault((p, k), []).append(v)
            for typ, lst in mod["inter"].items():
                for names, params, meta in lst:
                    if all(n in named for n in names):
                        allowed_inter.add((typ, tuple(named[n] for n in names), tuple(params)))
    for p, (g, e) in enumerate(zip(got, exp_atoms)):
        for a in ATTRS:
            if g[a] != e[a] and g[a] not in allowed_attr.get((p, a), []):
                what = "c01-resid" if a == "resid" else "c01-atom-attr"
                return what, (f"atom {p + 1}: {a} = {g[a]!r}, block copy prescribes {e[a]!r} "
                              f"(residue {e['resid']} {e['resname']} atom {e['atomname']}); resids in molecule {[x['resid'] for x in got]}")
    # charge groups: shifted by one constant per block instance, instances do not share groups
    seen = {}
    for idx, (off, spec) in enumerate(instances):
        shifts = {got[off + j]["charge_group"] - spec["atoms"][j]["cg"] for j in range(len(spec["atoms"]))}
        if len(shifts) != 1:
            return "c01-charge-group", f"charge groups of block instance {idx} ({spec['name']}) are not a shifted copy: {[got[off + j]['charge_group'] for j in range(len(spec['atoms']))]}"
        for j in range(len(spec["atoms"])):
            cg = got[off + j]["charge_group"]
            if seen.setdefault(cg, idx) != idx:
                return "c01-charge-group", f"charge group {cg} is shared by block instances {seen[cg]} and {idx}"
    if snap["dangling"]:
        return "c01-dangling-interaction", f"interaction on atoms that are not in the molecule: {snap['dangling'][:3]}"
    got_inter = Counter(snap["inter"])
    links_ok = link_instances(ffw, gw, exp_atoms, res_pos)
    for key, cnt in exp_inter.items():
        if got_inter.get(key, 0) < cnt:
            # a link / modification that targets exactly these atoms may have replaced it
            if (key[0], key[1], key[2]) in links_ok or (key[0], key[1]) in {(t, a) for t, a, _ in links_ok | allowed_inter}:
                continue
            return "c01-block-interaction-lost", f"block interaction {key} expected {cnt}x, found {got_inter.get(key, 0)}x"
    extras = got_inter - exp_inter
    for key, cnt in extras.items():
        typ, at, params, meta = key
        if (typ, at, params) in links_ok or (typ, at, params) in allowed_inter:
            continue
        return "c01-extra-interaction", f"interaction {key} ({cnt}x more than the blocks define) is not targeted by an applicable link or modification"
    if not after_mods:
        for resid, plist in res_pos.items():
            if snap["graphs"].get(resid) != plist:
                return "c01-residue-graph-attr", (f"residue {resid}: the residue node is mapped to atoms {snap['graphs'].get(resid)}, its atoms in the molecule are {plist}")
    return None


# ------------------------------------------------------------------------------------------------------------
# C01 unit
# ------------------------------------------------------------------------------------------------------------

SIZE_SETS = {1: [(1,), (2,), (3,)],
             2: [(1, 1), (1, 2), (1, 3), (2, 2), (2, 3), (3, 3)],
             3: [(1, 1, 1), (1, 1, 2), (1, 1, 3), (1, 2, 2), (1, 2, 3), (1, 3, 3), (2, 2, 2), (2, 2, 3), (2, 3, 3), (3, 3, 3)]}


def c01_force_fields(thorough):
    """list of force-field worlds: {'id', 'files': [[syntax, items]], 'kind'}"""
    out = []
    idx = 0
    for k in (1, 2, 3):
        for sizes in SIZE_SETS[k]:
            for vshift in ((0, 1) if thorough else (idx % 2,)):
                for syntax in ("ff", "itp"):
                    for link in (0, 1):
                        nrexcl = 1 + (idx % 3)
                        blocks = [single_block(NAMES[i], s, nrexcl, (i + vshift) % 2, i + 1) for i, s in enumerate(sizes)]
                        items = [["block", b] for b in blocks]
                        if link and syntax == "ff":
                            # bond from the first atom of a residue to the first atom of the next one (any residue names)
                            order = "+" if idx % 2 == 0 else ">"
                            items.append(["link", ff_link([["a1", "", None], ["a1", order, None]],
                                                          {"bonds": [[[0, 1], ["1", "0.47", "1250"], {}]]}, NAMES[:k])])
                        if link and syntax == "itp":
                            # dangling bond: last atom of the first block type -> first atom of the next residue of that type
                            n = len(blocks[0]["atoms"])
                            blocks[0]["dangling"] = {"bonds": [[[n - 1, n], ["1", "0.47", "1250"], {}]]}
                        out.append({"id": f"s{idx}v{vshift}{syntax}{link}", "kind": "single", "names": NAMES[:k], "files": [[syntax, items]],
                                    "sizes": list(sizes), "link": link})
            idx += 1
    # terminal modifications (only the .ff language defines them)
    for k in (1, 2):
        for sizes in SIZE_SETS[k]:
            with_inter = min(sizes) >= 2
            blocks = [single_block(NAMES[i], s, 1, i % 2, i + 1) for i, s in enumerate(sizes)]
            items = [["block", b] for b in blocks] + [["mod", m] for m in termini_mods(with_inter)]
            items.append(["link", ff_link([["a1", "", None], ["a1", ">", None]], {"bonds": [[[0, 1], ["1", "0.47", "1250"], {}]]}, NAMES[:k])])
            out.append({"id": f"m{idx}", "kind": "mods", "names": NAMES[:k], "files": [["ff", items]], "sizes": list(sizes), "link": 1})
            idx += 1
    # three modifications naming different atoms; -mods with two and three entries
    for sizes in [(3,), (2, 3), (1, 3), (3, 3)] + ([(2,), (2, 2), (1, 2)] if thorough else []):
        blocks = [single_block(NAMES[i], s, 1, i % 2, i + 1) for i, s in enumerate(sizes)]
        items = [["block", b] for b in blocks] + [["mod", m] for m in disjoint_mods(min(sizes) >= 3)]
        items.append(["link", ff_link([["a1", "", None], ["a1", ">", None]], {"bonds": [[[0, 1], ["1", "0.47", "1250"], {}]]}, NAMES[:len(sizes)])])
        out.append({"id": f"d{idx}", "kind": "mods2", "names": NAMES[:len(sizes)], "files": [["ff", items]], "sizes": list(sizes), "link": 1})
        idx += 1
    # block name differs from the residue name in its [ atoms ] section (block PMMA made of MMA atoms)
    for sizes, syntax in [((3,), "ff"), ((2, 3), "ff"), ((2, 3), "itp"), ((3, 1), "itp")]:
        bnames = ["PMMA", "PS"][:len(sizes)]
        anames = ["MMA", "STY"]
        blocks = [single_block(bnames[i], s, 1, i % 2, i + 1, atom_resname=anames[i]) for i, s in enumerate(sizes)]
        files = [[syntax, [["block", b] for b in blocks]],
                 ["ff", [["link", ff_link([["a1", "", None], ["a1", ">", None]], {"bonds": [[[0, 1], ["1", "0.47", "1250"], {}]]}, bnames + anames[:len(sizes)])]]]]
        out.append({"id": f"n{idx}", "kind": "single", "names": bnames, "files": files, "sizes": list(sizes), "link": 1})
        idx += 1
    # residue nodes annotated with attributes named like atom attributes, on every subset of the residues
    for sizes, syntax in [((2, 3), "ff"), ((3, 1), "itp")]:
        blocks = [single_block(NAMES[i], s, 1, i % 2, i + 1) for i, s in enumerate(sizes)]
        files = [[syntax, [["block", b] for b in blocks]],
                 ["ff", [["link", ff_link([["a1", "", None], ["a1", ">", None]], {"bonds": [[[0, 1], ["1", "0.47", "1250"], {}]]}, NAMES[:2])]]]]
        out.append({"id": f"a{idx}", "kind": "single", "names": NAMES[:2], "files": files, "sizes": list(sizes), "link": 1, "annot": True})
        idx += 1
    mb, sb = multi_block("MIX", (2, 1), 1, 7), single_block(NAMES[0], 2, 1, 0, 1)
    out.append({"id": f"a{idx}", "kind": "multi", "names": NAMES[:1], "files": [["itp", [["block", sb], ["block", mb]]]], "sizes": [2, 2, 1],
                "link": 0, "multi": "MIX", "nres": 2, "annot": True})
    idx += 1
    # multi-residue (from_itp style) block + single blocks; the link lives in a second (.ff) file
    multis = [((2, 1), 1), ((1, 2), 2)] + ([((1, 2, 1), 1), ((2, 2), 1)] if thorough else [])
    for res_sizes, ssize in multis:
        for with_link in (0, 1):
            mb = multi_block("MIX", res_sizes, 1, 7)
            sb = single_block(NAMES[0], ssize, 1, 0, 1)
            files = [["itp", [["block", sb], ["block", mb]]]]
            if with_link:
                files.append(["ff", [["link", ff_link([["m%d" % sum(res_sizes), "", None], ["a1", ">", None]],
                                                       {"bonds": [[[0, 1], ["1", "0.48", "1300"], {}]]}, [NAMES[0], "R%d" % len(res_sizes)])]]])
            out.append({"id": f"x{idx}", "kind": "multi", "names": NAMES[:1], "files": files, "sizes": [ssize] + list(res_sizes),
                        "link": with_link, "multi": "MIX", "nres": len(res_sizes)})
            idx += 1
    return out


def multi_placements(n, edges, nres, max_copies=2):
    """all ways to put 1..max_copies copies of an nres-residue block on runs of nodes key..key+nres-1 that are joined by
    residue-graph edges (consecutive residue ids along edges); copies do not overlap"""
    es = {tuple(sorted(e)) for e in edges}
    runs = [tuple(range(s, s + nres)) for s in range(0, n - nres + 1)
            if all((s + j, s + j + 1) in es for j in range(nres - 1))]
    out = []
    for c in range(1, max_copies + 1):
        for combo in itertools.combinations(runs, c):
            flat = [x for r in combo for x in r]
            if len(set(flat)) == len(flat):
                out.append(combo)
    return out


def c01_graph_worlds(ffw, n, edges, offsets, cap, rng):
    """yields (graph world, from_itp placement or None)"""
    if ffw["kind"] == "mods2" and n >= 4 and not (len(edges) == n - 1 and (n == 4 or max(Counter(x for e in edges for x in e).values()) <= 2)):
        return              # many -mods selections: all graphs up to 3 residues, the trees on 4 (path, star), the path on 5
    for gw, placement in _plain_graph_worlds(ffw, n, edges, offsets, cap, rng):
        if not ffw.get("annot"):
            yield gw, placement
            continue
        if n >= 4 and gw["nodes"][0][2] == 1:
            continue        # annotated 4-residue graphs: offset 7 only
        keys = list(range(n))
        subsets = [c for r in range(1, n + 1) for c in itertools.combinations(keys, r)] if n <= 3 else [(k,) for k in keys] + [tuple(keys)]
        variants = ANNOT_VARIANTS if n <= 3 else [ANNOT_VARIANTS[0], ANNOT_VARIANTS[-1]]
        for sub in subsets:
            for var in variants:
                yield dict(gw, attrs=[[k, var] for k in sub]), placement


def _plain_graph_worlds(ffw, n, edges, offsets, cap, rng):
    names = ffw["names"]
    if ffw["kind"] == "multi":
        for placement in multi_placements(n, edges, ffw["nres"]):
            fi = {}
            rn = {}
            for run in placement:
                for j, k in enumerate(run):
                    fi[k] = ffw["multi"]
                    rn[k] = f"R{j + 1}"
            resn = [rn.get(k, names[0]) for k in range(n)]
            for off in offsets:
                yield graph_world(n, edges, resn, off, fi), placement
        return
    assigns = list(itertools.product(names, repeat=n))
    if ffw.get("need_all_names"):
        assigns = [a for a in assigns if len(set(a)) == len(names)]
    if cap and len(assigns) > cap:
        assigns = rng.sample(assigns, cap)
    for resn in assigns:
        for off in offsets:
            yield graph_world(n, edges, list(resn), off), None


def c01_modsels(ffw, gw, rng, thorough=False):
    """-mods selections: none (default termini); for force fields with modifications explicit single selections; for the
    force fields with three disjoint modifications every ordered pair / triple of (residue, modification) selections"""
    sels = [None]
    if ffw["kind"] == "mods2":
        nodes = sorted(gw["nodes"], key=lambda x: x[2])
        opts = [[f"{rn}{rid}", m] for _, rn, rid, _ in nodes for m in ("N-ter", "SC-cap", "C-ter")]
        n = len(nodes)
        pairs = list(itertools.permutations(opts, 2))
        triples = list(itertools.permutations(opts, 3))
        if n >= 4:
            pairs = rng.sample(pairs, 48 if thorough else 24)
        if n >= 3:
            triples = rng.sample(triples, {3: 64, 4: 32}.get(n, 16) if thorough else {3: 16, 4: 8}.get(n, 4))
        sels += [list(x) for x in pairs] + [list(x) for x in triples]
    if ffw["kind"] == "mods":
        nodes = sorted(gw["nodes"], key=lambda x: x[2])
        first, last = nodes[0], nodes[-1]
        sels.append([[f"{first[1]}{first[2]}", "N-ter"]])
        sels.append([[f"{last[1]}{last[2]}", "C-ter"]])
        if len(nodes) >= 3:
            mid = nodes[1]
            sels.append([[f"{mid[1]}{mid[2]}", "N-ter"]])
    return sels


def classify_crash(stage, err, ffw, gw):
    """finding keys for crashes; the known classes (see DESIGN section 7) get their own key"""
    off = min(r for _, _, r, _ in gw["nodes"])
    if stage == 3 and err.startswith("KeyError") and off != 1:
        return "F13-mods-resid-offset-keyerror"
    if stage == 3:
        return "c01-crash-modifications"
    return "c01-crash-" + err.split(":")[0]


def c01_worker(args):
    os.environ["TQDM_DISABLE"] = "1"
    ffw, paths, graphs, offsets, cap, seed, thorough = args
    rng = random.Random(seed)
    n_eval = n_nt = n_modapplied = 0
    found = {}
    counts = Counter()
    sample = None
    for n, edges in graphs:
        for gw, placement in c01_graph_worlds(ffw, n, edges, offsets, cap, rng):
            for modsel in c01_modsels(ffw, gw, rng, thorough):
                n_eval += 1
                blocks = ff_blocks(ffw)
                used_sizes = {len(blocks[fi or rn][0]["atoms"]) for _, rn, _, fi in gw["nodes"]}
                nontrivial = (len(used_sizes) >= 2 or placement is not None or has_branch_or_cycle(gw) or bool(gw.get("attrs"))
                              or len(modsel or []) >= 2 or any(blocks[fi or rn][0]["atoms"][0]["resname"] != (fi or rn) and not fi for _, rn, _, fi in gw["nodes"]))
                n_nt += int(nontrivial)
                s2, s3 = run_pipeline(paths, gw, modsel)
                bad = []
                if s2.error:
                    bad.append((classify_crash(2, s2.error, ffw, gw), "pipeline raised before modifications: " + s2.error))
                else:
                    r = check_c01(ffw, gw, s2.snap)
                    if r:
                        bad.append(r)
                    if s3.error:
                        bad.append((classify_crash(3, s3.error, ffw, gw), "ApplyModifications raised: " + s3.error))
                    else:
                        r = check_c01(ffw, gw, s3.snap, modsel, after_mods=True)
                        if r:
                            bad.append((r[0] + "-after-mods", r[1]))
                        if s3.snap["atoms"] != s2.snap["atoms"] or s3.snap["inter"] != s2.snap["inter"]:
                            n_modapplied += 1
                if placement is not None and min(r for _, _, r, _ in gw["nodes"]) != 1 and bad and placement[0][0] == 0:
                    # the first residue of the molecule stems from a multi-residue block and the residue ids do not start at 1
                    bad = [("F14-multires-first-resid-offset" if k in ("c01-resid", "c01-residue-graph-attr", "c01-crash-IndexError", "c01-resid-after-mods") else k, t)
                           for k, t in bad]
                if placement is not None and len(gw["edges"]) >= len(gw["nodes"]):
                    # residue graph with a cycle: the residues of a block copy may be joined by an edge that is not a DFS tree edge
                    bad = [("F15-multires-fragment-not-on-dfs-tree" if k == "c01-crash-OSError" and "mismatch in the length" in t else k, t)
                           for k, t in bad]
                for key, text in bad:
                    counts[key] += 1
                    if key not in found:
                        found[key] = (text, {"force_field": ffw["id"], "files": [open(p).read() for p in paths], "graph": gw, "mods": modsel})
                if sample is None and nontrivial and not bad and n >= 3:
                    sample = {"force_field": ffw["id"], "sizes": ffw["sizes"], "syntax": [f[0] for f in ffw["files"]], "graph": gw,
                              "mods": modsel, "atoms": len(s2.snap["atoms"]), "interactions": len(s2.snap["inter"])}
    return n_eval, n_nt, n_modapplied, found, counts, sample


def _merge_findings(unit, res, outs, maxv=int(os.environ.get("B_GENPARAMS_MAXV", "25"))):
    found, counts = {}, Counter()
    for o in outs:
        f, c = o[-3], o[-2]
        counts.update(c)
        for k, v in f.items():
            found.setdefault(k, v)
    # classes without a finding id first, so that something new is never cut off by the known ones
    for key in sorted(found, key=lambda k: (k[0] == "F" and k[1:3].isdigit(), k)):
        text, inputs = found[key]
        if len(res.violations) < maxv:
            res.violations.append(Violation(unit, f"[{counts[key]} worlds] {text}", inputs=inputs, detail=text, replayed=True, finding_key=key))
    return counts


def run_c01(ctx, res):
    import multiprocessing as mp
    max_nodes = 5 if ctx.thorough else 4
    cap = 81 if ctx.thorough else None
    offsets = (1, 7)
    graphs = atlas_graphs(max_nodes)
    ffs = c01_force_fields(ctx.thorough)
    scratch = tempfile.mkdtemp(prefix="c01.", dir="/var/tmp")
    try:
        jobs = []
        for i, ffw in enumerate(ffs):
            paths = write_world_files(ffw, scratch, ffw["id"])
            # one job per (force field, group of graphs): balance the load
            gl = graphs + (PATH5 if ffw["kind"] == "multi" and not ctx.thorough else [])
            for j in range(0, len(gl), 3):
                jobs.append((ffw, paths, gl[j:j + 3], offsets, cap, ctx.seed * 100003 + i * 101 + j, ctx.thorough))
        with mp.Pool(NPROC) as pool:
            outs = pool.map(c01_worker, jobs, chunksize=1)
    finally:
        shutil.rmtree(scratch, ignore_errors=True)
    modapplied = 0
    for n_eval, n_nt, n_mod, found, counts, sample in outs:
        res.evaluations += n_eval
        res.nontrivial += n_nt
        modapplied += n_mod
        if sample and len(res.samples) < 3:
            res.samples.append(sample)
    counts = _merge_findings("c01-block-copies", res, outs)
    res.exhaustive = cap is None
    res.bound = (f"{len(ffs)} force fields written to files: every multiset of 1-3 single-residue block types with 1-3 atoms "
                 "(sections bonds/angles/exclusions/pairs/constraints/virtual_sitesn, tagged interactions; two section layouts "
                 f"{'both' if ctx.thorough else 'alternating'}) x syntax {{.ff, polyply .itp}} x {{no link, one bond link ('+' / '>' order; dangling bond in .itp)}}; "
                 "force fields with N-ter/C-ter modifications (-mods: default termini, first, last, middle residue); force fields with three modifications naming "
                 "different atoms (N-ter replaces a1, SC-cap names a2(+a3), C-ter a3): -mods = every ordered pair of (residue, modification) selections for <= 3 residues, "
                 f"{'48' if ctx.thorough else '24'} seeded pairs beyond, every ordered triple for <= 2 residues and seeded triples beyond, on all graphs <= 3 residues + path/star on 4"
                 f"{' + path on 5' if ctx.thorough else ''}; blocks whose name differs from the resname of their atoms (PMMA/MMA, PS/STY; .ff and .itp); residue graphs whose nodes "
                 "carry annotations named like atom attributes (charge, mass, atype, atomname, charge_group; one at a time and all five) on every non-empty subset of <= 3 residues "
                 "(4 residues: each single residue and all; charge / all five; offset 7), also on a multi-residue world; multi-residue from_itp blocks "
                 f"({'(2,1),(1,2),(1,2,1),(2,2)' if ctx.thorough else '(2,1),(1,2)'} atoms per residue, 1-2 copies, every placement along residue-graph edges{'' if ctx.thorough else '; these worlds also on the 5-residue path'}) with a link in a second file.  "
                 f"Residue graphs: all {len(graphs)} connected graphs on <= {max_nodes} nodes (networkx atlas), node keys 0..n-1, resid = key + offset, offsets {{1,7}}, "
                 f"every resname assignment over the block names{' (capped at 81 seeded assignments per graph and force field: NOT exhaustive for 5 nodes x 3 names)' if cap else ''}.  "
                 f"Each world: MapToMolecule -> ApplyLinks -> ApplyModifications on the real code, contract checked after links and after modifications "
                 f"({modapplied} worlds in which a modification changed the molecule).")
    res.rule = ("world = (force field files, residue graph, resnames, resid offset, -mods); non-trivial iff the residues use >= 2 different block sizes "
                "or a multi-residue block or the residue graph has a branch or a cycle or annotated residue nodes or a block named differently from its atoms' resname "
                "or >= 2 -mods entries")
    res.assumptions.append("charge groups inside a block are non-decreasing in atom order (as in every library block); 'shifted' is read as: one constant "
                           "per block instance and no group shared between instances")
    res.assumptions.append("violations are counted per finding_key; the text gives the number of worlds per class: " + json.dumps(dict(counts)))


# ------------------------------------------------------------------------------------------------------------
# C14: exclusions
# ------------------------------------------------------------------------------------------------------------

def c14_force_fields(thorough):
    """2 (thorough 3) block types, every combination of prescribed exclusion distances, link bonds between every pair of types
    (last atom of the residue with the smaller id -> first atom of the other), optionally explicit block / link exclusions"""
    out = []
    excls = (0, 1, 2, 3, 4) if thorough else (1, 2, 3)
    k = 3 if thorough else 2
    size_sets = [(3, 2), (1, 3), (2, 2), (3, 3)] if not thorough else [(3, 2, 1), (2, 3, 3)]
    families = [(sizes, combo, explicit, syntax, False) for sizes in size_sets for combo in itertools.product(excls, repeat=k)
                for explicit in (0, 1) for syntax in ("ff", "itp")]
    if not thorough:
        # nrexcl 0 against 0..3 in both orders
        zero = [(0, 0)] + [(0, x) for x in (1, 2, 3)] + [(x, 0) for x in (1, 2, 3)]
        families += [(sizes, combo, explicit, syntax, False) for sizes in [(3, 2), (1, 3)] for combo in zero
                     for explicit in (0, 1) for syntax in ("ff", "itp")]
        # three DISTINCT exclusion distances in one molecule: three block types, every residue order (all assignments that use all
        # three types on every chain, star, ring ... of 3-4 residues)
        families += [((2, 2, 2), combo, explicit, syntax, True) for combo in [(1, 2, 3), (0, 1, 2)]
                     for explicit, syntax in [(0, "ff"), (1, "ff"), (0, "itp")]]
        families += [((3, 1, 2), combo, 0, "ff", True) for base in [(1, 2, 3), (0, 1, 2)] for combo in itertools.permutations(base)]
    for idx, (sizes, combo, explicit, syntax, need_all) in enumerate(families):
        k = len(sizes)
        variant = 3 if explicit else 2
        blocks = [single_block(NAMES[i], s, combo[i], variant, i + 1) for i, s in enumerate(sizes)]
        links = []
        for i, j in itertools.product(range(k), repeat=2):
            inter = {"bonds": [[[0, 1], ["1", "0.47", "1250"], {}]]}
            atoms = [[ATOMN[sizes[i] - 1], "", NAMES[i]], ["a1", ">", NAMES[j]]]
            if explicit and sizes[j] >= 2:
                # the link also excludes explicitly: last atom of the first residue - second atom of the next one
                atoms.append(["a2", ">", NAMES[j]])
                inter["exclusions"] = [[[0, 2], [], {}]]
            links.append(["link", ff_link(atoms, inter, sorted({NAMES[i], NAMES[j]}))])
        if syntax == "ff":
            files = [["ff", [["block", b] for b in blocks] + links]]
        else:
            files = [["itp", [["block", b] for b in blocks]], ["ff", links]]
        out.append({"id": f"e{idx}", "kind": "excl", "names": NAMES[:k], "files": files, "sizes": list(sizes),
                    "nrexcl": list(combo), "explicit": explicit, "need_all_names": need_all})
    return out


def check_c14(ffw, gw, snap):
    """effective exclusion set of the output == the set the statement prescribes"""
    exp_atoms, exp_inter, instances, res_pos = expected_layout(ffw, gw)
    blocks = ff_blocks(ffw)
    if len(snap["atoms"]) != len(exp_atoms):
        return "c14-atom-count", f"{len(snap['atoms'])} atoms, expected {len(exp_atoms)}"
    n = len(exp_atoms)
    # bond graph: bonds and constraints of the block copies plus the bonds made by links, as the statement counts them
    links_ok = link_instances(ffw, gw, exp_atoms, res_pos)
    bg = nx.Graph()
    bg.add_nodes_from(range(n))
    explicit = set()
    for (typ, at, params, meta), cnt in exp_inter.items():
        if typ in ("bonds", "constraints"):
            bg.add_edge(*at)
        if typ == "exclusions":
            explicit.add(frozenset(at))
    for typ, at, params in links_ok:
        if typ == "bonds":
            bg.add_edge(*at)
        if typ == "exclusions":
            explicit.add(frozenset(at))
    got_inter = Counter((t, a) for t, a, p, m in snap["inter"])
    # the bonds of the written molecule must be this bond graph (otherwise the recount below is about another molecule)
    got_bonds = {frozenset(a) for (t, a) in got_inter if t in ("bonds", "constraints")}
    if got_bonds != {frozenset(e) for e in bg.edges}:
        return "c14-bond-graph", f"bonds/constraints of the molecule {sorted(map(sorted, got_bonds))} differ from block copies + link bonds {sorted(map(sorted, bg.edges))}"
    e_atom = [blocks[exp_atoms[p]["resname"]][0]["nrexcl"] for p in range(n)]
    dist = dict(nx.all_pairs_shortest_path_length(bg))
    listed = {frozenset(a) for (t, a) in got_inter if t == "exclusions"}
    nrexcl = snap["nrexcl"]
    used = sorted(set(e_atom))
    if not isinstance(nrexcl, int):
        return "c14-nrexcl", f"molecule nrexcl is {nrexcl!r}"
    for i in range(n):
        for j in range(i + 1, n):
            d = dist[i].get(j)
            pair = frozenset((i, j))
            want = (d is not None and d <= max(e_atom[i], e_atom[j])) or pair in explicit
            have = (d is not None and d <= nrexcl) or pair in listed
            if want != have:
                key = "c14-missing-exclusion" if want else "c14-invented-exclusion"
                if not want:
                    # diagnosis only (the oracle is unchanged): is the pair explained by counting every section of a block written
                    # in polyply .itp syntax (exclusions, pairs, ...) as if it were a bond?
                    alt = bg.copy()
                    for (typ, at, params, meta), cnt in exp_inter.items():
                        if blocks[exp_atoms[at[0]]["resname"]][1] == "itp":
                            alt.add_edges_from(zip(at[:-1], at[1:]))
                    try:
                        if nx.shortest_path_length(alt, i, j) <= max(e_atom[i], e_atom[j]):
                            key = "F16-itp-nonbonded-sections-count-as-bonds"
                    except nx.NetworkXNoPath:
                        pass
                return (key,
                        f"atoms {i + 1} ({exp_atoms[i]['resname']} nrexcl {e_atom[i]}) and {j + 1} ({exp_atoms[j]['resname']} nrexcl {e_atom[j]}): bond distance {d}, "
                        f"explicit={pair in explicit}; prescribed excluded={want}, molecule (nrexcl {nrexcl}, listed={pair in listed}) excluded={have}")
    if len(used) == 1:
        if nrexcl != used[0]:
            return "c14-uniform-nrexcl-changed", f"all blocks prescribe nrexcl {used[0]}, molecule has {nrexcl}"
        invented = listed - explicit
        if invented:
            return "c14-uniform-invented", f"uniform nrexcl {used[0]} but exclusions {sorted(map(sorted, invented))} are listed that no block/link defines"
    return None


def c14_worker(args):
    os.environ["TQDM_DISABLE"] = "1"
    ffw, paths, graphs, offsets, cap, seed = args
    rng = random.Random(seed)
    n_eval = n_nt = n_three = 0
    found, counts, sample = {}, Counter(), None
    blocks = ff_blocks(ffw)
    for n, edges in graphs:
        for gw, _ in c01_graph_worlds(ffw, n, edges, offsets, cap, rng):
            n_eval += 1
            used = {blocks[rn][0]["nrexcl"] for _, rn, _, _ in gw["nodes"]}
            nontrivial = len(used) >= 2
            n_three += int(len(used) >= 3)
            n_nt += int(nontrivial)
            s2, s3 = run_pipeline(paths, gw, None)
            bad = None
            if s2.error:
                bad = ("c14-crash-" + s2.error.split(":")[0], "pipeline raised: " + s2.error)
            else:
                bad = check_c14(ffw, gw, s2.snap)
                if bad is None and s3.snap is not None and s3.snap != s2.snap:
                    bad = check_c14(ffw, gw, s3.snap)
            if bad:
                counts[bad[0]] += 1
                if bad[0] not in found:
                    found[bad[0]] = (bad[1], {"force_field": ffw["id"], "files": [open(p).read() for p in paths], "graph": gw})
            elif sample is None and nontrivial and n >= 3:
                sample = {"force_field": ffw["id"], "sizes": ffw["sizes"], "nrexcl": ffw["nrexcl"], "explicit": ffw["explicit"],
                          "syntax": [f[0] for f in ffw["files"]], "graph": gw, "molecule_nrexcl": s2.snap["nrexcl"],
                          "listed_exclusions": sum(1 for t in s2.snap["inter"] if t[0] == "exclusions")}
    return n_eval, n_nt, n_three, found, counts, sample


def run_c14(ctx, res):
    import multiprocessing as mp
    max_nodes = 5 if ctx.thorough else 4
    graphs = atlas_graphs(max_nodes)
    offsets = (1,)
    cap = 24 if ctx.thorough else None
    ffs = c14_force_fields(ctx.thorough)
    scratch = tempfile.mkdtemp(prefix="c14.", dir="/var/tmp")
    try:
        jobs = []
        for i, ffw in enumerate(ffs):
            paths = write_world_files(ffw, scratch, ffw["id"])
            step = 4 if ctx.thorough else len(graphs)
            for j in range(0, len(graphs), step):
                jobs.append((ffw, paths, graphs[j:j + step], offsets, cap, ctx.seed * 7919 + i * 31 + j))
        with mp.Pool(NPROC) as pool:
            outs = pool.map(c14_worker, jobs, chunksize=2)
    finally:
        shutil.rmtree(scratch, ignore_errors=True)
    three = 0
    for n_eval, n_nt, n_three, found, counts, sample in outs:
        res.evaluations += n_eval
        res.nontrivial += n_nt
        three += n_three
        if sample and len(res.samples) < 3:
            res.samples.append(sample)
    counts = _merge_findings("c14-exclusions", res, outs)
    res.exhaustive = cap is None
    k = 3 if ctx.thorough else 2
    res.bound = (f"{len(ffs)} force fields: {k} block types with atom counts {'(3,2,1),(2,3,3)' if ctx.thorough else '(3,2),(1,3),(2,2),(3,3)'} (bond paths), "
                 f"every combination of prescribed nrexcl in {'0..4' if ctx.thorough else '{1,2,3}'} x {{no explicit exclusions, block end-to-end exclusion + link exclusion}} "
                 f"x {{.ff, polyply .itp + link file}}"
                 + ("" if ctx.thorough else "; nrexcl 0 against 0..3 in both orders (atom counts (3,2),(1,3), with/without explicit exclusions, both syntaxes); "
                    "three block types with three DISTINCT nrexcl: (1,2,3) and (0,1,2) on atom counts (2,2,2) (.ff with/without explicit exclusions, .itp) and "
                    "all 12 permutations on atom counts (3,1,2), residue graphs restricted to assignments that use all three types (every residue order)")
                 + f"; link bonds last atom -> first atom of the residue with the larger id for every pair of types.  Residue graphs: all {len(graphs)} "
                 f"connected graphs on <= {max_nodes} nodes (chains, stars, rings, ...), every resname assignment over the block names"
                 f"{' (capped at 24 seeded assignments per graph and force field: NOT exhaustive for >= 3 nodes x 3 names)' if cap else ''}, resid offset 1 (residue ids enter only through the '>' order of the links).  "
                 f"Every atom pair of every molecule is recounted against the bond graph (bonds + constraints of the block copies + link bonds); {three} molecules carry >= 3 distinct nrexcl.")
    res.rule = "world = (force field files, residue graph, resnames, offset); non-trivial iff the residues of the molecule use blocks with >= 2 different nrexcl"
    res.assumptions.append("bond graph = bonds and constraints (GROMACS generates nrexcl exclusions from these); the written molecule is required to have exactly the bonds of the block copies and links")
    res.assumptions.append("worlds per finding class: " + json.dumps(dict(counts)))


# ------------------------------------------------------------------------------------------------------------
# C13: metamorphic
# ------------------------------------------------------------------------------------------------------------

WRITTEN_META = ("ifdef", "ifndef", "group", "comment")     # the interaction annotations that reach the written .itp


def canon(stage):
    """label-free result: atoms in file order and the multiset of interactions per type"""
    if stage.error:
        return ("error", stage.error.split(":")[0])
    s = stage.snap
    inter = {}
    for typ, at, params, meta in s["inter"]:
        inter.setdefault(typ, []).append((at, tuple(map(str, params)), tuple((k, str(v)) for k, v in meta if k in WRITTEN_META)))
    return ("ok", tuple(tuple(sorted((k, repr(v)) for k, v in a.items())) for a in s["atoms"]),
            tuple(sorted((t, tuple(sorted(l))) for t, l in inter.items())), s["nrexcl"], tuple(s["dangling"]))


def describe_diff(a, b):
    if a[0] != b[0] or a[0] == "error":
        short = lambda c: c[:2] if c[0] == "error" else ("ok", f"{len(c[1])} atoms")      # noqa: E731
        return f"outcome {short(a)} vs {short(b)}"
    if a[1] != b[1]:
        for i, (x, y) in enumerate(zip(a[1], b[1])):
            if x != y:
                return f"atom {i + 1}: {dict(x)} vs {dict(y)}"
        return f"{len(a[1])} atoms vs {len(b[1])} atoms"
    if a[3] != b[3]:
        return f"nrexcl {a[3]} vs {b[3]}"
    da, db = dict(a[2]), dict(b[2])
    for t in sorted(set(da) | set(db)):
        if da.get(t) != db.get(t):
            ca, cb = Counter(da.get(t, ())), Counter(db.get(t, ()))
            return f"[{t}] only in original: {list((ca - cb).elements())[:4]}; only in transformed: {list((cb - ca).elements())[:4]}"
    return "dangling interactions differ"


def c13_force_fields(thorough):
    out = []
    link_gt = lambda names: ["link", ff_link([["a1", "", None], ["a1", ">", None]], {"bonds": [[[0, 1], ["1", "0.47", "1250"], {}]]}, names)]   # noqa: E731
    link_plus = lambda names: ["link", ff_link([["a2", "", NAMES[0]], ["a1", "+", None]],                                                          # noqa: E731
                                               {"bonds": [[[0, 1], ["1", "0.44", "900"], {}]], "exclusions": [[[0, 1], [], {}]]}, names)]
    # W1 .ff, mixed nrexcl, two links on different atoms
    b = [single_block(NAMES[0], 3, 1, 0, 1), single_block(NAMES[1], 2, 2, 0, 2)]
    out.append({"id": "w1", "kind": "single", "names": NAMES[:2], "files": [["ff", [["block", b[0]], ["block", b[1]], link_gt(NAMES[:2]), link_plus(NAMES[:2])]]]})
    # W2 polyply .itp with dangling-bond links in both blocks, mixed nrexcl
    b = [single_block(NAMES[0], 2, 3, 0, 1), single_block(NAMES[1], 3, 1, 1, 2)]
    b[0]["dangling"] = {"bonds": [[[1, 2], ["1", "0.47", "1250"], {}]]}
    b[1]["dangling"] = {"bonds": [[[0, 3], ["1", "0.46", "1240"], {}]]}
    out.append({"id": "w2", "kind": "single", "names": NAMES[:2], "files": [["itp", [["block", b[0]], ["block", b[1]]]]]})
    # W3 mixed syntax: one block per language + link file, mixed nrexcl (blocks with exclusions / pairs sections)
    b = [single_block(NAMES[0], 3, 1, 3, 1), single_block(NAMES[1], 3, 2, 0, 2)]
    link_end = ["link", ff_link([["a3", "", None], ["a1", ">", None]], {"bonds": [[[0, 1], ["1", "0.43", "1230"], {}]]}, NAMES[:2])]
    out.append({"id": "w3", "kind": "single", "names": NAMES[:2],
                "files": [["ff", [["block", b[0]], link_end]], ["itp", [["block", b[1]]]]]})
    # W4 terminal modifications
    b = [single_block(NAMES[0], 2, 1, 0, 1), single_block(NAMES[1], 3, 1, 1, 2)]
    out.append({"id": "w4", "kind": "mods", "names": NAMES[:2],
                "files": [["ff", [["block", b[0]], ["block", b[1]], link_gt(NAMES[:2])] + [["mod", m] for m in termini_mods(True)]]]})
    # W5 multi-residue from_itp block (1-2 copies) + single block + link that continues a copy
    mb, sb = multi_block("MIX", (2, 1), 1, 7), single_block(NAMES[0], 2, 1, 0, 1)
    lk = ["link", ff_link([["m3", "", None], ["a1", ">", None]], {"bonds": [[[0, 1], ["1", "0.48", "1300"], {}]]}, [NAMES[0], "R2"])]
    lk2 = ["link", ff_link([["m3", "", None], ["m1", ">", None]], {"bonds": [[[0, 1], ["1", "0.49", "1310"], {}]]}, ["R1", "R2"])]
    out.append({"id": "w5", "kind": "multi", "names": NAMES[:1], "multi": "MIX", "nres": 2,
                "files": [["itp", [["block", sb], ["block", mb]]], ["ff", [lk, lk2]]]})
    # W7 links without order relation ('*', '**'): between two residues of the same name BOTH orientations match, and the
    # interactions are not symmetric under swapping the residues (angle a2 a1 *a1, bond a2 *a1, three-residue angle a2 *a1 **a1)
    b = [single_block(NAMES[0], 2, 1, 2, 1), single_block(NAMES[1], 3, 1, 2, 2)]
    star2 = ["link", ff_link([["a2", "", None], ["a1", "", None], ["a1", "*", None]],
                             {"angles": [[[0, 1, 2], ["2", "111", "25"], {}]], "bonds": [[[0, 2], ["1", "0.52", "800"], {}]]}, NAMES[:2])]
    star3 = ["link", ff_link([["a2", "", None], ["a1", "*", None], ["a1", "**", None]],
                             {"angles": [[[0, 1, 2], ["2", "133", "35"], {}]]}, NAMES[:2])]
    out.append({"id": "w7", "kind": "single", "names": NAMES[:2], "star": True,
                "files": [["ff", [["block", b[0]], ["block", b[1]], star2, star3]]]})
    if thorough:
        b = [single_block(NAMES[0], 1, 0, 0, 1), single_block(NAMES[1], 3, 4, 3, 2), single_block(NAMES[2], 2, 2, 1, 3)]
        out.append({"id": "w6", "kind": "single", "names": NAMES[:3],
                    "files": [["ff", [["block", x] for x in b] + [link_gt(NAMES[:3])]]]})
    return out


def perms_for(n, rng, limit):
    ps = [p for p in itertools.permutations(range(n)) if p != tuple(range(n))]
    if len(ps) > limit:
        rev = tuple(reversed(range(n)))
        ps = [rev] + rng.sample([p for p in ps if p != rev], limit - 1)
    return ps


def transforms(ffw, gw, rng, limit):
    """yields (name, force-field world, graph world, history) - every one a non-identity transformation of the input"""
    n = len(gw["nodes"])
    for p in perms_for(n, rng, limit):
        yield f"insertion-order{p}", ffw, {"nodes": [gw["nodes"][i] for i in p], "edges": gw["edges"]}, 0
    for p in perms_for(n, rng, limit):
        # node key k becomes p[k]; residue ids / names stay with the residue
        nodes = [[p[k], rn, rid, fi] for k, rn, rid, fi in gw["nodes"]]
        yield f"relabel{p}", ffw, {"nodes": nodes, "edges": [[p[u], p[v]] for u, v in gw["edges"]]}, 0
    if gw["edges"]:
        yield "edge-flip", ffw, {"nodes": gw["nodes"], "edges": [[v, u] for u, v in gw["edges"]]}, 0
        if len(gw["edges"]) > 1:
            yield "edge-order-reversed", ffw, {"nodes": gw["nodes"], "edges": list(reversed(gw["edges"]))}, 0
    # definitions: reverse the order inside every file, reverse the file order, split every file in two
    rev_items = {"files": [[s, list(reversed(items))] for s, items in ffw["files"]]}
    if any(len(items) > 1 for _, items in ffw["files"]):
        yield "definitions-reversed", dict(ffw, **rev_items), gw, 0
    if len(ffw["files"]) > 1:
        yield "files-reversed", dict(ffw, files=list(reversed(ffw["files"]))), gw, 0
    split = []
    for s, items in ffw["files"]:
        if len(items) > 1:
            split += [[s, items[1:]], [s, items[:1]]]
        else:
            split.append([s, items])
    if len(split) > len(ffw["files"]):
        yield "files-split", dict(ffw, files=split), gw, 0
    yield "history-1", ffw, gw, 1
    yield "history-2", ffw, gw, 2


def history_world(ffw, which):
    """an unrelated run that uses the same block names with other content (other sizes, other nrexcl mix)"""
    names = ffw["names"] if ffw["kind"] != "multi" else NAMES[:2]
    blocks = [single_block(nm, 1 + (i + which) % 3, (3 * i + which) % 4, (i + which) % 2, 5 + i) for i, nm in enumerate(names)]
    if len(blocks) == 1:
        blocks.append(single_block(NAMES[1], 2, 3, 0, 6))
    link = ["link", ff_link([["a1", "", None], ["a1", ">", None]], {"bonds": [[[0, 1], ["1", "0.9", "1"], {}]]}, [b["name"] for b in blocks])]
    return {"id": "hist", "kind": "single", "names": [b["name"] for b in blocks], "files": [["ff", [["block", x] for x in blocks] + [link]]]}


def c13_worker(args):
    os.environ["TQDM_DISABLE"] = "1"
    ffw, scratch, graphs, offsets, limit, cap, seed = args
    rng = random.Random(seed)
    n_eval = n_nt = 0
    found, counts, sample = {}, Counter(), None
    file_cache = {}
    wdir = tempfile.mkdtemp(prefix="w.", dir=scratch)

    def paths_for(w):
        key = json.dumps(w["files"], sort_keys=True)
        if key not in file_cache:
            file_cache[key] = write_world_files(w, wdir, f"f{len(file_cache)}")
        return file_cache[key]

    hist = [history_world(ffw, 1), history_world(ffw, 2)]
    hist_graph = graph_world(3, [(0, 1), (1, 2)], [hist[0]["names"][0], hist[0]["names"][1], hist[0]["names"][0]], 1)
    for n, edges in graphs:
        for gw, placement in c01_graph_worlds(ffw, n, edges, offsets, cap, rng):
            base2, base3 = run_pipeline(paths_for(ffw), gw, None)
            cb2, cb3 = canon(base2), canon(base3)
            if ffw.get("star") and base2.snap is not None:
                # explicit expectation for order-free links: every orientation the definition matches is present
                n_eval += 1
                n_nt += int(n >= 2)
                ea, _, _, rp = expected_layout(ffw, gw)
                have = {(t, a, p_) for t, a, p_, m in base2.snap["inter"]}
                missing = sorted(star_link_instances(ffw, gw, ea, rp) - have)
                if missing:
                    counts["c13-star-link-orientation-missing"] += 1
                    found.setdefault("c13-star-link-orientation-missing",
                                     (f"link with '*' order matches but its interaction is absent: {missing[:4]} (of {len(missing)})",
                                      {"force_field": ffw["id"], "files": [open(p).read() for p in paths_for(ffw)], "graph": gw}))
            for tname, tff, tgw, history in transforms(ffw, gw, rng, limit):
                n_eval += 1
                n_nt += 1                        # every transformation generated above is a non-identity one
                for h in range(history):
                    run_pipeline(paths_for(hist[h]), hist_graph, None, name="other")
                t2, t3 = run_pipeline(paths_for(tff), tgw, None)
                ct2, ct3 = canon(t2), canon(t3)
                bad = None
                kind = tname.split("(")[0]
                if cb2 != ct2:
                    bad = ("c13-" + kind, f"{tname}: after ApplyLinks {describe_diff(cb2, ct2)}")
                elif cb3 != ct3:
                    bad = ("c13-mods-" + kind, f"{tname}: after ApplyModifications {describe_diff(cb3, ct3)}")
                if bad:
                    key = bad[0]
                    errs = [e for e in (base2.error, t2.error) if e]
                    if ffw["kind"] == "multi" and placement and len(placement) == 2:
                        if kind == "relabel":
                            # node keys decide how list(set) is sliced into copies (and, for separate fragments, their numbering)
                            key = "F11-multires-copies-relabel"
                        elif any(e.startswith("IndexError") and e.endswith("@add_blocks") for e in errs):
                            # keys unchanged, copies in separate fragments: fragments are numbered in node order but looked up in resid order
                            key = "F18-multires-fragment-number-vs-resid-order"
                    if (ffw["kind"] == "multi" and sum("mismatch in the length" in e for e in errs) == 1
                            and len(gw["edges"]) >= len(gw["nodes"])):
                        # cyclic residue graph: which edges are DFS tree edges depends on insertion / edge order / labels
                        key = "F15-multires-fragment-not-on-dfs-tree"
                    if key.startswith("c13-mods-relabel"):
                        key = "F13-mods-nodekey-relabel"
                    if (kind == "files-reversed" and "[exclusions]" in bad[1] and {f[0] for f in ffw["files"]} == {"ff", "itp"}
                            and not errs):
                        # a .ff block read BEFORE a polyply .itp file gets edges from its exclusions/pairs sections, one read after does not
                        key = "F17-ff-itp-file-order-changes-exclusions"
                    counts[key] += 1
                    if key not in found:
                        found[key] = (bad[1], {"force_field": ffw["id"], "files": [open(p).read() for p in paths_for(ffw)],
                                               "transformed_files": [open(p).read() for p in paths_for(tff)] if tff is not ffw else "same",
                                               "graph": gw, "transformed_graph": tgw, "history_runs": history})
                elif sample is None and n >= 3 and kind == "relabel":
                    sample = {"force_field": ffw["id"], "graph": gw, "transformation": tname, "transformed_graph": tgw,
                              "atoms": len(base2.snap["atoms"]) if base2.snap else None}
    return n_eval, n_nt, found, counts, sample


# ---- history through the public entry point: gen_params(lib=..., seq=...) with DEFAULT inpath / mods, several calls per process

API_FAMILIES = {"PEO": ["martini3", "martini2", "oplsaaLigParGen"], "PS": ["martini3", "martini2"],
                "P3HT": ["martini3", "martini2", "gromos53A6"]}
API_FAMILIES_THOROUGH = {"PEO": ["martini3", "martini2", "oplsaaLigParGen", "2016H66"], "PS": ["martini3", "martini2"],
                         "P3HT": ["martini3", "martini2", "gromos53A6"], "PE": ["martini3", "martini2"]}


def api_call(lib, resname, out):
    """one call of the public entry point; inpath and mods are NOT passed (the programs' defaults are used)"""
    from pathlib import Path
    gi = quiet_load("polyply.src.gen_itp")
    gi.gen_params(name="pol", outpath=Path(out), lib=[lib], seq=[f"{resname}:4"])


def itp_body(path, raw=False):
    """the written file apart from the command-line line (its first line).  raw: the remaining lines as they are; otherwise the
    citation comment block is taken as a multiset (sorted) and everything from the first section on as it is"""
    with open(path) as fh:
        lines = fh.read().splitlines()[1:]
    if raw:
        return lines
    k = next((i for i, l in enumerate(lines) if l.lstrip().startswith("[")), len(lines))
    return sorted(lines[:k]) + lines[k:]


def api_reference_main(argv):
    """entry point of the fresh reference process:  python -c '...' lib resname out"""
    os.environ["TQDM_DISABLE"] = "1"
    api_call(argv[0], argv[1], argv[2])


def api_reference(args):
    """the call in two fresh python processes (two different string-hash seeds); returns (result, raw lines of both runs)"""
    import subprocess
    import sys
    lib, resname, out = args
    code = "import sys; from bounded.b_genparams import api_reference_main; api_reference_main(sys.argv[1:])"
    raws = []
    for hashseed in ("1", "2"):
        r = subprocess.run([sys.executable, "-c", code, lib, resname, out], cwd=os.path.dirname(os.path.dirname(os.path.abspath(__file__))),
                           capture_output=True, text=True, env=dict(os.environ, PYTHONHASHSEED=hashseed))
        if r.returncode != 0:
            return ("error", r.stderr.strip().splitlines()[-1] if r.stderr.strip() else "exit %d" % r.returncode), None
        raws.append(itp_body(out, raw=True))
    return ("ok", itp_body(out)), raws


def api_sequence_worker(args):
    """runs in a process forked for this sequence only (no earlier gen_params call in it)"""
    os.environ["TQDM_DISABLE"] = "1"
    seq, scratch, idx = args
    out = None
    try:
        for j, (lib, resname) in enumerate(seq):
            out = os.path.join(scratch, f"seq{idx}_{j}.itp")
            api_call(lib, resname, out)
        return ("ok", itp_body(out))
    except Exception as e:                       # noqa: BLE001
        return ("error", f"{type(e).__name__}: {e}")


def api_sequences(thorough):
    fam = API_FAMILIES_THOROUGH if thorough else API_FAMILIES
    seqs = []
    for resname, libs in fam.items():
        calls = [(lib, resname) for lib in libs]
        for length in (1, 2, 3):
            seqs += [list(x) for x in itertools.product(calls, repeat=length)]
    if thorough:
        # histories that mix residues: every ordered pair of (library, residue) calls
        allcalls = [(lib, resname) for resname, libs in fam.items() for lib in libs]
        seqs += [[a, b] for a in allcalls for b in allcalls if a[1] != b[1]]
    return seqs


def run_api_histories(ctx, res, scratch):
    import multiprocessing as mp
    from multiprocessing.pool import ThreadPool
    seqs = api_sequences(ctx.thorough)
    calls = sorted({c for s in seqs for c in s})
    with ThreadPool(min(NPROC, len(calls))) as tp:
        both = dict(zip(calls, tp.map(api_reference, [(lib, rn, os.path.join(scratch, f"ref_{lib}_{rn}.itp")) for lib, rn in calls])))
    refs = {c: v[0] for c, v in both.items()}
    found, counts = {}, Counter()
    # repeated runs (two fresh processes): identical files apart from the command-line line
    for c, (_, raws) in both.items():
        res.evaluations += 1
        if raws and raws[0] != raws[1]:
            same_apart_from_citations = sorted(raws[0]) == sorted(raws[1]) and [l for l in raws[0] if not l.startswith(";")] == [l for l in raws[1] if not l.startswith(";")]
            key = "F19-citation-order-depends-on-hash-seed" if same_apart_from_citations else "c13-api-repeated-runs-differ"
            diff = next((f"line {i + 2}: {a!r} vs {b!r}" for i, (a, b) in enumerate(zip(*raws)) if a != b), "different length")
            counts[key] += 1
            found.setdefault(key, (f"two fresh runs of gen_params(lib={c[0]}, seq={c[1]}:4) (PYTHONHASHSEED 1 / 2) write different files: {diff[:300]}",
                                   {"calls": [list(c)], "note": "python started twice with PYTHONHASHSEED=1 and 2"}))
    quiet_load("polyply.src.gen_itp")            # import only (no call): the forked children start from a process without gen_params history
    with mp.get_context("fork").Pool(NPROC, maxtasksperchild=1) as pool:
        outs = pool.map(api_sequence_worker, [(s, scratch, i) for i, s in enumerate(seqs)], chunksize=1)
    for seq, got in zip(seqs, outs):
        res.evaluations += 1
        res.nontrivial += int(len(seq) >= 2)
        want = refs[seq[-1]]
        if got == want:
            continue
        if want[0] == "error":
            key, text = "c13-api-reference-failed", f"gen_params(lib={seq[-1][0]}, seq={seq[-1][1]}:4) fails in a fresh process: {want[1]}"
        elif got[0] == "error":
            key, text = "c13-api-history", f"after {seq[:-1]} the call {seq[-1]} raises {got[1]}; in a fresh process it succeeds"
        else:
            diff = next((f"line {i + 2} (citation block sorted): {a[:120]!r} vs fresh {b[:120]!r}" for i, (a, b) in enumerate(zip(got[1], want[1])) if a != b),
                        f"{len(got[1])} lines vs fresh {len(want[1])} lines")
            key = "c13-api-history" if len(seq) >= 2 else "c13-api-process-not-clean"
            text = f"gen_params calls {seq} (default inpath): the .itp of the last call differs from the same call in a fresh process: {diff}"
        counts[key] += 1
        found.setdefault(key, (text, {"calls": [list(c) for c in seq], "note": "gen_params(name='pol', outpath=..., lib=[lib], seq=['RES:4']), inpath/mods not passed"}))
    return len(seqs), len(calls), (found, counts, None)


def run_c13(ctx, res):
    import multiprocessing as mp
    max_nodes = 5 if ctx.thorough else 4
    limit = 16 if ctx.thorough else 12
    cap = 64 if ctx.thorough else None
    graphs = atlas_graphs(max_nodes)
    offsets = (1, 7)
    ffs = c13_force_fields(ctx.thorough)
    scratch = tempfile.mkdtemp(prefix="c13.", dir="/var/tmp")
    try:
        jobs = []
        for i, ffw in enumerate(ffs):
            gl = graphs + (PATH5 if ffw["kind"] == "multi" and not ctx.thorough else [])
            for j in range(0, len(gl), 1):
                jobs.append((ffw, scratch, gl[j:j + 1], offsets, limit, cap, ctx.seed * 104729 + i * 977 + j))
        with mp.Pool(NPROC) as pool:
            outs = pool.map(c13_worker, jobs, chunksize=1)
        n_seq, n_calls, api_out = run_api_histories(ctx, res, scratch)
    finally:
        shutil.rmtree(scratch, ignore_errors=True)
    outs = list(outs) + [(0, 0) + api_out]
    for n_eval, n_nt, found, counts, sample in outs:
        res.evaluations += n_eval
        res.nontrivial += n_nt
        if sample and len(res.samples) < 3:
            res.samples.append(sample)
    counts = _merge_findings("c13-relabel-reorder-history", res, outs)
    res.exhaustive = cap is None
    res.bound = (f"{len(ffs)} force-field worlds (.ff with two links and mixed nrexcl; polyply .itp with dangling-bond links; mixed .ff + .itp files; terminal "
                 f"modifications; multi-residue from_itp block with 1-2 copies{'; three block types with nrexcl 0/4/2' if ctx.thorough else ''}) x all {len(graphs)} connected residue graphs on <= {max_nodes} nodes "
                 f"{'(+ the 5-residue path for the multi-residue world) ' if not ctx.thorough else ''}x every resname assignment{' (capped at 64 seeded assignments per graph for 3 names: NOT exhaustive there)' if cap else ''} / from_itp placement x resid offsets {{1,7}}.  Per world: every non-identity permutation of the node insertion order and of the "
                 f"node keys 0..n-1 (resids kept) for n <= 3, reversal + {limit - 1} seeded permutations for larger n (seeded beyond n = 3), all edges flipped, edge list reversed, definitions reversed "
                 "inside every file, file order reversed, every file split in two, 1 and 2 unrelated runs (same block names, other content) before the run in the same process.  "
                 "Compared: atoms in file order, multiset of (atoms, parameters, meta) per interaction type, nrexcl - after ApplyLinks and after ApplyModifications.  "
                 "World w7 (links with '*' / '**' orders) is also compared with the explicit expectation (every orientation the definition matches is present).  "
                 f"PUBLIC ENTRY POINT: {n_seq} sequences of 1-3 gen_params(lib=[L], seq=['R:4']) calls with the default inpath/mods in one forked process each "
                 f"(shipped libraries {json.dumps(API_FAMILIES_THOROUGH if ctx.thorough else API_FAMILIES)}, every ordered sequence per residue"
                 f"{', every ordered pair of calls with different residues' if ctx.thorough else ''}); the .itp of the last call (without its command-line line) "
                 f"must equal the .itp of the same call in a fresh python process ({n_calls} references; citation comment block compared as a multiset); "
                 "each reference is made twice (PYTHONHASHSEED 1 and 2) and the two files must be identical.")
    res.rule = "evaluation = (world, transformation); every generated transformation is non-identity (graphs with one node only get file/history transformations)"
    res.assumptions.append("a run that raises is compared by exception type (both runs raising the same type count as equal; crashes themselves are C01's business)")
    res.assumptions.append("worlds per finding class: " + json.dumps(dict(counts)))


UNITS = [BUnit("c01-block-copies", run_c01),
         BUnit("c13-relabel-reorder-history", run_c13),
         BUnit("c14-exclusions", run_c14)]

"""Tier B for C16: executable contract of NonBondEngine over exhaustively enumerated operation histories,
against a brute-force periodic reference (bounded stand-in; never counted as proved)."""
import itertools
import os
import random
import numpy as np
from vlib.realcode import load
from vlib.framework import Violation


def lj(dist, vect, sig, eps):
    return 24 * eps / dist * (2 * (sig / dist) ** 12 - (sig / dist) ** 6) * vect / dist


class Ref:
    """reference model: exactly the currently positioned residues"""

    def __init__(self, n, box, atypes, inter, cut):
        self.pos = {}
        self.n, self.box, self.atypes, self.inter, self.cut = n, np.asarray(box, float), atypes, inter, cut

    def minimg(self, a, b):
        d = a - b
        return d - np.round(d / self.box) * self.box

    def force(self, point, g_self, excl):
        vecs = {g: self.minimg(point, p) for g, p in self.pos.items()}
        dists = {g: np.linalg.norm(v) for g, v in vecs.items()}
        near = {g for g, d in dists.items() if d <= self.cut}
        if any(dists[g] < 0.1 for g in near):
            return np.inf
        f = np.zeros(3)
        for g in near:
            if g in excl:
                continue
            sig, eps = self.inter[frozenset([self.atypes[g_self], self.atypes[g]])]
            f = f + lj(dists[g], vecs[g], sig, eps)
        return f


_PATCHED = {}


def low_threshold_class(nbe, thr):
    """NonBondEngine whose add_positions is the REAL method with the literal 5000 replaced by `thr`
    (mechanical AST rewrite of the working-tree source at run time; nothing else is changed)"""
    import ast, inspect, textwrap
    key = (id(nbe), thr)
    if key in _PATCHED:
        return _PATCHED[key]
    src = textwrap.dedent(inspect.getsource(nbe.NonBondEngine.add_positions))
    tree = ast.parse(src)
    hits = 0
    for n in ast.walk(tree):
        if isinstance(n, ast.Constant) and n.value == 5000:
            n.value = thr
            hits += 1
    if hits != 1:
        raise RuntimeError(f"expected exactly one literal 5000 in add_positions, found {hits}")
    ns = {}
    exec(compile(tree, nbe.__file__, "exec"), vars(nbe), ns)
    cls = type("NonBondEngineLowThreshold", (nbe.NonBondEngine,), {"add_positions": ns["add_positions"]})
    _PATCHED[key] = cls
    return cls


def make_engine(nbe, n_mol, n_node, box, predefined=None, big=0, rng=None, thr=None):
    n = n_mol * n_node + big
    positions = np.ones((n, 3)) * np.inf
    nodes_to_gndx = {}
    idx = 0
    for m in range(n_mol):
        for k in range(n_node):
            nodes_to_gndx[(m, k)] = idx
            idx += 1
    atypes = ["A" if i % 2 == 0 else "B" for i in range(n)]
    inter = {frozenset(["A", "A"]): (0.45, 1.0), frozenset(["B", "B"]): (0.6, 1.0), frozenset(["A", "B"]): (0.525, 1.0)}
    cut = 1.2
    for i in range(big):
        # a regular far-away lattice filling the first tree beyond the 5000 threshold
        nodes_to_gndx[(n_mol, i)] = idx
        positions[idx] = np.array([6.0 + (i % 20) * 0.15, 6.0 + ((i // 20) % 20) * 0.15, 6.0 + (i // 400) * 0.15])
        idx += 1
    if predefined:
        for (m, k), p in predefined.items():
            positions[nodes_to_gndx[(m, k)]] = p
    cls = nbe.NonBondEngine if thr is None else low_threshold_class(nbe, thr)
    eng = cls(positions, nodes_to_gndx, atypes, inter, None, None, cut_off=cut, boxsize=np.asarray(box, float))
    ref = Ref(n, box, atypes, inter, cut)
    for g in range(n):
        if np.all(np.isfinite(positions[g])):
            ref.pos[g] = positions[g].copy()
    return eng, ref, nodes_to_gndx


POINTS = [np.array(p) for p in ([1.0, 1.0, 1.0], [1.5, 1.0, 1.0], [0.1, 1.0, 1.0], [4.9, 1.0, 1.0], [1.0, 4.85, 0.2], [2.5, 2.5, 2.5])]


def ops_alphabet(n_mol, n_node):
    ops = []
    for m in range(n_mol):
        for k in range(n_node):
            for pi in range(len(POINTS)):
                ops.append(("add", m, k, pi, False))
            ops.append(("add", m, k, (m + k) % len(POINTS), True))
        for r in range(1, n_node + 1):
            for ks in itertools.combinations(range(n_node), r):
                ops.append(("remove", m, ks))
    ops.append(("concat",))
    return ops


def apply(eng, ref, n2g, op):
    if op[0] == "add":
        _, m, k, pi, start = op
        eng.add_positions(POINTS[pi].copy(), m, k, start=start)
        ref.pos[n2g[(m, k)]] = POINTS[pi].copy()
    elif op[0] == "remove":
        _, m, ks = op
        eng.remove_positions(m, list(ks))
        for k in ks:
            ref.pos.pop(n2g[(m, k)], None)
    else:
        eng.concatenate_trees()


def check_state(eng, ref, n2g, n_mol, n_node, probes):
    """returns None or a description of the first contract clause that fails"""
    for (m, k), g in n2g.items():
        if m >= n_mol:
            continue
        p = eng.get_point(m, k)
        if g in ref.pos:
            if not np.allclose(p, ref.pos[g]):
                return f"get_point({m},{k}) = {p}, last position given {ref.pos[g]}"
        elif np.all(np.isfinite(p)):
            return f"get_point({m},{k}) = {p} but the residue is not positioned"
    for (point, m, k, excl) in probes:
        g = n2g[(m, k)]
        ex = [n2g[(m, e)] for e in excl]
        got = eng.compute_force_point(point, m, k, exclude=list(excl))
        want = ref.force(point, g, ex)
        if np.isscalar(want) or np.isscalar(got) and not isinstance(got, np.ndarray):
            inf_w = np.isscalar(want) and np.isinf(want)
            inf_g = np.ndim(got) == 0 and np.isinf(got)
            if inf_w != inf_g:
                return f"compute_force_point({point},{m},{k},excl={excl}) = {got}, reference {want}"
            if inf_w:
                continue
        got = np.zeros(3) if np.ndim(got) == 0 else got
        if not np.allclose(got, want, rtol=1e-6, atol=1e-8):
            return f"compute_force_point({point},{m},{k},excl={excl}) = {got}, reference {want}"
    return None


def metric_checks(eng, rng, n):
    box = eng.boxsize
    for _ in range(n):
        a = rng.uniform(-2, 8, 3)
        b = rng.uniform(-2, 8, 3)
        k = rng.integers(-2, 3, 3)
        d = eng.pbc_min_dist(a, b)
        if abs(d - eng.pbc_min_dist(b, a)) > 1e-9:
            return f"pbc_min_dist not symmetric for {a}, {b}"
        if abs(d - eng.pbc_min_dist(a + k * box, b)) > 1e-9:
            return f"pbc_min_dist not periodic for {a}, {b}, k={k}"
        if d > np.linalg.norm(a - b) + 1e-9:
            return f"pbc_min_dist {d} exceeds direct distance for {a}, {b}"
    return None


def eval_history(args):
    """worker: returns (nontrivial, violation text or None)"""
    hist, box, predefined, n_mol, n_node, big = args
    nbe = load("polyply.src.nonbond_engine")
    thr = None
    if big < 0:
        thr, big = -big - 1, 0
    eng, ref, n2g = make_engine(nbe, n_mol, n_node, box, predefined, big=big, thr=thr)
    nontrivial = big > 0
    probes_nodes = [(0, 0, ()), (0, 1, (0,)), (1, 0, ()), (1, 1, (0, 1))]
    probes = [((POINTS[pi] + np.array([0.3, 0.05, 0.0])) % np.asarray(box), m, k, ex) for pi in (0, 2, 3) for (m, k, ex) in probes_nodes
              if k < n_node and all(e < n_node for e in ex)]
    # probes closer than 0.1 nm to a possibly positioned point, queried WITH that residue in the exclusion list
    # (the 0.1 nm floor of the statement applies to every positioned residue, excluded or not)
    probes += [((POINTS[pi] + np.array([0.05, 0.02, 0.0])) % np.asarray(box), m, k, ex) for pi in (0, 1) for (m, k, ex) in probes_nodes
               if k < n_node and all(e < n_node for e in ex) and ex]
    for i, op in enumerate(hist):
        if op[0] in ("remove", "concat") or (op[0] == "add" and n2g[(op[1], op[2])] in ref.pos):
            nontrivial = True
        try:
            apply(eng, ref, n2g, op)
            bad = check_state(eng, ref, n2g, n_mol, n_node, probes) if (big or i == len(hist) - 1) else None
        except Exception as e:        # noqa: BLE001
            bad = f"{type(e).__name__}: {e}"
        if bad:
            return nontrivial, f"after step {i} {op}: {bad}"
    return nontrivial, None


def run(ctx, res):
    import multiprocessing as mp
    rng = random.Random(ctx.seed)
    n_mol, n_node = 2, 2
    exh_len = 2 if not ctx.thorough else 3
    n_random = 1500 if not ctx.thorough else 40000
    boxes = [(5.0, 5.0, 5.0)] if not ctx.thorough else [(5.0, 5.0, 5.0), (5.0, 6.0, 7.0)]
    alphabet = ops_alphabet(n_mol, n_node)
    alphabet3 = ops_alphabet(2, 3)
    res.bound = (f"EXHAUSTIVE: every history of length <= {exh_len} over {len(alphabet)} operations (add at {len(POINTS)} points on both sides of a "
                 f"box face with both start flags, remove of every node subset, consolidate) on {n_mol} molecules x {n_node} nodes, boxes {boxes}, from an "
                 f"empty engine and from one with a predefined residue.  MULTI-TREE WORLD (exhaustive): every history of length <= 3 (thorough 4) over 15 operations with the REAL add_positions whose literal tree threshold 5000 is lowered to 0 and 1 by an AST rewrite at run time.  BEYOND THE BOUND (seeded, not exhaustive): {n_random} random histories of "
                 "length 3..7 on 2 molecules x 3 nodes; on an engine whose first tree holds 5001 points (new-tree threshold): every history of length <= 2 (thorough 3) over a reduced alphabet, 4 scripted and 300 (thorough 3000) random histories of length 3..6")
    res.rule = "history = operation sequence; non-trivial iff it contains a remove, a re-add of a positioned node, a consolidation or crosses the tree threshold"
    res.exhaustive = True
    jobs = []
    for box in boxes:
        for predefined in (None, {(1, 0): np.array([1.2, 1.0, 1.0])}):
            for L in range(1, exh_len + 1):
                for hist in itertools.product(alphabet, repeat=L):
                    jobs.append((hist, box, predefined, n_mol, n_node, 0))
    for _ in range(n_random):
        L = rng.randint(3, 7)
        jobs.append((tuple(rng.choice(alphabet3) for _ in range(L)), rng.choice(boxes), None, 2, 3, 0))
    # multi-tree world: the real add_positions with the literal tree threshold 5000 lowered to 0 / 1 (AST rewrite at run time)
    lowalpha = [o for o in alphabet if o[0] != "add" or o[3] == (o[1] * 2 + o[2]) % 4]
    for thr in (0, 1):
        for L in range(1, (3 if not ctx.thorough else 4) + 1):
            for hist in itertools.product(lowalpha, repeat=L):
                jobs.append((hist, boxes[0], {(1, 0): np.array([1.2, 1.0, 1.0])} if thr else None, 2, 2, -thr - 1))
    big_hists = ([("add", 0, 0, 0, True), ("add", 0, 1, 1, False), ("remove", 0, (0,)), ("add", 1, 0, 0, True), ("concat",), ("remove", 0, (1,))],
                 [("add", 0, 0, 0, True), ("remove", 0, (0,)), ("add", 0, 0, 1, False), ("add", 0, 1, 0, True), ("remove", 0, (0, 1))],
                 [("add", 0, 0, 0, False), ("add", 1, 1, 1, True), ("concat",), ("add", 0, 1, 0, True), ("remove", 1, (1,)), ("remove", 0, (1,))],
                 [("add", 1, 0, 0, False), ("add", 0, 0, 1, True), ("add", 0, 1, 2, False), ("remove", 1, (0,)), ("remove", 0, (0, 1)), ("add", 0, 0, 0, False)])
    for h in big_hists:
        jobs.append((tuple(h), (10.0, 10.0, 10.0), None, 2, 2, 5001))
    # threshold world: exhaustive short histories over a reduced alphabet (2 points) + seeded longer ones
    small = [o for o in alphabet if o[0] != "add" or o[3] == (o[1] * 2 + o[2]) % 4 or (ctx.thorough and o[3] == (o[1] * 2 + o[2] + 1) % 4)]
    for L in range(1, (1 if not ctx.thorough else 3) + 1):
        for hist in itertools.product(small, repeat=L):
            jobs.append((hist, (10.0, 10.0, 10.0), None, 2, 2, 5001))
    for _ in range(60 if not ctx.thorough else 3000):
        jobs.append((tuple(rng.choice(small) for _ in range(rng.randint(3, 6))), (10.0, 10.0, 10.0), None, 2, 2, 5001))
    with mp.Pool(min(16, os.cpu_count() or 1)) as pool:
        out = pool.map(eval_history, jobs, chunksize=8)
    for job, (nt, bad) in zip(jobs, out):
        res.evaluations += 1
        res.nontrivial += int(nt)
        if len(res.samples) < 3 and nt and len(job[0]) >= 3:
            res.samples.append({"history": [str(o) for o in job[0]], "box": job[1], "first_tree_points": job[5]})
        if bad and len(res.violations) < 5:
            res.violations.append(Violation("engine-histories", f"history {[str(o) for o in job[0]]}: {bad}",
                                            inputs={"history": [str(o) for o in job[0]], "box": job[1], "predefined": str(job[2]), "first_tree_points": job[5]},
                                            detail=bad, replayed=True, finding_key="engine-history"))
    nbe = load("polyply.src.nonbond_engine")
    eng, _, _ = make_engine(nbe, 1, 1, (5.0, 6.0, 7.0))
    bad = metric_checks(eng, np.random.default_rng(ctx.seed), 200 if not ctx.thorough else 5000)
    res.evaluations += 1
    if bad:
        res.violations.append(Violation("engine-histories", bad, detail=bad, replayed=True, finding_key="pbc-metric"))
    res.assumptions.append("bounded: scipy KDTree agreement with the minimum-image metric is exercised, not proved")

"""Tier B for C17, C18, C15, C11: executable contracts on the REAL polyply code over enumerated small spaces
(bounded stand-ins; never counted as proved).

  c17-schedules       RandomWalk / BuildSystem under every scripted success/failure schedule
  c18-selections      build-file [ molecule ] / residue ranges, -start / -lig specs, -split (one and several split strings), ligands
  c15-templates       template sharing, centring, virtual sites, optimisation verdict, user templates / volumes
  c11-itp-roundtrip   gen_params -> file -> polyply topology reader -> same molecule; gen_coords accepts it

All oracles are written from the property statements in /verif/properties.jsonl."""
import itertools
import json
import os
import shutil
import tempfile
import zlib
import numpy as np
import networkx as nx
from vlib.realcode import load
from vlib.framework import BUnit, Violation

os.environ.setdefault("TQDM_DISABLE", "1")
os.environ.setdefault("OPENBLAS_NUM_THREADS", "1")
os.environ.setdefault("OMP_NUM_THREADS", "1")
NPROC = min(16, os.cpu_count() or 1)


def _seed_of(*parts):
    return zlib.crc32(repr(parts).encode()) & 0x7FFFFFFF


def _single_thread_blas():
    """16 workers x a BLAS thread pool each makes tiny LAPACK calls (L-BFGS-B in the template optimiser) ~50x slower:
    ask every loaded OpenBLAS for one thread"""
    import ctypes
    try:
        import scipy.optimize      # noqa: F401  (loads scipy's own OpenBLAS)
        with open("/proc/self/maps") as fh:
            libs = sorted({ln.split()[-1] for ln in fh if "openblas" in ln.lower()})
    except Exception:               # noqa: BLE001
        return
    for lib in libs:
        try:
            handle = ctypes.CDLL(lib)
        except OSError:
            continue
        for sym in ("scipy_openblas_set_num_threads64_", "scipy_openblas_set_num_threads", "openblas_set_num_threads64_", "openblas_set_num_threads"):
            fn = getattr(handle, sym, None)
            if fn is not None:
                fn(ctypes.c_int(1))
                break


def _pool_map(fn, jobs, chunksize=4):
    import multiprocessing as mp
    if not jobs:
        return []
    with mp.Pool(NPROC, initializer=_single_thread_blas) as pool:
        return pool.map(fn, jobs, chunksize=chunksize)


def _scratch():
    return tempfile.mkdtemp(prefix="bbuild.", dir="/var/tmp")


def _write(path, text):
    with open(path, "w") as fh:
        fh.write(text)
    return path


def _short(x, n=400):
    s = str(x)
    return s if len(s) <= n else s[:n] + "..."


# ==========================================================================================
#  C17  -- failed placements are rolled back completely; accepted ones never move
# ==========================================================================================

def _path(n, names=None):
    return (tuple(names or ["A"] * n), tuple((i, i + 1) for i in range(n - 1)))


C17_GRAPHS = {
    "path2": _path(2),
    "path3": _path(3, "ABA"),
    "path4": _path(4, "AABA"),
    "path5": _path(5, "ABABA"),
    "path6": _path(6, "AABBAA"),
    "star4": (tuple("BAAA"), ((0, 1), (0, 2), (0, 3))),
    "star5leaf": (tuple("ABAAA"), ((0, 1), (1, 2), (1, 3), (1, 4))),
    "tbranch5": (tuple("AABAA"), ((0, 1), (1, 2), (2, 3), (1, 4))),
    "tbranch6": (tuple("AABABA"), ((0, 1), (1, 2), (2, 3), (1, 4), (4, 5))),
    "ring4": (tuple("AABA"), ((0, 1), (1, 2), (2, 3), (3, 0))),
    "ring5": (tuple("ABAAB"), ((0, 1), (1, 2), (2, 3), (3, 4), (4, 0))),
}
# graphs that only the every-subset-pre-positioned family uses
C17_MORE_GRAPHS = {
    "path7": _path(7, "AABABAA"),
    "path8": _path(8, "AABABBAA"),
}
C17_BOX = 40.0


def c17_top_text(moltypes, counts):
    """a GROMACS topology with one bead per residue; bonds = residue graph"""
    lines = ["[ defaults ]", "1 1 no 1.0 1.0", "", "[ atomtypes ]", "P 72.0 0.0 A 0.47 3.5", ""]
    for name, gname in moltypes:
        resnames, edges = C17_GRAPHS[gname] if gname in C17_GRAPHS else C17_MORE_GRAPHS[gname]
        lines += ["[ moleculetype ]", f"{name} 1", "", "[ atoms ]"]
        for i, rn in enumerate(resnames):
            lines.append(f"{i + 1} P {i + 1} {rn} B {i + 1} 0.0 72.0")
        lines += ["", "[ bonds ]"]
        for a, b in edges:
            lines.append(f"{a + 1} {b + 1} 1 0.47 1000")
        lines.append("")
    lines += ["[ system ]", "bounded", "", "[ molecules ]"]
    for name, c in counts:
        lines.append(f"{name} {c}")
    return "\n".join(lines) + "\n"


def c17_supplied_point(i):
    # supplied (pre-positioned) residues live on the plane z = 38, far from everything else
    return np.array([12.0 + 1.5 * (i % 16), 2.0 + 1.5 * (i // 16), 38.0])


def c17_fresh_point(i):
    # points handed out by the scripted placement step: never reused within a world
    return np.array([0.5 + 1.5 * (i % 6), 0.5 + 1.5 * ((i // 6) % 6), 0.5 + 1.5 * (i // 36)])


def c17_start_grid():
    pts = [(12.0 + 2.0 * i, 2.0 + 2.0 * j, 4.0 + 2.0 * k) for i in range(6) for j in range(6) for k in range(6)]
    return np.array(pts)


def gro_text(points, box):
    lines = ["bounded", str(len(points))]
    for i, p in enumerate(points):
        lines.append("%5d%-5s%5s%5d%8.3f%8.3f%8.3f" % (i + 1, "X", "B", i + 1, p[0], p[1], p[2]))
    lines.append("%10.5f%10.5f%10.5f" % (box, box, box))
    return "\n".join(lines) + "\n"


class C17Bad(Exception):
    def __init__(self, key, text):
        super().__init__(text)
        self.key, self.text = key, text


class C17Budget(Exception):
    pass


class C17Watch:
    """observer + oracle of one world; all expectations come from the statement of C17:
       * the scripted step knows what it placed (model), the engine is the ground truth that is compared
       * at every point where building continues (a placement step, a new attempt, the end) the residues of the
         discarded part must be gone, the kept ones and everything of other molecules must be where they were"""

    def __init__(self, molecules, supplied, schedule, plans, budget=4000):
        self.molecules = molecules
        self.supplied = supplied                # {(mol_idx, node): point}
        self.schedule = schedule
        self.plans = plans                      # {mol_idx: tuple of fail-from indices for the first attempts}
        self.sched_i = 0
        self.calls = 0
        self.budget = budget
        self.fresh = 0
        self.accepted = {}                      # mol_idx -> {node: point} at acceptance
        self.attempt_no = {}                    # mol_idx -> attempts started
        self.cur = None                         # dict describing the running attempt
        self.rewinds = 0
        self.abandoned = 0
        self.attempts = 0
        self.events = []

    # ---- reading the engine (ground truth) --------------------------------------------------
    @staticmethod
    def engine_consistency(eng):
        flat = [g for lst in eng.defined_idxs for g in lst]
        if len(flat) != len(set(flat)):
            return f"a residue is listed more than once in the engine index lists: {sorted(flat)}"
        finite = {int(g) for g in np.where(np.all(np.isfinite(eng.positions), axis=1))[0]}
        partly = {int(g) for g in np.where(np.any(np.isfinite(eng.positions), axis=1))[0]}
        if finite != partly:
            return f"partly defined positions for rows {sorted(partly - finite)}"
        if set(int(g) for g in flat) != finite:
            return f"index lists {sorted(int(g) for g in flat)} != rows with a position {sorted(finite)}"
        if set(int(g) for g in eng.gndx_to_tree) != finite:
            return f"tree lookup {sorted(eng.gndx_to_tree)} != rows with a position {sorted(finite)}"
        if len(eng.position_trees) != len(eng.defined_idxs):
            return "number of trees != number of index lists"
        for t, (tree, lst) in enumerate(zip(eng.position_trees, eng.defined_idxs)):
            if any(eng.gndx_to_tree[g] != t for g in lst):
                return f"tree lookup disagrees with index list {t}"
            data = np.asarray(tree.data).reshape(-1, 3)
            if tree.n != len(lst) or (len(lst) and not np.array_equal(data, eng.positions[lst])):
                return f"search tree {t} holds {tree.n} points, index list {len(lst)} / coordinates differ"
        return None

    def positioned(self, eng, mol_idx):
        out = {}
        for node in self.molecules[mol_idx].nodes:
            p = eng.positions[eng.nodes_to_gndx[(mol_idx, node)]]
            if np.all(np.isfinite(p)):
                out[node] = p.copy()
        return out

    def check_frame(self, eng, this_mol, where):
        """other molecules: accepted ones exactly as accepted, the rest exactly the supplied residues"""
        bad = self.engine_consistency(eng)
        if bad:
            raise C17Bad("c17-engine-inconsistent", f"{where}: {bad}")
        for m in range(len(self.molecules)):
            if m == this_mol:
                continue
            got = self.positioned(eng, m)
            if m in self.accepted:
                want, what, key = self.accepted[m], "previously accepted molecule", "c17-accepted-molecule-changed"
            else:
                want = {n: p for (mm, n), p in self.supplied.items() if mm == m}
                what, key = "molecule that is not being built", "c17-other-molecule-changed"
            if set(got) != set(want) or any(not np.array_equal(got[n], want[n]) for n in want):
                raise C17Bad(key, f"{where}: {what} {m} changed: positioned {self._fmt(got)}, expected {self._fmt(want)}")

    @staticmethod
    def _fmt(d):
        return {k: [round(float(x), 3) for x in v] for k, v in d.items()}

    def check_molecule(self, eng, mol_idx, want, where, discarded=()):
        got = self.positioned(eng, mol_idx)
        for n in discarded:
            if n in got and n not in want:
                raise C17Bad("c17-discarded-residue-still-placed",
                             f"{where}: residue {n} of molecule {mol_idx} belongs to the discarded part but still has the position "
                             f"{self._fmt({n: got[n]})[n]} in the engine")
        for n, p in want.items():
            if n not in got:
                key = "c17-supplied-residue-removed" if (mol_idx, n) in self.supplied else "c17-kept-residue-lost"
                raise C17Bad(key, f"{where}: residue {n} of molecule {mol_idx} lost its position (kept part / supplied)")
            if not np.array_equal(got[n], p):
                key = "c17-supplied-residue-moved" if (mol_idx, n) in self.supplied else "c17-kept-residue-moved"
                raise C17Bad(key, f"{where}: residue {n} of molecule {mol_idx} moved from {p} to {got[n]}")
        extra = set(got) - set(want)
        if extra:
            raise C17Bad("c17-discarded-residue-still-placed",
                         f"{where}: residues {sorted(extra, key=str)} of molecule {mol_idx} are positioned but are not part of what was kept")

    # ---- events ---------------------------------------------------------------------------------
    def supplied_of(self, m):
        return {n: p for (mm, n), p in self.supplied.items() if mm == m}

    def begin_attempt(self, walker, molecule):
        eng, m = walker.nonbond_matrix, walker.mol_idx
        where = f"start of attempt {self.attempt_no.get(m, 0)} on molecule {m}"
        if self.molecules[m] is not molecule:
            raise C17Bad("c17-wrong-molecule", f"{where}: molecule object does not belong to index {m}")
        # building continues here: whatever an earlier abandoned attempt placed has to be gone
        discarded = self.cur["placed_ever"] if self.cur and self.cur["mol"] == m else ()
        self.check_frame(eng, m, where)
        if m in self.accepted:
            raise C17Bad("c17-accepted-molecule-rebuilt", f"{where}: the molecule was accepted before")
        self.check_molecule(eng, m, self.supplied_of(m), where, discarded=discarded)
        k = self.attempt_no.get(m, 0)
        self.attempt_no[m] = k + 1
        plan = self.plans.get(m, ())
        self.cur = {"mol": m, "placed": {}, "placed_ever": set(), "fail_from": plan[k] if k < len(plan) else None,
                    "calls": 0, "last_failed": False, "start_seen": False}
        self.attempts += 1

    def end_attempt(self, walker):
        eng, m = walker.nonbond_matrix, walker.mol_idx
        if walker.success:
            got = self.positioned(eng, m)
            self.accepted[m] = got
        else:
            self.abandoned += 1

    def order_of(self, walker):
        return list(walker.molecule.search_tree.edges)

    def note_start(self, walker):
        """the first residue is placed by the real code; learn it from the engine once"""
        cur = self.cur
        if cur["start_seen"]:
            return
        cur["start_seen"] = True
        eng, m = walker.nonbond_matrix, walker.mol_idx
        got = self.positioned(eng, m)
        new = [n for n in got if (m, n) not in self.supplied]
        if len(new) > 1:
            raise C17Bad("c17-start-placed-many", f"molecule {m}: {new} positioned before the first step")
        for n in new:
            cur["placed"][n] = got[n]
            cur["placed_ever"].add(n)

    def step(self, walker, current_node, prev_node):
        self.calls += 1
        if self.calls > self.budget:
            raise C17Budget()
        eng, m, cur = walker.nonbond_matrix, walker.mol_idx, self.cur
        mol = walker.molecule
        self.note_start(walker)
        order = self.order_of(walker)
        where = f"molecule {m} attempt {self.attempt_no[m] - 1} step call {cur['calls']} ({prev_node}->{current_node})"
        if cur["last_failed"]:
            self.rewinds += 1            # a failed step followed by another step of the same attempt: the walk went back
        if not mol.has_edge(prev_node, current_node):
            raise C17Bad("c17-grown-from-non-neighbour", f"{where}: {prev_node} is not a neighbour of {current_node}")
        if (prev_node, current_node) not in order:
            raise C17Bad("c17-step-not-in-order", f"{where}: not an edge of the walk order {order}")
        k = order.index((prev_node, current_node))
        later = {c for (_, c) in order[k:]}
        # the part at and after the step the walk continues from is discarded
        discarded = {n for n in cur["placed"] if n in later}
        for n in discarded:
            del cur["placed"][n]
        want = dict(self.supplied_of(m))
        want.update(cur["placed"])
        self.check_frame(eng, m, where)
        self.check_molecule(eng, m, want, where, discarded=discarded | {current_node})
        p = eng.positions[eng.nodes_to_gndx[(m, prev_node)]]
        if not np.all(np.isfinite(p)):
            raise C17Bad("c17-grown-from-unpositioned", f"{where}: residue {prev_node} has no position")
        if not mol.nodes[current_node].get("build", True):
            raise C17Bad("c17-supplied-residue-rebuilt", f"{where}: residue {current_node} was supplied")
        # outcome of this step
        if cur["fail_from"] is not None:
            ok = cur["calls"] < cur["fail_from"]
        elif self.sched_i < len(self.schedule):
            ok = self.schedule[self.sched_i]
            self.sched_i += 1
        else:
            ok = True
        cur["calls"] += 1
        cur["last_failed"] = not ok
        if ok:
            point = c17_fresh_point(self.fresh)
            self.fresh += 1
            eng.add_positions(point, m, current_node, start=False)
            cur["placed"][current_node] = point.copy()
            cur["placed_ever"].add(current_node)
        return ok

    def final(self, eng, built):
        where = "end of building"
        bad = self.engine_consistency(eng)
        if bad:
            raise C17Bad("c17-engine-inconsistent", f"{where}: {bad}")
        for m, mol in enumerate(self.molecules):
            got = self.positioned(eng, m)
            missing = [n for n in mol.nodes if n not in got]
            if missing:
                raise C17Bad("c17-final-residue-without-position", f"{where}: residues {missing} of molecule {m} have no position")
            for n in mol.nodes:
                p = mol.nodes[n].get("position")
                if p is None or not np.all(np.isfinite(p)) or not np.array_equal(np.asarray(p, float), got[n]):
                    raise C17Bad("c17-final-molecule-position", f"{where}: molecule {m} residue {n} carries {p}, engine {got[n]}")
            for (mm, n), p in self.supplied.items():
                if mm == m and not np.array_equal(got[n], p):
                    raise C17Bad("c17-supplied-residue-moved", f"{where}: supplied residue {n} of molecule {m} moved {p} -> {got[n]}")
            if m in self.accepted:
                acc = self.accepted[m]
                if set(acc) != set(got) or any(not np.array_equal(acc[n], got[n]) for n in acc):
                    raise C17Bad("c17-accepted-molecule-changed", f"{where}: molecule {m} differs from what was accepted")
            elif m in built:
                raise C17Bad("c17-final-unaccepted", f"{where}: molecule {m} was never accepted")
        pts = [tuple(np.round(eng.positions[g], 6)) for g in range(len(eng.positions))]
        if len(set(pts)) != len(pts):
            raise C17Bad("c17-final-duplicate-position", f"{where}: two residues share a position")


_C17 = {"watch": None, "installed": None}


def c17_install(rw, bs):
    """rebind the placement step and wrap the per-molecule entry point of the REAL RandomWalk class"""
    if _C17["installed"] is rw:
        return
    # the sample of unit vectors is not used by the scripted step: compute it once with the real function
    real_sphere, cache = bs.norm_sphere, {}

    def sphere_once(n):
        if n not in cache:
            cache[n] = real_sphere(n)
        return cache[n]

    bs.norm_sphere = sphere_once
    orig_run = rw.RandomWalk.run_molecule

    def scripted_update_positions(self, vector_bundle, current_node, prev_node):
        return _C17["watch"].step(self, current_node, prev_node)

    def watched_run_molecule(self, meta_molecule):
        w = _C17["watch"]
        w.begin_attempt(self, meta_molecule)
        try:
            return orig_run(self, meta_molecule)
        finally:
            w.end_attempt(self)

    rw.RandomWalk.update_positions = scripted_update_positions
    rw.RandomWalk.run_molecule = watched_run_molecule
    _C17["installed"] = rw


def c17_world(job):
    """worker.  job = dict(kind, moltypes, counts, supplied, skip_res, nrewind, schedule, plans, bs_maxiter, start, dir, id)
    returns (nontrivial, stats, (key, text) or None)"""
    if "mods" not in _C17:      # once per worker process (the tree under verification is fixed for the run)
        _C17["mods"] = tuple(load(f"polyply.src.{m}") for m in ("topology", "build_system", "random_walk", "nonbond_engine"))
    top_mod, bs, rw, nbe = _C17["mods"]
    c17_install(rw, bs)
    np.random.seed(_seed_of("c17", job["id"], job["seed"]))
    d = job["dir"]
    tag = f"w{os.getpid()}"
    stats = {"rewinds": 0, "abandoned": 0, "attempts": 0, "steps": 0}
    try:
        text = c17_top_text(job["moltypes"], job["counts"])
        top_path = os.path.join(d, f"{tag}.top")
        if _C17.get("top_text") != (top_path, text):        # consecutive worlds mostly share the topology file
            _write(top_path, text)
            _C17["top_text"] = (top_path, text)
        top = top_mod.Topology.from_gmx_topfile(top_path, "bounded")
        top.preprocess()
        molecules = top.molecules
        supplied = {}
        if job["n_supplied"] or job["skip_res"]:
            pts = [c17_supplied_point(i) for i in range(job["n_supplied"])]
            gro = _write(os.path.join(d, f"{tag}.gro"), gro_text(pts, C17_BOX))
            top.add_positions_from_file(gro, skip_res=list(job["skip_res"]), resolution="meta_mol")
            # which residues the supplied coordinates belong to: file order over residues not named in skip_res
            i = 0
            for m, mol in enumerate(molecules):
                for n in mol.nodes:
                    if mol.nodes[n]["resname"] in job["skip_res"] or i >= len(pts):
                        continue
                    supplied[(m, n)] = pts[i]
                    i += 1
        for k, (m, n) in enumerate(job.get("supplied_set", ())):
            # an arbitrary subset of residues comes with coordinates: marked the way the coordinate reader marks
            # residue-level coordinates (Topology.add_positions_from_file, resolution meta_mol)
            point = c17_supplied_point(job["n_supplied"] + k)
            molecules[m].nodes[n]["position"] = point.copy()
            molecules[m].nodes[n]["build"] = False
            molecules[m].nodes[n]["backmap"] = True
            supplied[(m, n)] = point
        for m, mol in enumerate(molecules):
            for n in mol.nodes:
                has = "position" in mol.nodes[n]
                if has != ((m, n) in supplied) or (has and not np.allclose(mol.nodes[n]["position"], supplied[(m, n)])):
                    return False, stats, ("c17-world-setup", f"supplied coordinates did not arrive as written at molecule {m} residue {n}")
                if has and mol.nodes[n].get("build", True):
                    return False, stats, ("c17-world-setup", f"supplied residue {n} of molecule {m} is still marked to be built")
        top.volumes = {"A": 0.4, "B": 0.5}
        start_dict = {m: None for m in range(len(molecules))}
        for m, node in job["start"]:
            start_dict[m] = node
            molecules[m].root = node
        watch = C17Watch(molecules, supplied, job["schedule"], dict(job["plans"]))
        _C17["watch"] = watch
        to_build = {m for m, mol in enumerate(molecules) if not all((m, n) in supplied for n in mol.nodes)}
        try:
            if job["kind"] == "system":
                system = bs.BuildSystem(top, density=None, start_dict=start_dict, box=np.array([C17_BOX] * 3),
                                        grid=c17_start_grid(), maxiter=job["bs_maxiter"], nrewind=job["nrewind"])
                system.run_system(molecules)
                eng = system.nonbond_matrix
                watch.final(eng, to_build)
            else:
                # the walk driven directly on an engine made with the constructor (one molecule)
                mol = molecules[0]
                n = len(mol.nodes)
                positions = np.ones((n, 3)) * np.inf
                n2g = {(0, node): i for i, node in enumerate(mol.nodes)}
                for (m, node), p in supplied.items():
                    positions[n2g[(m, node)]] = p
                atypes = [mol.nodes[node]["resname"] for node in mol.nodes]
                inter = {frozenset(["A"]): (0.4, 1.0), frozenset(["B"]): (0.5, 1.0), frozenset(["A", "B"]): (0.45, 1.0)}
                eng = nbe.NonBondEngine(positions, n2g, atypes, inter, None, None, cut_off=1.0, boxsize=np.array([C17_BOX] * 3))
                grid = c17_start_grid()
                ok = False
                for attempt in range(job["bs_maxiter"] + 2):
                    walker = rw.RandomWalk(0, eng, start=grid[np.random.randint(len(grid))], maxdim=np.array([C17_BOX] * 3),
                                           start_node=start_dict[0], nrewind=job["nrewind"])
                    walker.run_molecule(mol)
                    if walker.success:
                        ok = True
                        break
                    # what the statement asks of whoever abandons an attempt is done by the harness here
                    eng.remove_positions(0, [node for node in mol.nodes if (0, node) not in supplied])
                if ok:
                    eng.update_positions_in_molecules([mol])
                    watch.final(eng, to_build)
        except C17Bad as bad:
            stats.update(rewinds=watch.rewinds, abandoned=watch.abandoned, attempts=watch.attempts, steps=watch.calls)
            return True, stats, (bad.key, bad.text)
        except C17Budget:
            return True, stats, ("c17-no-termination", f"more than {watch.budget} placement steps with an all-success tail")
        stats.update(rewinds=watch.rewinds, abandoned=watch.abandoned, attempts=watch.attempts, steps=watch.calls)
        return (watch.rewinds > 0 or watch.abandoned > 0), stats, None
    except Exception as e:      # noqa: BLE001
        import traceback
        tb = traceback.extract_tb(e.__traceback__)[-1]
        return True, stats, ("c17-exception:" + type(e).__name__, f"{type(e).__name__}: {e} at {os.path.basename(tb.filename)}:{tb.lineno}")
    finally:
        _C17["watch"] = None


def c17_schedules(maxlen):
    """every outcome sequence of length <= maxlen; sequences are padded with successes, so only those that
    are empty or end in a failure are distinct"""
    out = [()]
    for L in range(1, maxlen + 1):
        for s in itertools.product((True, False), repeat=L - 1):
            out.append(tuple(s) + (False,))
    return out


def c17_jobs(ctx, d):
    maxlen = 8 if ctx.thorough else 6
    max_abandon = 3 if ctx.thorough else 2
    nrewinds = (1, 2, 3, 5)
    scheds = c17_schedules(maxlen)
    jobs = []

    def add(**kw):
        base = dict(kind="system", moltypes=(("M", "path3"),), counts=(("M", 1),), n_supplied=0, skip_res=(), supplied_set=(), nrewind=5,
                    schedule=(), plans=(), bs_maxiter=800, start=(), dir=d, seed=ctx.seed)
        base.update(kw)
        base["id"] = len(jobs)
        jobs.append(base)

    # (1) one molecule, every schedule x every rewind depth x graph x pre-positioning
    for gname, (resnames, edges) in C17_GRAPHS.items():
        n = len(resnames)
        variants = [dict(n_supplied=0, skip_res=())]
        if n >= 3:
            variants.append(dict(n_supplied=1, skip_res=()))
            variants.append(dict(n_supplied=n // 2, skip_res=())) if n // 2 > 1 else None
            if "B" in resnames and resnames.count("A") >= 1:
                variants.append(dict(n_supplied=resnames.count("A"), skip_res=("B",)))      # all A supplied, B built
                variants.append(dict(n_supplied=resnames.count("B"), skip_res=("A",)))      # all B supplied, A built
        starts = [()]
        if gname in ("path5", "tbranch5", "ring5"):
            starts.append(((0, 2),))
        for var in variants:
            for st in starts:
                if st and var["n_supplied"]:
                    continue
                for nre in nrewinds:
                    for s in scheds:
                        add(moltypes=(("M", gname),), counts=(("M", 1),), nrewind=nre, schedule=s, start=st, **var)
    # (1b) EVERY subset of residues pre-positioned (a supplied residue may sit anywhere, in particular inside the window a rewind
    #      goes back over): all proper non-empty subsets x nrewind (2,3,4) x every schedule, paths 3-6 and both T-branches;
    #      beyond that a seeded sample (path7: every subset, path8: sampled subsets; longer schedules)
    import random as pyrandom
    rng = pyrandom.Random(_seed_of("c17-subsets", ctx.seed))
    sub_scheds = c17_schedules(6 if not ctx.thorough else 7)
    n_subset_worlds = 0
    for gname in ("path3", "path4", "path5", "path6", "tbranch5", "tbranch6"):
        n = len(C17_GRAPHS[gname][0])
        for r in range(1, n):
            for subset in itertools.combinations(range(n), r):
                for nre in (2, 3, 4):
                    for s in sub_scheds:
                        add(moltypes=(("M", gname),), counts=(("M", 1),), nrewind=nre, schedule=s, supplied_set=tuple((0, x) for x in subset))
                        n_subset_worlds += 1

    def random_schedule(lo, hi):
        L = rng.randint(lo, hi)
        return tuple(rng.random() < 0.7 for _ in range(L - 1)) + (False,)
    n7 = 24 if not ctx.thorough else 96
    for r in range(1, 7):
        for subset in itertools.combinations(range(7), r):
            for nre in (2, 3, 4, 5):
                for _ in range(n7 // 4):
                    add(moltypes=(("M", "path7"),), counts=(("M", 1),), nrewind=nre, schedule=random_schedule(3, 9), supplied_set=tuple((0, x) for x in subset))
                    n_subset_worlds += 1
    for _ in range(1500 if not ctx.thorough else 6000):
        subset = tuple(x for x in range(8) if rng.random() < 0.3)
        if not subset or len(subset) == 8:
            continue
        add(moltypes=(("M", "path8"),), counts=(("M", 1),), nrewind=rng.choice((2, 3, 4, 5, 6)), schedule=random_schedule(4, 10),
            supplied_set=tuple((0, x) for x in subset))
        n_subset_worlds += 1
    # two molecules, supplied residues in the middle of the second, abandoned attempts on top
    for subset in ((1,), (2,), (1, 3), (0, 2), (3,)):
        for nre in (2, 3, 4):
            for s in c17_schedules(4):
                for p1 in ((), (1,), (2, 0)):
                    add(moltypes=(("M", "path5"),), counts=(("M", 2),), nrewind=nre, schedule=s, plans=((1, p1),), bs_maxiter=1,
                        supplied_set=tuple((1, x) for x in subset))
                    n_subset_worlds += 1
    # (2) the walk driven directly (engine from the constructor), shorter schedules
    for gname in ("path4", "tbranch5", "ring4"):
        for nre in nrewinds:
            for s in c17_schedules(4 if not ctx.thorough else 6):
                for nsup in (0, 2):
                    add(kind="direct", moltypes=(("M", gname),), counts=(("M", 1),), nrewind=nre, schedule=s, n_supplied=nsup, bs_maxiter=3)
    # (3) 2-3 molecules, abandoned attempts scripted per molecule (fail from the f-th step of the attempt on),
    #     both give-up branches of the attempt loop (maxiter 0/1 reach the final branch)
    fs2 = (0, 1, 2)
    plans2 = [p for L in range(0, max_abandon + 1) for p in itertools.product(fs2, repeat=L)]
    systems = [((("M", "path3"),), (("M", 2),)), ((("M", "tbranch5"), ("N", "path3")), (("M", 1), ("N", 1))),
               ((("M", "path4"), ("N", "ring4")), (("N", 1), ("M", 1)))]
    short = c17_schedules(2)
    for moltypes, counts in systems:
        for p0 in plans2:
            for p1 in plans2:
                if not ctx.thorough and len(p0) + len(p1) > 3:
                    continue
                for nre in nrewinds:
                    for bsmax in (0, 1, 800):
                        for s in (short if len(p0) + len(p1) <= 1 else [()]):
                            add(moltypes=moltypes, counts=counts, nrewind=nre, schedule=s, plans=((0, p0), (1, p1)), bs_maxiter=bsmax)
    # with supplied residues in the molecule whose attempts are abandoned, and a fully supplied first molecule
    for p1 in plans2:
        for nre in nrewinds:
            for bsmax in (0, 1, 800):
                add(moltypes=(("M", "path4"),), counts=(("M", 2),), n_supplied=5, nrewind=nre, plans=((1, p1),), bs_maxiter=bsmax)
                add(moltypes=(("M", "path4"),), counts=(("M", 2),), n_supplied=2, nrewind=nre, plans=((0, p1), (1, p1[:1])), bs_maxiter=bsmax)
                add(moltypes=(("M", "path5"),), counts=(("M", 2),), n_supplied=4, skip_res=("B",), nrewind=nre,
                    plans=((0, p1), (1, p1[::-1])), bs_maxiter=bsmax)
    fs3 = (0, 2)
    plans3 = [p for L in range(0, max_abandon + 1) for p in itertools.product(fs3, repeat=L)]
    for p0 in plans3:
        for p1 in plans3:
            for p2 in plans3:
                if not ctx.thorough and len(p0) + len(p1) + len(p2) > 4:
                    continue
                for nre in (2, 5) if not ctx.thorough else nrewinds:
                    for bsmax in (0, 800):
                        add(moltypes=(("M", "path3"), ("N", "star4")), counts=(("M", 1), ("N", 1), ("M", 1)), nrewind=nre,
                            plans=((0, p0), (1, p1), (2, p2)), bs_maxiter=bsmax)
    return jobs, maxlen, max_abandon, len(scheds), n_subset_worlds


def run_c17(ctx, res):
    d = _scratch()
    try:
        jobs, maxlen, max_abandon, nsched, n_subset_worlds = c17_jobs(ctx, d)
        out = _pool_map(c17_world, jobs, chunksize=16)
    finally:
        shutil.rmtree(d, ignore_errors=True)
    tot = {"rewinds": 0, "abandoned": 0, "attempts": 0, "steps": 0}
    for job, (nt, stats, bad) in zip(jobs, out):
        res.evaluations += 1
        res.nontrivial += int(bool(nt))
        for k in tot:
            tot[k] += stats[k]
        desc = {k: job[k] for k in ("kind", "moltypes", "counts", "n_supplied", "skip_res", "supplied_set", "nrewind", "schedule", "plans", "bs_maxiter", "start")}
        if nt and not bad and len(res.samples) < 3 and stats["rewinds"] and (stats["abandoned"] or len(res.samples) < 2):
            res.samples.append(dict(desc, observed=stats))
        if bad and len(res.violations) < 25 and bad[0] not in {v.finding_key for v in res.violations}:
            res.violations.append(Violation("c17-schedules", _short(f"{bad[1]}  [world {json.dumps(desc, default=str)}]", 900),
                                            inputs=json.loads(json.dumps(desc, default=str)), detail=bad[1], replayed=True, finding_key=bad[0]))
    res.bound = (f"EXHAUSTIVE: every success/failure schedule of the single placement step of length <= {maxlen} (padded with successes: {nsched} distinct) "
                 f"x nrewind in (1,2,3,5) x {len(C17_GRAPHS)} residue graphs (paths 2-6, two stars, two T-branches, rings of 4 and 5 opened by the search tree; "
                 "start residue default or in the middle) x pre-positioned residues (none, first residue, first half, all A / all B via the real "
                 "coordinate reader with -res) through the REAL BuildSystem + NonBondEngine.from_topology; EVERY proper non-empty SUBSET of residues pre-positioned "
                 f"(marked as the coordinate reader marks them, engine from from_topology) x nrewind in (2,3,4) x every schedule of length <= {6 if not ctx.thorough else 7} on paths 3-6 and both T-branches, "
                 "plus SEEDED (not exhaustive): every subset of a path of 7 x nrewind 2-5 x random schedules of length 3-9, random subsets of a path of 8 x nrewind 2-6 x random schedules of "
                 f"length 4-10, two molecules with supplied residues inside the second and abandoned attempts ({n_subset_worlds} subset worlds); the same on RandomWalk driven directly on a "
                 f"constructor-made engine (3 graphs, schedules <= {4 if not ctx.thorough else 6}); 2 and 3 molecules with every plan of <= {max_abandon} scripted abandoned attempts per molecule "
                 "(attempt fails from its f-th step on, f in 0..2) x nrewind x attempt limit in (0,1,800) so that both give-up branches run, "
                 f"with and without supplied residues.  {len(jobs)} worlds, {tot['steps']} scripted steps, {tot['rewinds']} rewinds, {tot['abandoned']} abandoned attempts observed")
    res.rule = ("world = (residue graphs, supplied residues, nrewind, step schedule, per-molecule abandon plan, attempt limit); RandomWalk.update_positions is rebound in-process "
                "to a scripted step that places through the real engine at a fresh point or places nothing; the engine state is compared with the statement after every step, "
                "at every attempt start and at the end.  Non-trivial iff >= 1 rewind (a failed step followed by another step of the same attempt) or >= 1 abandoned attempt was observed")
    res.exhaustive = True
    res.assumptions.append("bounded: the first residue of an attempt is placed by the real code at a start-grid point; natural start overlaps are counted as abandoned attempts")
    res.assumptions.append("termination of the walk is only observed under all-success tails (budget 4000 steps), not claimed")


# ==========================================================================================
#  C18  -- build options select exactly the molecules and residues they name
# ==========================================================================================

# molecule types: name -> list of (resid, resname); one bead per residue, residues on a path
C18_TYPES = {"A": [(1, "X"), (2, "X"), (3, "Y"), (4, "X")],
             "B": [(1, "X"), (2, "Y"), (3, "Y")],
             "L": [(1, "W")]}
C18_COUNTS = [("A", 2), ("B", 1), ("A", 2), ("L", 4)]
C18_NAMES = [n for n, c in C18_COUNTS for _ in range(c)]          # molecule index -> name
C18_SIZES = {"X": 0.4, "Y": 0.5, "W": 0.3}


def c18_top_text(types=C18_TYPES, counts=C18_COUNTS):
    lines = ["[ defaults ]", "1 1 no 1.0 1.0", "", "[ atomtypes ]", "P 72.0 0.0 A 0.47 3.5", ""]
    for name, residues in types.items():
        lines += ["[ moleculetype ]", f"{name} 1", "", "[ atoms ]"]
        for i, (resid, rn) in enumerate(residues):
            # the atom name differs per residue name: residues with equal labelled graphs share a template and a size (C15)
            lines.append(f"{i + 1} P {resid} {rn} B{rn} {i + 1} 0.0 72.0")
        if len(residues) > 1:
            lines += ["", "[ bonds ]"]
            for i in range(len(residues) - 1):
                lines.append(f"{i + 1} {i + 2} 1 0.47 1000")
        lines.append("")
    lines += ["[ system ]", "bounded", "", "[ molecules ]"]
    for name, c in counts:
        lines.append(f"{name} {c}")
    return "\n".join(lines) + "\n"


def c18_load_top(d, tag, text=None):
    top_mod = load("polyply.src.topology")
    path = _write(os.path.join(d, f"{tag}.top"), text or c18_top_text())
    top = top_mod.Topology.from_gmx_topfile(path, "bounded")
    top.preprocess()
    return top


def _floats_in(x, out):
    if isinstance(x, (list, tuple, np.ndarray)):
        for y in x:
            _floats_in(y, out)
    elif isinstance(x, (int, float, np.floating, np.integer)) and not isinstance(x, bool):
        out.append(float(x))
    return out


def c18_directive_line(kind, resname, s, t, sig):
    """one residue-level directive; `sig` is a number unique to the directive by which it is recognised on a node,
    whatever the representation the package chooses"""
    if kind == "sphere":
        return f"{resname} {s} {t} in 1.0 2.0 3.0 {sig}"
    if kind == "cylinder":
        return f"{resname} {s} {t} out 1.0 2.0 3.0 {sig} 2.5"
    if kind == "rectangle":
        return f"{resname} {s} {t} in 1.0 2.0 3.0 {sig} 6.5 7.5"
    return f"{resname} {s} {t} 0.0 0.0 1.0 {sig}"            # rw_restriction: normal + angle


def c18_build_text(blocks):
    """blocks = [(molname, a, b, [(kind, resname, s, t, sig), ...]), ...]"""
    lines = []
    for molname, a, b, directives in blocks:
        lines += ["[ molecule ]", "; name from to", f"{molname} {a} {b}"]
        for kind, resname, s, t, sig in directives:
            lines += [f"[ {kind} ]", c18_directive_line(kind, resname, s, t, sig)]
    return "\n".join(lines) + "\n"


def c18_expected_tags(blocks):
    """statement: a block reaches molecule i iff name equal and a <= i < b; a directive reaches a residue iff
    resname equal and start <= resid < stop.  -> {(mol_idx, resid): {"restraints": [sig..], "rw_options": [sig..]}}"""
    want = {}
    for molname, a, b, directives in blocks:
        for i, name in enumerate(C18_NAMES):
            if name != molname or not (a <= i < b):
                continue
            for kind, resname, s, t, sig in directives:
                for resid, rn in C18_TYPES[name]:
                    if rn == resname and s <= resid < t:
                        key = "rw_options" if kind == "rw_restriction" else "restraints"
                        want.setdefault((i, resid), {"restraints": [], "rw_options": []})[key].append(sig)
    return want


def c18_buildfile_chunk(job):
    """worker: list of build files on one topology; returns list of (nontrivial, (key, text) or None)"""
    d, tag, worlds = job
    ll = load("polyply.src.load_library")
    from pathlib import Path
    top = c18_load_top(d, tag)
    out = []
    base = [{n: dict(mol.nodes[n]) for n in mol.nodes} for mol in top.molecules]
    for blocks in worlds:
        bad = None
        want = c18_expected_tags(blocks)
        try:
            path = _write(os.path.join(d, f"{tag}.bld"), c18_build_text(blocks))
            ll.load_build_files(top, None, [Path(path)])
            for i, mol in enumerate(top.molecules):
                for n in mol.nodes:
                    attrs = mol.nodes[n]
                    resid = attrs["resid"]
                    exp = want.get((i, resid), {"restraints": [], "rw_options": []})
                    for key in ("restraints", "rw_options"):
                        opts = attrs.get(key, [])
                        sigs = []
                        for o in opts:
                            fl = _floats_in(o, [])
                            hit = [sg for (_, _, _, ds) in blocks for (_, _, _, _, sg) in ds if any(abs(x - sg) < 1e-9 for x in fl)]
                            sigs.append(hit[0] if len(hit) == 1 else None)
                        if sorted(map(str, sigs)) != sorted(map(str, exp[key])):
                            fk = "c18-buildfile-selection"
                            n_rw = sum(1 for (mn, a, b, ds) in blocks if mn == C18_NAMES[i] and a <= i < b for dd in ds if dd[0] == "rw_restriction")
                            if key == "rw_options" and n_rw > 1 and set(sigs) < set(exp[key]):
                                # more than one rw_restriction line reaches this molecule and some of them are missing
                                fk = "c18-rw-restriction-overwritten"
                            bad = (fk, f"molecule {i} ({C18_NAMES[i]}) residue {attrs['resname']}{resid}: {key} carries directives {sigs}, "
                                       f"the build file selects {exp[key]}")
                            break
                    if bad:
                        break
                    rest = {k: v for k, v in attrs.items() if k not in ("restraints", "rw_options")}
                    if set(rest) != set(base[i][n]) or any(rest[k] is not base[i][n][k] and rest[k] != base[i][n][k] for k in rest
                                                           if k != "graph"):
                        bad = ("c18-buildfile-frame", f"molecule {i} residue {resid}: attributes other than the option changed")
                        break
                if bad:
                    break
        except Exception as e:      # noqa: BLE001
            bad = ("c18-buildfile-exception:" + type(e).__name__, f"{type(e).__name__}: {e}")
        finally:
            for mol in top.molecules:
                for n in mol.nodes:
                    mol.nodes[n].pop("restraints", None)
                    mol.nodes[n].pop("rw_options", None)
        n_sel = len(want)
        n_all = sum(len(C18_TYPES[nm]) for nm in C18_NAMES)
        out.append((0 < n_sel < n_all, bad))
    return out


def c18_buildfile_worlds(ctx):
    geo = ("sphere", "cylinder", "rectangle")
    worlds = []
    nmol = len(C18_NAMES)
    mol_ranges = [(a, b) for a in range(0, 6) for b in range(a, 6)] + [(3, 1), (4, nmol + 2)]
    res_ranges = [(s, t) for s in range(1, 6) for t in range(s, 6)] + [(3, 2), (0, 9)]
    k = 0
    # one block, one directive: every molecule range x every resid range x names (one absent from the topology)
    for molname in ("A", "B", "C"):
        for (a, b) in mol_ranges:
            for resname in ("X", "Y"):
                for (s, t) in res_ranges:
                    k += 1
                    kind = geo[k % 3] if k % 4 else "rw_restriction"
                    worlds.append([(molname, a, b, [(kind, resname, s, t, 7.0 + 0.125)])])
    # two blocks (overlapping / adjacent / nested / empty molecule ranges, repeated and different names),
    # two directives each (overlapping / adjacent resid ranges)
    mr = [(0, 2), (1, 4), (2, 5), (0, 5), (4, 4), (3, 5)]
    rr = [(1, 3), (2, 4), (3, 5), (1, 5)] if not ctx.thorough else [(1, 3), (2, 4), (3, 5), (1, 5), (2, 2), (4, 5)]
    kinds2 = [("sphere", "cylinder"), ("rectangle", "rw_restriction"), ("rw_restriction", "rw_restriction")]
    for (a1, b1) in mr:
        for n2 in ("A", "B"):
            for (a2, b2) in mr:
                for r1 in rr:
                    for r2 in rr:
                        for k1, k2 in kinds2:
                            worlds.append([("A", a1, b1, [(k1, "X", r1[0], r1[1], 7.125)]),
                                           (n2, a2, b2, [(k2, "X", r2[0], r2[1], 8.25)])])
                            if r1 < r2:
                                worlds.append([("A", a1, b1, [(k1, "X", r1[0], r1[1], 7.125), (k2, "Y", r2[0], r2[1], 8.25)]),
                                               (n2, a2, b2, [(k1, "Y", r2[0], r2[1], 9.5)])])
    return worlds


# ---- residue specifications ------------------------------------------------------------------

def c18_spec_string(molname, idx, resname, resid):
    s = (molname or "")
    if idx is not None:
        s += f"#{idx}"
    if resname is not None or resid is not None:
        s += "-" + (resname or "")
        if resid is not None:
            s += f"#{resid}"
    return s


def c18_spec_matches_mol(i, molname, idx):
    return (molname is None or C18_NAMES[i] == molname) and (idx is None or i == idx)


def c18_spec_nodes(top, i, resname, resid):
    mol = top.molecules[i]
    return [n for n in mol.nodes if (resname is None or mol.nodes[n]["resname"] == resname)
            and (resid is None or mol.nodes[n]["resid"] == resid)]


def c18_specs_chunk(job):
    d, tag, specs = job
    al = load("polyply.src.annotate_ligands")
    gc = load("polyply.src.gen_coords")
    top = c18_load_top(d, tag)
    out = []
    for (molname, idx, resname, resid) in specs:
        text = c18_spec_string(molname, idx, resname, resid)
        bad = None
        nontrivial = sum(v is None for v in (molname, idx, resname, resid)) >= 1
        try:
            got = al.parse_residue_spec(text)
            want = {}
            if molname is not None:
                want["molname"] = molname
            if idx is not None:
                want["mol_idx"] = idx
            if resname is not None:
                want["resname"] = resname
            if resid is not None:
                want["resid"] = resid
            if set(got) != set(want) or any(got[k] != want[k] for k in want) or ("mol_idx" in got and int(got["mol_idx"]) != got["mol_idx"]):
                bad = ("c18-spec-parse", f"spec '{text}' parsed as {got}, written fields {want}")
            # node lookup inside one molecule
            if not bad:
                for i in range(len(top.molecules)):
                    nodes = list(al._find_nodes(top.molecules[i], got))
                    if sorted(nodes) != sorted(c18_spec_nodes(top, i, resname, resid)):
                        bad = ("c18-spec-find-nodes", f"spec '{text}' in molecule {i}: nodes {nodes}, expected {c18_spec_nodes(top, i, resname, resid)}")
                        break
        except Exception as e:      # noqa: BLE001
            bad = ("c18-spec-exception:" + type(e).__name__, f"spec '{text}': {type(e).__name__}: {e}")
        if not bad:
            # -start
            sel = [i for i in range(len(top.molecules)) if c18_spec_matches_mol(i, molname, idx)]
            cand = {i: c18_spec_nodes(top, i, resname, resid) for i in sel}
            try:
                sd = gc.find_starting_node_from_spec(top, [text])
                err = None
            except Exception as e:      # noqa: BLE001
                sd, err = None, f"{type(e).__name__}: {e}"
            finally:
                for mol in top.molecules:
                    mol.root = None
            every_selected_has_a_match = bool(sel) and all(cand[i] for i in sel) and text != ""
            if err is not None:
                if every_selected_has_a_match:
                    key = "c18-start-without-molecule-field" if (molname is None and idx is None) else "c18-start-exception"
                    bad = (key, f"-start '{text}' names residues in molecules {sel} (e.g. node {cand[sel[0]][0]} of molecule {sel[0]}) but raises {err}")
            else:
                for i in range(len(top.molecules)):
                    v = sd.get(i)
                    if i in sel and cand[i]:
                        if v not in cand[i]:
                            bad = ("c18-start-selection", f"-start '{text}': molecule {i} starts at {v}, the spec names {cand[i]}")
                            break
                    elif v is not None:
                        key = "c18-start-molname-ignored" if (molname is not None and idx == i and C18_NAMES[i] != molname) else "c18-start-selection"
                        bad = (key, f"-start '{text}': molecule {i} ({C18_NAMES[i]}) is not named by the spec but starts at node {v}")
                        break
        out.append((nontrivial, bad))
    return out


# ---- -split ----------------------------------------------------------------------------------

def c18_split_top_text(atoms, bonds):
    """molecule A = X(2 atoms) - S(atoms) - S(atoms) - X(2 atoms), molecule B = S - X; `bonds` inside S by atom name"""
    def moltype(name, residues):
        lines = ["[ moleculetype ]", f"{name} 1", "", "[ atoms ]"]
        idx, first, last, blines = 1, [], [], []
        for resid, (rn, names, rbonds) in enumerate(residues, start=1):
            where = {}
            for an in names:
                lines.append(f"{idx} P {resid} {rn} {an} {idx} 0.0 72.0")
                where[an] = idx
                idx += 1
            for x, y in rbonds:
                blines.append(f"{where[x]} {where[y]} 1 0.3 1000")
            first.append(where[names[0]])
            last.append(where[names[-1]])
        for r in range(len(residues) - 1):
            blines.append(f"{last[r]} {first[r + 1]} 1 0.3 1000")
        return lines + ["", "[ bonds ]"] + blines + [""]
    xres = ("X", ["a", "b"], [("a", "b")])
    sres = ("S", list(atoms), list(bonds))
    lines = ["[ defaults ]", "1 1 no 1.0 1.0", "", "[ atomtypes ]", "P 72.0 0.0 A 0.47 3.5", ""]
    lines += moltype("A", [xres, sres, sres, xres]) + moltype("B", [sres, xres])
    lines += ["[ system ]", "bounded", "", "[ molecules ]", "A 1", "B 1"]
    return "\n".join(lines) + "\n"


def _set_partitions(items, kmin, kmax):
    items = list(items)

    def rec(i, parts):
        if i == len(items):
            if kmin <= len(parts) <= kmax:
                yield [list(p) for p in parts]
            return
        for j in range(len(parts)):
            parts[j].append(items[i])
            yield from rec(i + 1, parts)
            parts[j].pop()
        if len(parts) < kmax:
            parts.append([items[i]])
            yield from rec(i + 1, parts)
            parts.pop()
    yield from rec(0, [])


def c18_split_check(mol, m, strings, spec):
    """the statement, on one molecule: call split_residue(strings) and compare the result with
    spec = {old residue name: [(new residue name, [atom names]), ...]} (one entry per split string).  After the split every atom is in exactly one
    residue; every old residue whose name is addressed is partitioned into exactly the named new residues (each holds exactly the listed atoms of that ONE
    old residue, carries the new name, atoms and residue node agree on the resid); residues that are not addressed keep their atoms and name; residue ids are
    unique.  -> (finding key, text) or None"""
    said = f"split_residue({strings})"
    before = {}          # atom -> (resname, resid, atomname)
    for a in mol.molecule.nodes:
        nd = mol.molecule.nodes[a]
        before[a] = (nd["resname"], nd["resid"], nd["atomname"])
    old_res = {}
    for a, (rn, rid, an) in before.items():
        old_res.setdefault((rn, rid), set()).add(a)
    mol.split_residue(list(strings))
    # the residue graph after the split, as the package reports it
    seen = {}
    for n in mol.nodes:
        g = mol.nodes[n].get("graph")
        if g is None or len(g.nodes) == 0:
            return ("c18-split-residue-without-atoms", f"molecule {m}: residue node {n} has no atoms after {said}")
        for a in g.nodes:
            if a in seen:
                return ("c18-split-atom-duplicated", f"molecule {m}: atom {a} is in residues {seen[a]} and {n} after {said}")
            seen[a] = n
    lost = set(before) - set(seen)
    if lost or set(seen) - set(before):
        return ("c18-split-atom-lost", f"molecule {m}: atoms {sorted(lost)} are in no residue after {said}")
    # expected partition: every old residue with an addressed name falls apart into the named parts, all other residues stay
    ngroups = 0
    for (rn, rid), members in old_res.items():
        if rn not in spec:
            groups = [(rn, members)]
        else:
            groups = [(nm, {a for a in members if before[a][2] in p}) for nm, p in spec[rn]]
        for nm, grp in groups:
            ngroups += 1
            homes = {seen[a] for a in grp}
            if len(homes) != 1:
                return ("c18-split-part-scattered", f"molecule {m}: atoms {sorted(grp)} of new residue {nm} (old {rn}{rid}) ended in residues {sorted(homes)} after {said}")
            home = homes.pop()
            got_atoms = set(mol.nodes[home]["graph"].nodes)
            if got_atoms != grp:
                return ("c18-split-wrong-atoms", f"molecule {m}: residue {home} holds atoms {sorted((a, before[a][0] + str(before[a][1]), before[a][2]) for a in got_atoms)}, "
                                                 f"expected exactly {sorted(grp)} ({nm} from {rn}{rid}) after {said}")
            if mol.nodes[home]["resname"] != nm or any(mol.molecule.nodes[a]["resname"] != nm for a in grp):
                return ("c18-split-wrong-name", f"molecule {m}: residue {home} is named {mol.nodes[home]['resname']}, expected {nm} after {said}")
            if any(mol.molecule.nodes[a]["resid"] != mol.nodes[home]["resid"] for a in grp):
                return ("c18-split-resid-mismatch", f"molecule {m}: atoms of residue {home} carry a different resid than the residue after {said}")
    if len(mol.nodes) != ngroups:
        return ("c18-split-wrong-atoms", f"molecule {m}: {len(mol.nodes)} residues after {said}, expected {ngroups}")
    resids = [mol.nodes[n]["resid"] for n in mol.nodes]
    if len(set(resids)) != len(resids):
        return ("c18-split-resid-not-unique", f"molecule {m}: residue ids after {said}: {resids}")
    missing = [n for n in mol.nodes if "build" not in mol.nodes[n] or "backmap" not in mol.nodes[n]]
    if missing:
        return ("c18-split-missing-build-attr", f"molecule {m}: residues {missing} have no 'build'/'backmap' attribute after {said} "
                                                "(every other residue node of a MetaMolecule has them; the random walk and the backmapper read them)")
    return None


def c18_split_world(job):
    d, tag, atoms, bonds, parts, names = job
    bad = None
    try:
        top = c18_load_top(d, tag, c18_split_top_text(atoms, bonds))
        split_string = "S:" + ":".join(f"{nm}-{','.join(p)}" for nm, p in zip(names, parts))
        for m, mol in enumerate(top.molecules):
            bad = c18_split_check(mol, m, [split_string], {"S": list(zip(names, parts))})
            if bad:
                break
    except Exception as e:      # noqa: BLE001
        bad = ("c18-split-exception:" + type(e).__name__, f"{type(e).__name__}: {e}")
    return True, bad


# ---- -split with several split strings at once (gen_coords -split a b ...) ---------------------------

# residue types of the several-strings worlds: name -> (atom names, bonds inside the residue); M and T share atom names, E shares none
C18_MS_TYPES = {"M": ("abc", (("a", "b"), ("b", "c"))), "E": ("de", (("d", "e"),)), "T": ("ab", (("a", "b"),))}
# the ways a residue type is cut (connected parts, every atom in one part)
C18_MS_CUTS = {"M": ((("a", "b"), ("c",)), (("a",), ("b",), ("c",)), (("a",), ("b", "c"))), "E": ((("d",), ("e",)),), "T": ((("a",), ("b",)),)}
C18_MS_TREES = {"star4": ((0, 1), (0, 2), (0, 3)), "tbranch5": ((0, 1), (1, 2), (2, 3), (1, 4)), "tbranch6": ((0, 1), (1, 2), (2, 3), (1, 4), (4, 5))}
C18_MS_SCHEMES = ("distinct", "shared-first", "shared-all", "own-name", "unaddressed-name", "swapped-names")


def c18_ms_top_text(resnames, edges):
    """one molecule type: residue i+1 has the type resnames[i]; residue edge (p, c): last atom of p bonded to the first atom of c"""
    lines = ["[ defaults ]", "1 1 no 1.0 1.0", "", "[ atomtypes ]", "P 72.0 0.0 A 0.47 3.5", "", "[ moleculetype ]", "A 1", "", "[ atoms ]"]
    idx, first, last, blines = 1, [], [], []
    for resid, rn in enumerate(resnames, start=1):
        names, rbonds = C18_MS_TYPES[rn]
        where = {}
        for an in names:
            lines.append(f"{idx} P {resid} {rn} {an} {idx} 0.0 72.0")
            where[an] = idx
            idx += 1
        for x, y in rbonds:
            blines.append(f"{where[x]} {where[y]} 1 0.3 1000")
        first.append(where[names[0]])
        last.append(where[names[-1]])
    for p, c in edges:
        blines.append(f"{last[p]} {first[c]} 1 0.3 1000")
    lines += ["", "[ bonds ]"] + blines + ["", "[ system ]", "bounded", "", "[ molecules ]", "A 1"]
    return "\n".join(lines) + "\n"


def c18_ms_names(scheme, order, cuts, resnames):
    """new residue names for the split strings of the residue types `order` (cut as `cuts`) -> {type: (name per part)} or None when the scheme
    does not apply to this molecule / would make the strings ambiguous"""
    fresh = iter(("P", "Q", "R", "V", "W", "Y", "Z", "K", "L"))
    out = {k: [next(fresh) for _ in cuts[k]] for k in order}
    if scheme == "distinct":                    # (a)
        pass
    elif scheme == "shared-first":              # (b) one new name used by every string
        for k in order:
            out[k][0] = "BB"
    elif scheme == "shared-all":                # (b) the i-th part of every string has the same name
        for k in order:
            out[k] = ["BB", "SC", "TP"][:len(cuts[k])]
    elif scheme == "own-name":                  # (c) a part keeps the name of the residue that is split
        for k in order:
            out[k][0] = k
    elif scheme == "unaddressed-name":          # (c) a part of every string takes the name of a residue type of the molecule that no string addresses
        others = sorted(set(resnames) - set(order))
        if not others:
            return None
        for k in order:
            out[k][-1] = others[0]
    elif scheme == "swapped-names":
        # (c) a part takes the name of ANOTHER residue type that is split; only where no atom name occurs in two of the types, so that
        # every string names the same atoms whether it is read against the old or the new residue names
        atoms = [a for k in order for a in C18_MS_TYPES[k][0]]
        if len(set(atoms)) != len(atoms):
            return None
        for i, k in enumerate(order):
            out[k][0] = order[(i + 1) % len(order)]
    return {k: tuple(v) for k, v in out.items()}


def c18_ms_strings(world):
    resnames, edges, order, cuts, names = world
    return [f"{k}:" + ":".join(f"{nm}-{','.join(p)}" for nm, p in zip(names[k], cuts[k])) for k in order]


def c18_ms_chunk(job):
    """several split strings in ONE split_residue call, as gen_coords does with `-split a b`"""
    d, tag, worlds = job
    out = []
    for w, world in enumerate(worlds):
        resnames, edges, order, cuts, names = world
        bad = None
        try:
            top = c18_load_top(d, f"{tag}_{w}", c18_ms_top_text(resnames, edges))
            strings = c18_ms_strings(world)
            spec = {k: list(zip(names[k], cuts[k])) for k in order}
            for m, mol in enumerate(top.molecules):
                bad = c18_split_check(mol, m, strings, spec)
                if bad:
                    break
        except Exception as e:      # noqa: BLE001
            bad = ("c18-split-exception:" + type(e).__name__, f"several split strings: {type(e).__name__}: {e}")
        # non-trivial: at least two of the strings address a residue of the molecule
        out.append((sum(1 for k in order if k in resnames) >= 2, bad))
    return out


def _c18_ms_sequences(n, types):
    return [s for s in itertools.product(types, repeat=n) if set(s) == set(types)]


def c18_ms_worlds(ctx):
    """(residue names, residue edges, order of the split strings, cut per type, new names per type)"""
    worlds, seen = [], set()

    def add(resnames, edges, order, cuts, scheme):
        names = c18_ms_names(scheme, order, cuts, resnames)
        if names is None:
            return
        world = (tuple(resnames), tuple(edges), tuple(order), dict(cuts), names)
        key = (world[0], world[1], tuple(c18_ms_strings(world)))
        if key not in seen:
            seen.add(key)
            worlds.append(world)

    def chain(n):
        return tuple((i, i + 1) for i in range(n - 1))
    first_cut = {k: v[0] for k, v in C18_MS_CUTS.items()}
    if not ctx.thorough:
        for n in (2, 3):                                         # every order of two names, both orders of the strings
            for seq in _c18_ms_sequences(n, "ME"):
                for scheme in ("distinct", "shared-first", "own-name"):
                    for order in ("ME", "EM"):
                        add(seq, chain(n), order, first_cut, scheme)
        for k, seq in enumerate(_c18_ms_sequences(3, "MET")):    # every order of three names: three strings, and two strings + a name nobody addresses
            orders = list(itertools.permutations("MET"))
            add(seq, chain(3), orders[k], first_cut, "distinct")
            add(seq, chain(3), orders[(k + 1) % 6], first_cut, "shared-all")
            add(seq, chain(3), ("ME", "EM")[k % 2], first_cut, "unaddressed-name")
        for tree, seq in (("star4", "EMMM"), ("tbranch5", "MEMME")):
            for scheme in ("distinct", "shared-first", "own-name"):
                add(seq, C18_MS_TREES[tree], "ME", first_cut, scheme)
        return worlds
    # two names: every order on chains of 2-6 x both orders of the strings x every scheme; (M, E) with two cuts of M, (M, T) share atom names
    for n in range(2, 7):
        for pair in ("ME", "MT"):
            for seq in _c18_ms_sequences(n, pair):
                for mcut in C18_MS_CUTS["M"][:2 if pair == "ME" else 1]:
                    cuts = dict(first_cut, M=mcut)
                    for scheme in ("distinct", "shared-first", "shared-all", "own-name", "swapped-names"):
                        for order in (pair, pair[::-1]):
                            add(seq, chain(n), order, cuts, scheme)
    # three names: every order on chains of 3-5; three strings, and every choice of two strings (third name not addressed); the order of the strings and the
    # cut of M cycle with the world counter
    count = 0
    for n in range(3, 6):
        for seq in _c18_ms_sequences(n, "MET"):
            for addressed in ("MET", "ME", "MT", "ET"):
                schemes = ("distinct", "shared-first", "shared-all", "own-name") if len(addressed) == 3 else ("distinct", "shared-first", "unaddressed-name")
                for scheme in schemes:
                    perms = list(itertools.permutations(addressed))
                    cuts = dict(first_cut, M=C18_MS_CUTS["M"][count % 3])
                    add(seq, chain(n), perms[count % len(perms)], cuts, scheme)
                    count += 1
    # branched: every labelling of three trees with both names
    for tree, edges in C18_MS_TREES.items():
        n = 1 + max(max(e) for e in edges)
        for seq in _c18_ms_sequences(n, "ME"):
            for scheme in ("distinct", "shared-first", "own-name"):
                for order in ("ME", "EM"):
                    add(seq, edges, order, first_cut, scheme)
    return worlds


# ---- ligands ---------------------------------------------------------------------------------

C18_LIGAND_WORLDS = [
    # ((host molname, idx, resname, resid), (ligand molname, idx, resname, resid)) pairs
    [(("A", 0, "X", 1), ("L", 5, None, None))],
    [(("A", 0, "Y", None), ("L", None, None, None))],
    [(("B", None, "Y", None), ("L", None, "W", 1))],
    [((None, 3, "X", 4), (None, 7, "W", None))],
    [(("A", 1, "X", 2), ("L", 6, None, None)), (("B", 2, "X", 1), ("L", 7, None, None))],
    [((None, None, "X", 4), ("L", None, None, None))],
    [((None, None, "Y", 2), ("L", 8, "W", 1))],
    [(("A", 4, None, 3), ("L", None, "W", None))],
    [(("B", 2, None, None), ("L", None, None, 1))],
]


def _min_image(a, b, box):
    dvec = np.asarray(a, float) - np.asarray(b, float)
    dvec = dvec - np.round(dvec / box) * box
    return float(np.linalg.norm(dvec))


def c18_ligand_world(job):
    d, tag, pairs, seed = job
    import random as pyrandom
    al = load("polyply.src.annotate_ligands")
    bs = load("polyply.src.build_system")
    gc = load("polyply.src.gen_coords")
    ll = load("polyply.src.load_library")
    from pathlib import Path
    np.random.seed(seed)
    pyrandom.seed(seed)
    bad = None
    try:
        top = c18_load_top(d, tag)
        bld = _write(os.path.join(d, f"{tag}.bld"), "[ volumes ]\n" + "".join(f"{k} {v}\n" for k, v in C18_SIZES.items()))
        ll.load_build_files(top, None, [Path(bld)])
        mols = list(top.molecules)
        before = [(list(m.nodes), {frozenset(e) for e in m.edges}) for m in mols]
        ligands = [(c18_spec_string(*h), c18_spec_string(*l)) for h, l in pairs]
        ann = al.AnnotateLigands(top, ligands)
        ann.run_system(top)
        if len(top.molecules) != len(mols) or any(x is not y for x, y in zip(top.molecules, mols)):
            return True, ("c18-ligand-molecule-list", "the molecule list changed when ligands were attached")
        attached = []       # (host mol, host node, new node, lig mol, lig node)
        for i, m in enumerate(mols):
            new = [n for n in m.nodes if n not in before[i][0]]
            if [n for n in before[i][0] if n not in m.nodes] or not before[i][1] <= {frozenset(e) for e in m.edges}:
                return True, ("c18-ligand-host-changed", f"molecule {i} lost residues or edges when ligands were attached")
            for n in new:
                lig = m.nodes[n].get("ligated")
                nbrs = list(m.neighbors(n))
                if lig is None or len(nbrs) != 1 or nbrs[0] not in before[i][0]:
                    return True, ("c18-ligand-attachment", f"molecule {i}: new residue {n} is not attached to exactly one host residue / not marked as ligand")
                attached.append((i, nbrs[0], n, lig[0], lig[1]))
        # expected hosts and ligands from the specs as written
        want_hosts = []
        for (h, l) in pairs:
            hosts = [(i, n) for i in range(len(mols)) if c18_spec_matches_mol(i, h[0], h[1]) for n in before[i][0]
                     if (h[2] is None or mols[i].nodes[n]["resname"] == h[2]) and (h[3] is None or mols[i].nodes[n]["resid"] == h[3])]
            want_hosts += hosts
            for (i, hn, n, li, ln) in attached:
                if (i, hn) in hosts:
                    ok = c18_spec_matches_mol(li, l[0], l[1]) and (l[2] is None or mols[li].nodes[ln]["resname"] == l[2]) \
                        and (l[3] is None or mols[li].nodes[ln]["resid"] == l[3])
                    if not ok:
                        return True, ("c18-ligand-selection", f"host {i}:{hn} got ligand molecule {li} residue {ln}, which the spec '{c18_spec_string(*l)}' does not name")
                    if mols[i].nodes[n]["resname"] != mols[li].nodes[ln]["resname"]:
                        return True, ("c18-ligand-selection", f"attached residue {n} is named {mols[i].nodes[n]['resname']}, the ligand {mols[li].nodes[ln]['resname']}")
        if sorted((i, hn) for (i, hn, *_r) in attached) != sorted(want_hosts):
            return True, ("c18-ligand-selection", f"ligands attached to {sorted((i, hn) for (i, hn, *_r) in attached)}, the specs name {sorted(want_hosts)}")
        if len({li for (*_h, li, _ln) in attached}) != len(attached):
            return True, ("c18-ligand-selection", f"one ligand molecule attached twice: {attached}")
        box = np.array([9.0, 10.0, 11.0])
        start_dict = gc.find_starting_node_from_spec(top, [])
        bs.BuildSystem(top, density=None, start_dict=start_dict, box=box, step_fudge=1.0, grid_spacing=0.5, nrewind=3).run_system(top.molecules)
        handed = {}
        for (i, hn, n, li, ln) in attached:
            p, q = mols[i].nodes[n].get("position"), mols[i].nodes[hn].get("position")
            if p is None or q is None or not np.all(np.isfinite(p)) or not np.all(np.isfinite(q)):
                return True, ("c18-ligand-not-placed", f"ligand residue {n} of molecule {i} or its host has no position")
            step = 1.0 * 0.5 * (C18_SIZES[mols[i].nodes[hn]["resname"]] + C18_SIZES[mols[i].nodes[n]["resname"]])
            dist = _min_image(p, q, box)
            if abs(dist - step) > 1e-6:
                return True, ("c18-ligand-not-one-step", f"ligand residue {n} is {dist:.6f} nm from its host {i}:{hn}, one step is {step:.6f} nm")
            handed[(li, ln)] = np.array(p, float)
        others = {(i, n): np.array(m.nodes[n]["position"], float) for i, m in enumerate(mols) for n in before[i][0] if (i, n) not in handed}
        ann.split_ligands()
        if len(top.molecules) != len(mols) or any(x is not y for x, y in zip(top.molecules, mols)):
            return True, ("c18-ligand-molecule-list", "the molecule list changed when ligands were handed back")
        for i, m in enumerate(mols):
            if list(m.nodes) != before[i][0] or {frozenset(e) for e in m.edges} != before[i][1]:
                return True, ("c18-ligand-host-changed", f"molecule {i} does not have its own residues/edges back after split_ligands: {list(m.nodes)} vs {before[i][0]}")
        for (li, ln), p in handed.items():
            got = mols[li].nodes[ln].get("position")
            if got is None or not np.array_equal(np.asarray(got, float), p):
                return True, ("c18-ligand-not-handed-back", f"ligand molecule {li} residue {ln} has position {got}, placed next to its host at {p}")
        for (i, n), p in others.items():
            if not np.array_equal(np.asarray(mols[i].nodes[n]["position"], float), p):
                return True, ("c18-ligand-frame", f"residue {n} of molecule {i} moved when ligands were handed back")
    except Exception as e:      # noqa: BLE001
        import traceback
        tb = traceback.extract_tb(e.__traceback__)[-1]
        bad = ("c18-ligand-exception:" + type(e).__name__, f"{type(e).__name__}: {e} at {os.path.basename(tb.filename)}:{tb.lineno}")
    return True, bad


def read_gro(path):
    with open(path) as fh:
        lines = fh.read().splitlines()
    n = int(lines[1])
    atoms = []
    for ln in lines[2:2 + n]:
        resid, resname, name = int(ln[0:5]), ln[5:10].strip(), ln[10:15].strip()
        xyz = [float(x) for x in ln[20:].split()[:3]]
        atoms.append((resid, resname, name, np.array(xyz)))
    box = np.array([float(x) for x in lines[2 + n].split()[:3]])
    return atoms, box


def c18_e2e_world(job):
    """the program itself: gen_coords with -split / -lig (with and without sizes from a build file) -> .gro"""
    d, tag, kind, seed = job
    import random as pyrandom
    gc = load("polyply.src.gen_coords")
    from pathlib import Path
    np.random.seed(seed)
    pyrandom.seed(seed)
    out = Path(os.path.join(d, f"{tag}.out.gro"))
    if out.exists():
        out.unlink()
    try:
        if kind == "split":
            top = _write(os.path.join(d, f"{tag}.top"), c18_split_top_text("abc", [("a", "b"), ("b", "c")]))
            try:
                gc.gen_coords(Path(top), out, "bounded", box=np.array([8.0, 8.0, 8.0]), split=["S:P-a,b:Q-c"])
            except KeyError as e:
                if str(e) in ("'build'", "'backmap'"):
                    return True, ("c18-split-missing-build-attr", f"gen_coords -split S:P-a,b:Q-c: KeyError {e} (residues created by the split carry no build/backmap flag)")
                raise
            atoms, _ = read_gro(out)
            names = [(a[1], a[2]) for a in atoms]
            want = [("X", "a"), ("X", "b"), ("P", "a"), ("P", "b"), ("Q", "c"), ("P", "a"), ("P", "b"), ("Q", "c"), ("X", "a"), ("X", "b"),
                    ("P", "a"), ("P", "b"), ("Q", "c"), ("X", "a"), ("X", "b")]
            if names != want:
                return True, ("c18-split-output", f"-split output atoms {names}, expected {want}")
            return True, None
        top = _write(os.path.join(d, f"{tag}.top"), c18_top_text())
        build = []
        if kind == "lig-sizes":
            build = [Path(_write(os.path.join(d, f"{tag}.bld"), "[ volumes ]\n" + "".join(f"{k} {v}\n" for k, v in C18_SIZES.items())))]
        box = np.array([9.0, 10.0, 11.0])
        try:
            gc.gen_coords(Path(top), out, "bounded", box=box, build=build, ligands=[("A#0-X#1", "L#5"), ("B-Y#3", "L#7")])
        except KeyError as e:
            if str(e) == "'W'" and kind == "lig":
                return True, ("c18-ligand-size-lookup", "gen_coords -lig A#0-X#1:L#5 without a user [ volumes ] entry for the ligand residue: KeyError 'W' in "
                                                        "NonBondEngine.from_topology (attached ligand residue has no template; sizes are keyed by template hash)")
            raise
        atoms, gbox = read_gro(out)
        want = [(resid, rn) for nm in C18_NAMES for (resid, rn) in C18_TYPES[nm]]
        if [(a[0], a[1]) for a in atoms] != want:
            return True, ("c18-ligand-output", f"output residues {[(a[0], a[1]) for a in atoms]} differ from the topology {want}")
        offs = np.cumsum([0] + [len(C18_TYPES[nm]) for nm in C18_NAMES])
        # the step length is only known to the harness when the sizes come from the build file
        for (hm, hres, lm) in ((0, 1, 5), (2, 3, 7)) if kind == "lig-sizes" else ():
            hp = atoms[offs[hm] + hres - 1][3]
            lp = atoms[offs[lm]][3]
            step = 0.5 * (C18_SIZES[C18_TYPES[C18_NAMES[hm]][hres - 1][1]] + C18_SIZES["W"])
            if abs(_min_image(hp, lp, box) - step) > 2e-3:       # the .gro carries three decimals
                return True, ("c18-ligand-not-one-step", f"output: ligand molecule {lm} is {_min_image(hp, lp, box):.6f} nm from residue {hres} of molecule {hm}; one step is {step}")
        return True, None
    except Exception as e:      # noqa: BLE001
        import traceback
        tb = traceback.extract_tb(e.__traceback__)[-1]
        return True, (f"c18-e2e-{kind}-exception:" + type(e).__name__, f"gen_coords ({kind}): {type(e).__name__}: {e} at {os.path.basename(tb.filename)}:{tb.lineno}")


# ---- -start / -lig after a -split (residues are renumbered from 0: residue id 0 exists) ------------------

C18_PS_NAMES = ["A", "A", "L", "L", "L"]
C18_PS_SIZES = {"X": 0.4, "P": 0.45, "Q": 0.35, "W": 0.3}
C18_PS_LIGANDS = [
    [(("A", None, "X", 0), ("L", None, None, None))],
    [(("A", 0, "X", 0), ("L", 3, None, 0))],
    [((None, 1, None, 0), (None, 4, "W", 0))],
    [(("A", None, "P", 1), ("L", None, "W", 0))],
    [(("A", 1, "X", 5), ("L", 2, None, None)), (("A", 0, None, 0), ("L", 3, None, None))],
    [(("A", None, None, 0), ("L", None, None, 0))],
]
C18_PS_STARTS = [("A", None, "X", 0), ("A", 1, None, 0), (None, None, "X", 0), ("A", None, "X", 5), ("A", None, "Q", 2), (None, 0, "Q", 4),
                 ("L", None, None, 0), (None, 3, "W", 0), ("A", None, None, 3)]


def c18_postsplit_top_text():
    text = c18_split_top_text("abc", [("a", "b"), ("b", "c")])
    head = text[:text.index("[ system ]")]
    lig = "[ moleculetype ]\nL 1\n\n[ atoms ]\n1 P 1 W w 1 0.0 72.0\n\n"
    return head + lig + "[ system ]\nbounded\n\n[ molecules ]\nA 2\nL 3\n"


def c18_postsplit_world(job):
    """gen_coords order: read, preprocess, -split, build file, -start, -lig, build, hand back"""
    d, tag, kind, payload, seed = job
    import random as pyrandom
    al = load("polyply.src.annotate_ligands")
    bs = load("polyply.src.build_system")
    gc = load("polyply.src.gen_coords")
    ll = load("polyply.src.load_library")
    from pathlib import Path
    np.random.seed(seed)
    pyrandom.seed(seed)
    names = C18_PS_NAMES

    def mol_ok(i, spec):
        return (spec[0] is None or names[i] == spec[0]) and (spec[1] is None or i == spec[1])

    def nodes_of(mol, spec):
        return [n for n in mol.nodes if (spec[2] is None or mol.nodes[n]["resname"] == spec[2]) and (spec[3] is None or mol.nodes[n]["resid"] == spec[3])]
    try:
        top = c18_load_top(d, tag, c18_postsplit_top_text())
        for mol in top.molecules:
            mol.split_residue(["S:P-a,b:Q-c"])
        mols = list(top.molecules)
        layout = [[(mol.nodes[n]["resname"], mol.nodes[n]["resid"]) for n in mol.nodes] for mol in mols]
        want_layout = [[("X", 0), ("P", 1), ("Q", 2), ("P", 3), ("Q", 4), ("X", 5)]] * 2 + [[("W", 0)]] * 3
        if layout != want_layout:
            return True, ("c18-postsplit-setup", f"residues after the split {layout}")
        if kind == "start":
            spec = payload
            text = c18_spec_string(*spec)
            sel = [i for i in range(len(mols)) if mol_ok(i, spec)]
            cand = {i: nodes_of(mols[i], spec) for i in sel}
            try:
                sd = gc.find_starting_node_from_spec(top, [text])
            except Exception as e:      # noqa: BLE001
                if sel and all(cand[i] for i in sel):
                    return True, ("c18-start-exception", f"after -split, -start '{text}' names residues in molecules {sel} but raises {type(e).__name__}: {e}")
                return True, None
            for i in range(len(mols)):
                v = sd.get(i)
                if i in sel and cand[i]:
                    if v not in cand[i]:
                        return True, ("c18-start-selection", f"after -split, -start '{text}': molecule {i} starts at node {v} "
                                                             f"({mols[i].nodes[v]['resname']}{mols[i].nodes[v]['resid']} if a node), the spec names nodes {cand[i]}")
                elif v is not None:
                    return True, ("c18-start-selection", f"after -split, -start '{text}': molecule {i} is not named by the spec but starts at {v}")
            return True, None
        pairs = payload
        bld = _write(os.path.join(d, f"{tag}.bld"), "[ volumes ]\n" + "".join(f"{k} {v}\n" for k, v in C18_PS_SIZES.items()))
        ll.load_build_files(top, None, [Path(bld)])
        before = [(list(m.nodes), {frozenset(e) for e in m.edges}) for m in mols]
        ann = al.AnnotateLigands(top, [(c18_spec_string(*h), c18_spec_string(*l)) for h, l in pairs])
        ann.run_system(top)
        attached = []
        for i, m in enumerate(mols):
            for n in m.nodes:
                if n in before[i][0]:
                    continue
                lig, nbrs = m.nodes[n].get("ligated"), list(m.neighbors(n))
                if lig is None or len(nbrs) != 1:
                    return True, ("c18-ligand-attachment", f"after -split: new residue {n} of molecule {i} is not attached to exactly one host / not marked as ligand")
                attached.append((i, nbrs[0], n, lig[0], lig[1]))
        want_hosts = []
        for (h, l) in pairs:
            hosts = [(i, n) for i in range(len(mols)) if mol_ok(i, h) for n in before[i][0]
                     if (h[2] is None or mols[i].nodes[n]["resname"] == h[2]) and (h[3] is None or mols[i].nodes[n]["resid"] == h[3])]
            want_hosts += hosts
            for (i, hn, n, li, ln) in attached:
                if (i, hn) in hosts and not (mol_ok(li, l) and ln in nodes_of(mols[li], l)):
                    return True, ("c18-ligand-selection", f"after -split: host {i}:{hn} got ligand molecule {li} residue {ln}, which '{c18_spec_string(*l)}' does not name")
        got_hosts = sorted((i, hn) for (i, hn, *_r) in attached)
        if got_hosts != sorted(want_hosts):
            def show(lst):
                return [(i, f"{mols[i].nodes[n]['resname']}{mols[i].nodes[n]['resid']}") for i, n in lst]
            return True, ("c18-ligand-selection", f"after -split S:P-a,b:Q-c, -lig {[c18_spec_string(*h) + ':' + c18_spec_string(*l) for h, l in pairs]}: ligands attached to "
                                                  f"{show(got_hosts)}, the specs name exactly {show(sorted(want_hosts))}")
        box = np.array([9.0, 10.0, 11.0])
        start_dict = gc.find_starting_node_from_spec(top, [])
        bs.BuildSystem(top, density=None, start_dict=start_dict, box=box, step_fudge=1.0, grid_spacing=0.5, nrewind=3).run_system(top.molecules)
        handed = {}
        for (i, hn, n, li, ln) in attached:
            pnt, q = mols[i].nodes[n]["position"], mols[i].nodes[hn]["position"]
            step = 0.5 * (C18_PS_SIZES[mols[i].nodes[hn]["resname"]] + C18_PS_SIZES[mols[i].nodes[n]["resname"]])
            if abs(_min_image(pnt, q, box) - step) > 1e-6:
                return True, ("c18-ligand-not-one-step", f"after -split: ligand residue {n} is {_min_image(pnt, q, box):.6f} nm from its host {i}:{hn}, one step is {step:.6f}")
            handed[(li, ln)] = np.array(pnt, float)
        ann.split_ligands()
        if len(top.molecules) != len(mols) or any(x is not y for x, y in zip(top.molecules, mols)):
            return True, ("c18-ligand-molecule-list", "after -split: the molecule list changed when ligands were handed back")
        for i, m in enumerate(mols):
            if list(m.nodes) != before[i][0] or {frozenset(e) for e in m.edges} != before[i][1]:
                return True, ("c18-ligand-host-changed", f"after -split: molecule {i} does not have its own residues/edges back")
        for (li, ln), pnt in handed.items():
            got = mols[li].nodes[ln].get("position")
            if got is None or not np.array_equal(np.asarray(got, float), pnt):
                return True, ("c18-ligand-not-handed-back", f"after -split: ligand molecule {li} residue {ln} has position {got}, placed at {pnt}")
        return True, None
    except Exception as e:      # noqa: BLE001
        import traceback
        tb = traceback.extract_tb(e.__traceback__)[-1]
        key = "c18-split-missing-build-attr" if isinstance(e, KeyError) and str(e) in ("'build'", "'backmap'") else "c18-postsplit-exception:" + type(e).__name__
        return True, (key, f"after -split ({kind} {payload}): {type(e).__name__}: {e} at {os.path.basename(tb.filename)}:{tb.lineno}")


def _c18_dispatch(job):
    kind, payload = job
    if kind == "postsplit":
        return kind, [c18_postsplit_world(payload)]
    if kind == "bld":
        return kind, c18_buildfile_chunk(payload)
    if kind == "spec":
        return kind, c18_specs_chunk(payload)
    if kind == "split":
        return kind, [c18_split_world(payload)]
    if kind == "msplit":
        return kind, c18_ms_chunk(payload)
    if kind == "lig":
        return kind, [c18_ligand_world(payload)]
    return kind, [c18_e2e_world(payload)]


def run_c18(ctx, res):
    d = _scratch()
    try:
        jobs, descr = [], []
        worlds = c18_buildfile_worlds(ctx)
        chunk = 150
        for c in range(0, len(worlds), chunk):
            jobs.append(("bld", (d, f"b{c}", worlds[c:c + chunk])))
            descr.append([{"build_file": c18_build_text(w)} for w in worlds[c:c + chunk]])
        specs = [(mn, ix, rn, ri) for mn in (None, "A", "B", "L") for ix in (None, 0, 2, 3, 6) for rn in (None, "X", "Y", "W") for ri in (None, 0, 1, 3, 4)]       # residue id 0 is a legal id (residues are numbered from 0 after -split)
        for c in range(0, len(specs), 40):
            jobs.append(("spec", (d, f"s{c}", specs[c:c + 40])))
            descr.append([{"spec": c18_spec_string(*s)} for s in specs[c:c + 40]])
        nsplit = 0
        shapes = [("ab", [("a", "b")]), ("abc", [("a", "b"), ("b", "c")]), ("abc", [("a", "b"), ("b", "c"), ("a", "c")]),
                  ("abcd", [("a", "b"), ("b", "c"), ("c", "d")]), ("abcd", [("a", "b"), ("a", "c"), ("a", "d")])]
        for atoms, bonds in shapes:
            g = nx.Graph(bonds)
            for parts in _set_partitions(atoms, 2, 3):
                if not all(nx.is_connected(g.subgraph(p)) for p in parts):
                    continue        # a new residue is a connected set of atoms
                for names in (("P", "Q", "R"), ("Q", "X", "P")):
                    jobs.append(("split", (d, f"p{nsplit}", atoms, bonds, parts, names[:len(parts)])))
                    descr.append([{"split": "S:" + ":".join(f"{nm}-{','.join(p)}" for nm, p in zip(names, parts)), "residue_S_bonds": bonds}])
                    nsplit += 1
        ms_worlds = c18_ms_worlds(ctx)
        ms_chunk = 6 if not ctx.thorough else 40
        for c in range(0, len(ms_worlds), ms_chunk):
            jobs.append(("msplit", (d, f"m{c}", ms_worlds[c:c + ms_chunk])))
            descr.append([{"split": c18_ms_strings(w), "residues": "-".join(w[0]) if w[1] == tuple((i, i + 1) for i in range(len(w[0]) - 1)) else list(w[0]),
                           "residue_edges": [list(e) for e in w[1]]} for w in ms_worlds[c:c + ms_chunk]])
        nseeds = 2 if not ctx.thorough else 8
        for w, pairs in enumerate(C18_LIGAND_WORLDS):
            for sd in range(nseeds):
                jobs.append(("lig", (d, f"l{w}_{sd}", pairs, _seed_of("c18", ctx.seed, w, sd))))
                descr.append([{"ligands": [f"{c18_spec_string(*h)}:{c18_spec_string(*l)}" for h, l in pairs]}])
        for k, spec in enumerate(C18_PS_STARTS):
            jobs.append(("postsplit", (d, f"ps{k}", "start", spec, 0)))
            descr.append([{"after_split": "S:P-a,b:Q-c", "start": c18_spec_string(*spec)}])
        for k, pairs in enumerate(C18_PS_LIGANDS):
            for sd in range(nseeds):
                jobs.append(("postsplit", (d, f"pl{k}_{sd}", "lig", pairs, _seed_of("c18ps", ctx.seed, k, sd))))
                descr.append([{"after_split": "S:P-a,b:Q-c", "ligands": [f"{c18_spec_string(*h)}:{c18_spec_string(*l)}" for h, l in pairs]}])
        for kind in ("split", "lig", "lig-sizes"):
            jobs.append(("e2e", (d, f"e{kind}", kind, _seed_of("c18e", ctx.seed, kind))))
            descr.append([{"gen_coords": kind}])
        out = _pool_map(_c18_dispatch, jobs, chunksize=1)
    finally:
        shutil.rmtree(d, ignore_errors=True)
    counts, classes = {}, {}
    for (kind, results), ds in zip(out, descr):
        for (nt, bad), dsc in zip(results, ds):
            res.evaluations += 1
            res.nontrivial += int(bool(nt))
            counts[kind] = counts.get(kind, 0) + 1
            if nt and not bad and len(res.samples) < 4 and kind not in {s.get("_k") for s in res.samples}:
                res.samples.append(dict(dsc, _k=kind))
            if bad:
                classes[bad[0]] = classes.get(bad[0], 0) + 1
            if bad and len(res.violations) < 25 and bad[0] not in {v.finding_key for v in res.violations}:
                res.violations.append(Violation("c18-selections", _short(f"{bad[1]}  [input {json.dumps(dsc)}]", 900), inputs=dsc, detail=bad[1],
                                                replayed=True, finding_key=bad[0]))
    res.bound = (f"topology with molecule names {C18_NAMES} (repeated names, interleaved).  BUILD FILES (exhaustive): one [ molecule ] block x one directive for every "
                 "name in (A, B, absent C) x every index range 0<=a<=b<=5 plus reversed and overshooting x resname in (X, Y) x every resid range 1<=s<=t<=5 plus "
                 "reversed and enclosing, directive kinds sphere/cylinder/rectangle/rw_restriction cycled; two blocks (6 ranges: overlapping, adjacent, nested, empty; "
                 "same and different names) x two directives (4 resid ranges, thorough 6) x 3 kind pairs: "
                 f"{counts.get('bld', 0)} files read by load_build_files.  SPECS (exhaustive): {counts.get('spec', 0)} strings = every subset of the four fields omitted x "
                 "molname in (A,B,L) x index in (0,2,3,6) x resname in (X,Y,W) x resid in (0,1,3,4) through parse_residue_spec, _find_nodes on every molecule, "
                 f"find_starting_node_from_spec.  SPLIT: {counts.get('split', 0)} worlds = every partition of a 2-4 atom residue (chain, triangle, star) into 2-3 connected named parts x 2 namings, "
                 f"two molecule types; SEVERAL SPLIT STRINGS in one split_residue call (as gen_coords -split a b): {counts.get('msplit', 0)} worlds, residue types M(a-b-c), E(d-e), T(a-b; shares atom names with M), "
                 + ("every order of M and E on linear chains of 2-3 residues x both orders of the two strings x new names (all distinct / one name shared by both strings / a part keeps the old residue name); "
                    "every order of M, E, T on a chain of 3: three strings (all distinct / every i-th part shares a name) and two strings whose parts take the name of the residue type nobody addresses; "
                    "a star of 4 and a T-branch of 5 x 3 namings"
                    if not ctx.thorough else
                    "every order of two names (M,E with two cuts of M; M,T) on linear chains of 2-6 residues x both orders of the two strings x new names (all distinct / one name shared / every i-th part shares "
                    "a name / a part keeps the old residue name / M,E only: a part takes the name of the other split residue type); every order of M, E, T on chains of 3-5 x (three strings; each choice of two "
                    "strings, third name not addressed) x (three strings: all distinct / one shared / all shared / own name; two strings: all distinct / one shared / a part of each takes the name of the unaddressed type), order of the strings and cut of M cycling; every labelling with M and E "
                    "of a star of 4 and T-branches of 5 and 6 x 3 namings x both orders")
                 + f".  LIGANDS: {len(C18_LIGAND_WORLDS)} spec pairs (fields omitted on both sides, 1-4 hosts, two definitions) x {2 if not ctx.thorough else 8} seeds through AnnotateLigands + the real "
                 f"BuildSystem + split_ligands.  AFTER -split (residue ids from 0): {len(C18_PS_STARTS)} -start specs and {len(C18_PS_LIGANDS)} -lig sets naming residue id 0 "
                 "(hosts, ligands, with and without the other fields) through split_residue, AnnotateLigands, BuildSystem, split_ligands.  PROGRAM: gen_coords with -split, -lig, -lig + [ volumes ] -> .gro"
                 + (f".  Violation classes seen (worlds): {classes}" if classes else ""))
    res.rule = ("non-trivial iff the build file selects a proper non-empty subset of the residues / the spec omits a field / always for split and ligand worlds (several split strings: at least two of them address a residue of the molecule; worlds are distinct by molecule and strings); "
                "options are recognised on a residue by a number unique to the directive, so the check does not depend on how the package stores an option")
    res.exhaustive = True
    res.assumptions.append("bounded: one residue = one bead in the selection topology; rw_restriction and geometry directives only")


# ==========================================================================================
#  C15  -- one centred template and size per distinct residue; user values win
# ==========================================================================================

def Res(name, atoms, bonds=(), constraints=(), angles=(), impropers=(), vs=()):
    """residue definition.  atoms: [(atomname, atype, mass)]; bonds/constraints: [(a, b, length)]; angles: [(a, b, c, degrees)];
    impropers: [(a, b, c, d, degrees)]; vs: [(section, site, [defining atoms], funct, [parameters])]"""
    return dict(name=name, atoms=[tuple(a) for a in atoms], bonds=list(bonds), constraints=list(constraints), angles=list(angles),
                impropers=list(impropers), vs=list(vs))


C15_TYPES = {"P": (72.0, 0.47), "Q": (36.0, 0.40), "T": (12.0, 0.34), "V": (0.0, 0.0)}


def c15_top_text(moltypes, counts):
    """moltypes: {name: [Res, ...]} residues chained first-real-atom to last-real-atom by a bond"""
    lines = ["[ defaults ]", "1 2 no 1.0 1.0", "", "[ atomtypes ]"]
    for t, (mass, sig) in C15_TYPES.items():
        lines.append(f"{t} {mass} 0.0 {'V' if t == 'V' else 'A'} {sig} {0.0 if t == 'V' else 3.5}")
    lines.append("")
    for molname, residues in moltypes.items():
        atoms, sect = [], {k: [] for k in ("bonds", "constraints", "angles", "dihedrals", "virtual_sites2", "virtual_sites3", "virtual_sites4", "virtual_sitesn",
                                           "virtual_sites1")}
        idx, anchors = 1, []
        for resid, r in enumerate(residues, start=1):
            where = {}
            for (an, at, mass) in r["atoms"]:
                atoms.append(f"{idx} {at} {resid} {r['name']} {an} {idx} 0.0 {mass}")
                where[an] = idx
                idx += 1
            real = [an for (an, at, _m) in r["atoms"] if at != "V"]
            anchors.append((where[real[0]], where[real[-1]]))
            for a, b, l in r["bonds"]:
                sect["bonds"].append(f"{where[a]} {where[b]} 1 {l} 5000")
            for a, b, l in r["constraints"]:
                sect["constraints"].append(f"{where[a]} {where[b]} 1 {l}")
            for a, b, c, th in r["angles"]:
                sect["angles"].append(f"{where[a]} {where[b]} {where[c]} 1 {th} 50")
            for a, b, c, dd, ph in r["impropers"]:
                sect["dihedrals"].append(f"{where[a]} {where[b]} {where[c]} {where[dd]} 2 {ph} 50")
            for section, site, defs, funct, params in r["vs"]:
                if section == "virtual_sitesn" and int(funct) == 3:       # centre of weights: 'site 3 atom weight atom weight ...' (GROMACS manual, topology file table)
                    sect[section].append(f"{where[site]} 3 " + " ".join(f"{where[x]} {w}" for x, w in zip(defs, params)))
                elif section == "virtual_sitesn":
                    sect[section].append(f"{where[site]} {funct} " + " ".join(str(where[x]) for x in defs))
                else:
                    sect[section].append(f"{where[site]} " + " ".join(str(where[x]) for x in defs) + f" {funct} " + " ".join(str(x) for x in params))
        for k in range(len(residues) - 1):
            sect["bonds"].append(f"{anchors[k][1]} {anchors[k + 1][0]} 1 0.35 5000")
        lines += ["[ moleculetype ]", f"{molname} 1", "", "[ atoms ]"] + atoms + [""]
        for k, ls in sect.items():
            if ls:
                lines += [f"[ {k} ]"] + ls + [""]
    lines += ["[ system ]", "bounded", "", "[ molecules ]"] + [f"{n} {c}" for n, c in counts]
    return "\n".join(lines) + "\n"


def _unit(v):
    return v / np.linalg.norm(v)


def gromacs_vs(section, funct, params, x, masses):
    """where GROMACS constructs a virtual site from the positions x = [x_i, x_j, ...] of its defining atoms
    (GROMACS reference manual, 'Virtual interaction sites'; written from the manual)"""
    f = int(funct)
    if section == "virtual_sitesn":
        x = np.array(x)
        if f == 1:                                   # centre of geometry
            w = np.ones(len(x))
        elif f == 2:                                 # centre of mass
            w = np.array(masses, float)
        elif f == 3 and len(params) == len(x):       # centre of weights, one explicit weight per defining atom
            w = np.array(params, float)
        else:
            raise ValueError("COW needs explicit weights")
        return (w[:, None] * x).sum(axis=0) / w.sum()
    if section == "virtual_sites1" and f == 1:        # the site sits on its single defining atom
        return np.array(x[0], float)
    if section == "virtual_sites2" and f == 1:
        a, = params
        return (1 - a) * x[0] + a * x[1]
    if section == "virtual_sites2" and f == 2:        # 2fd: at the fixed distance a (nm) from i along i -> j
        a, = params
        return x[0] + a * _unit(x[1] - x[0])
    if section == "virtual_sites3":
        xi, xj, xk = x
        rij, rik, rjk = xj - xi, xk - xi, xk - xj
        if f == 1:
            a, b = params
            return (1 - a - b) * xi + a * xj + b * xk
        if f == 2:                                   # 3fd
            a, dd = params
            return xi + dd * _unit(rij + a * rjk)
        if f == 3:                                   # 3fad
            theta, dd = params
            rperp = rjk - (np.dot(rij, rjk) / np.dot(rij, rij)) * rij
            return xi + dd * np.cos(np.deg2rad(theta)) * _unit(rij) + dd * np.sin(np.deg2rad(theta)) * _unit(rperp)
        if f == 4:                                   # 3out
            a, b, c = params
            return xi + a * rij + b * rik + c * np.cross(rij, rik)
    if section == "virtual_sites4" and f == 2:        # 4fdn
        a, b, c = params
        xi, xj, xk, xl = x
        rij, rik, ril = xj - xi, xk - xi, xl - xi
        rja, rjb = a * rik - rij, b * ril - rij
        return xi + c * _unit(np.cross(rja, rjb))
    raise ValueError(f"no GROMACS construction known for {section} funct {funct}")


def _angle_deg(a, b, c):
    u, v = a - b, c - b
    return float(np.degrees(np.arccos(np.clip(np.dot(u, v) / np.linalg.norm(u) / np.linalg.norm(v), -1, 1))))


def _dihedral_deg(a, b, c, dd):
    b1, b2, b3 = b - a, c - b, dd - c
    n1, n2 = np.cross(b1, b2), np.cross(b2, b3)
    return float(np.degrees(np.arctan2(np.dot(np.cross(n1, n2), b2 / np.linalg.norm(b2)), np.dot(n1, n2))))


def c15_labelled_graph(r):
    g = nx.Graph()
    for (an, _at, _m) in r["atoms"]:
        g.add_node(an, atomname=an)
    for a, b, _l in r["bonds"] + r["constraints"]:
        g.add_edge(a, b)
    for _sec, site, defs, _f, _p in r["vs"]:
        for x in defs:
            g.add_edge(site, x)
    return g


def c15_same_content(r1, r2):
    keys = ("atoms", "bonds", "constraints", "angles", "impropers", "vs")
    return all(sorted(map(str, r1[k])) == sorted(map(str, r2[k])) for k in keys)


def c15_build_text(user):
    """user = dict(templates=[(resname, [(atomname, atype, (x,y,z))], [(a, b)], with_bonds_section)], volumes=[(resname, value)], volumes_first=bool)"""
    vol = []
    if user.get("volumes"):
        vol = ["[ volumes ]"] + [f"{rn} {v}" for rn, v in user["volumes"]] + [""]
    tem = []
    for resname, atoms, bonds, with_bonds in user.get("templates", []):
        tem += ["[ template ]", f"resname {resname}", "[ atoms ]"]
        tem += [f"{an} {at} {p[0]} {p[1]} {p[2]}" for an, at, p in atoms]
        if with_bonds:
            tem += ["[ bonds ]"] + [f"{a} {b}" for a, b in bonds]
        tem.append("")
    return "\n".join(vol + tem if user.get("volumes_first") else tem + vol) + "\n"


def c15_world(job):
    """worker: job = dict(moltypes, counts, user, dir, id, skip_filter); returns (nontrivial, [(key, text)])"""
    d, tag = job["dir"], f"c15_{job['id']}"
    import random as pyrandom
    np.random.seed(job.get("seed", 0))          # the initial 3-d layout of a template is drawn from numpy's global generator
    pyrandom.seed(job.get("seed", 0))
    top_mod = load("polyply.src.topology")
    gt = load("polyply.src.generate_templates")
    ll = load("polyply.src.load_library")
    from pathlib import Path
    bads = []
    calls = []
    st = dict(optimised=0, not_optimised=0, user_templates=0, user_sizes=0, sites=0, iso_pairs=0, other_pairs=0)       # what was actually compared (measured)
    real_opt = gt.optimize_geometry
    if getattr(real_opt, "_bounded_wrapper", False):
        real_opt = real_opt._real

    def recording_optimize(block, coords, inter_types=[], *args, **kw):
        ok, out = real_opt(block, coords, inter_types, *args, **kw)
        calls.append((sorted(str(n) for n in block.nodes), tuple(inter_types), bool(ok), {str(k): np.array(v, float) for k, v in out.items()}))
        return ok, out
    recording_optimize._bounded_wrapper, recording_optimize._real = True, real_opt
    gt.optimize_geometry = recording_optimize
    try:
        top_path = _write(os.path.join(d, f"{tag}.top"), c15_top_text(job["moltypes"], job["counts"]))
        top = top_mod.Topology.from_gmx_topfile(top_path, "bounded")
        top.preprocess()
        user = job.get("user")
        if user:
            bld = _write(os.path.join(d, f"{tag}.bld"), c15_build_text(user))
            ll.load_build_files(top, None, [Path(bld)])
        gt.GenerateTemplates(topology=top, max_opt=10, skip_filter=job.get("skip_filter", False)).run_system(top)
        # ---- what the package reports -----------------------------------------------------------
        residues = []           # (mol_idx, node, Res definition, template key)
        mi = 0
        for molname, cnt in job["counts"]:
            for _ in range(cnt):
                mol = top.molecules[mi]
                defs = job["moltypes"][molname]
                nodes = sorted(mol.nodes, key=lambda n: mol.nodes[n]["resid"])
                if len(nodes) != len(defs):
                    bads.append(("c15-world-setup", f"molecule {mi}: {len(nodes)} residues read, {len(defs)} written"))
                for n, r in zip(nodes, defs):
                    residues.append((mi, n, r, mol.nodes[n].get("template")))
                mi += 1
        templates = top.molecules[0].templates
        for mol in top.molecules:
            if mol.templates is not templates and mol.templates != templates and not bads:
                same = set(mol.templates) == set(templates)
                if not same:
                    bads.append(("c15-templates-not-shared", "molecules carry different template tables"))
        user_templates = {}
        for t_ in (user or {}).get("templates", []):
            user_templates.setdefault(t_[0], []).append(t_)
        user_volumes = dict((user or {}).get("volumes", []))
        for (m, n, r, key) in residues:
            where = f"molecule {m} residue {r['name']} (node {n})"
            names = [a[0] for a in r["atoms"]]
            if key is None or key not in templates:
                bads.append(("c15-residue-without-template", f"{where}: template key {key} has no template"))
                continue
            tmpl = templates[key]
            if sorted(map(str, tmpl)) != sorted(names):
                bads.append(("c15-template-atom-names", f"{where}: template has positions for {sorted(map(str, tmpl))}, the residue has atoms {sorted(names)}"))
                continue
            pos = {str(k): np.asarray(v, float) for k, v in tmpl.items()}
            if any(p.shape != (3,) or not np.all(np.isfinite(p)) for p in pos.values()):
                bads.append(("c15-template-not-finite", f"{where}: template {pos}"))
                continue
            cog = np.mean(list(pos.values()), axis=0)
            if np.linalg.norm(cog) > 1e-8:
                bads.append(("c15-template-not-centred", f"{where}: centre of geometry of the template is {cog}"))
            size = top.volumes.get(key)
            if size is None or not np.isfinite(size) or not size > 0:
                bads.append(("c15-size-not-positive", f"{where}: size {size}"))
            # virtual sites: where GROMACS puts them, from the template's own defining atoms
            masses = {a[0]: a[2] for a in r["atoms"]}
            supplied = [t_ for t_ in user_templates.get(r["name"], []) if c15_user_matches(t_, r)]
            from_user = bool(supplied)
            if not from_user:
                for section, site, defs, funct, params in r["vs"]:
                    st["sites"] += 1
                    want = gromacs_vs(section, funct, params, [pos[x] for x in defs], [masses[x] for x in defs])
                    if np.linalg.norm(pos[site] - want) > 1e-6:
                        key_ = "c15-vsn-com-as-cog" if (section == "virtual_sitesn" and int(funct) == 2) else "c15-virtual-site-position"
                        if section == "virtual_sitesn" and int(funct) == 3:
                            key_ = "c15-vsn-cow-weights-unsupported"          # 'site 3 atom weight atom weight ...': the weights are not read as weights
                        elif section == "virtual_sites1":
                            key_ = "c15-virtual-sites1-not-constructed"
                        bads.append((key_, f"{where}: {section} funct {funct} {params} site {site} from {defs}: template has it at {np.round(pos[site], 6)}, "
                                           f"GROMACS constructs {np.round(want, 6)} (defining atoms {[list(np.round(pos[x], 6)) for x in defs]}, masses {[masses[x] for x in defs]})"))
            # optimisation verdict
            verdict = None
            for (bnames, inter_types, ok, coords) in calls:
                if bnames == sorted(names):
                    c0 = np.mean([coords[x] for x in names], axis=0)
                    if all(np.linalg.norm(coords[x] - c0 - pos[x]) < 1e-9 for x in names):
                        verdict = ok
            st["optimised"] += int(verdict is True)
            st["not_optimised"] += int(verdict is False)
            st["user_templates"] += int(from_user)
            st["user_sizes"] += int(r["name"] in user_volumes)
            if verdict:
                tol_len, tol_ang = 0.05, 5.0        # minimizer.optimize_geometry: tolerance bonds/constraints 0.05 nm, angles/dihedrals 5 degrees
                for a, b, l in r["bonds"] + r["constraints"]:
                    got = np.linalg.norm(pos[a] - pos[b])
                    if abs(got - l) > tol_len + 1e-9:
                        bads.append(("c15-optimised-misses-target", f"{where}: reported optimised, distance {a}-{b} is {got:.4f}, target {l} +- {tol_len}"))
                for a, b, c, th in r["angles"]:
                    got = _angle_deg(pos[a], pos[b], pos[c])
                    if abs(got - th) > tol_ang + 1e-7:
                        bads.append(("c15-optimised-misses-target", f"{where}: reported optimised, angle {a}-{b}-{c} is {got:.3f}, target {th} +- {tol_ang}"))
                for a, b, c, dd, ph in r["impropers"]:
                    # GROMACS (IUPAC) sign convention, see _dihedral_deg; the sign is part of the target
                    got = _dihedral_deg(pos[a], pos[b], pos[c], pos[dd])
                    dev = abs((got - ph + 180) % 360 - 180)
                    if dev > tol_ang + 1e-7:
                        mirror = abs((-got - ph + 180) % 360 - 180) <= tol_ang + 1e-7
                        bads.append(("c15-optimised-improper-wrong-sign" if mirror else "c15-optimised-misses-target",
                                     f"{where}: reported optimised, improper {a}-{b}-{c}-{dd} is {got:.3f} deg (GROMACS sign convention), target {ph} +- {tol_ang}"))
            # user supplied values
            if from_user:
                _rn, uatoms, _ub, with_bonds = supplied[0]
                upos = {an: np.array(p, float) for an, _at, p in uatoms}
                ucog = np.mean(list(upos.values()), axis=0)
                if verdict is not None:
                    key_ = "c15-user-template-without-bonds-ignored" if not with_bonds else "c15-user-template-regenerated"
                    bads.append((key_, f"{where}: a template was supplied in the build file" + ("" if with_bonds else " (no [ bonds ] section, the residue has one atom)")
                                 + " but a generated one is in use"))
                elif any(np.linalg.norm(pos[x] - (upos[x] - ucog)) > 1e-9 for x in names):
                    key_ = "c15-user-template-without-bonds-ignored" if not with_bonds else "c15-user-template-changed"
                    bads.append((key_, f"{where}: template in use {dict((x, list(np.round(pos[x], 5))) for x in names)} is not the supplied one (centred) "
                                       f"{dict((x, list(np.round(upos[x] - ucog, 5))) for x in names)}"))
            if r["name"] in user_volumes and size is not None and size != user_volumes[r["name"]]:
                key_ = "c15-user-size-not-used"
                if len(user_templates.get(r["name"], [])) >= 2:
                    key_ = "c15-user-size-lost-two-templates-one-name"      # two [ template ] blocks carry this residue name (different structures) next to [ volumes ] <name>
                bads.append((key_, f"{where}: size in use {size}, the build file says {user_volumes[r['name']]}"
                                   + (f" ({len(user_templates[r['name']])} templates named {r['name']} in the build file)" if key_ != "c15-user-size-not-used" else "")))
        # sharing
        for i in range(len(residues)):
            for j in range(i + 1, len(residues)):
                (_m1, _n1, r1, k1), (_m2, _n2, r2, k2) = residues[i], residues[j]
                if k1 is None or k2 is None:
                    continue
                names1, names2 = sorted(a[0] for a in r1["atoms"]), sorted(a[0] for a in r2["atoms"])
                iso = nx.is_isomorphic(c15_labelled_graph(r1), c15_labelled_graph(r2), node_match=lambda x, y: x["atomname"] == y["atomname"])
                st["iso_pairs" if iso else "other_pairs"] += 1
                if iso and (k1 != k2 or top.volumes.get(k1) != top.volumes.get(k2)):
                    bads.append(("c15-isomorphic-residues-not-shared", f"residues {r1['name']} and {r2['name']} (positions {i}, {j}) have isomorphic labelled graphs "
                                                                      f"but templates {k1} / {k2}, sizes {top.volumes.get(k1)} / {top.volumes.get(k2)}"))
                if names1 != names2 and k1 == k2:
                    bads.append(("c15-different-residues-share-template", f"residues {r1['name']} {names1} and {r2['name']} {names2} share template {k1}"))
                elif not iso and k1 == k2:
                    bads.append(("c15-non-isomorphic-residues-share-template",
                                 f"residues {r1['name']} (position {i}, bonds {sorted(c15_labelled_graph(r1).edges)}) and {r2['name']} (position {j}, bonds "
                                 f"{sorted(c15_labelled_graph(r2).edges)}) have the same atom names but different connectivity and share template {k1}"))
        for key, size in top.volumes.items():
            if not (np.isfinite(size) and size > 0):
                bads.append(("c15-size-not-positive", f"size table entry {key}: {size}"))
    except Exception as e:      # noqa: BLE001
        import traceback
        tb = traceback.extract_tb(e.__traceback__)[-1]
        key_ = "c15-exception:" + type(e).__name__
        if isinstance(e, UnboundLocalError) and "resname" in str(e) and calls and not calls[-1][2]:
            key_ = "c15-unoptimised-first-template-crash"      # the give-up branch after failed optimisations names a variable that is not bound yet
        all_vs = [(s[0], int(s[3])) for rs_ in job["moltypes"].values() for r_ in rs_ for s in r_["vs"]]
        if isinstance(e, KeyError) and "virtual_sites" in str(e) and any(str(sec) in str(e) and f"'{f}'" in str(e) for sec, f in all_vs):
            key_ = "c15-virtual-site-kind-unsupported"         # a (section, function type) of the topology the template builder has no construction for
        elif ("virtual_sitesn", 3) in all_vs and "virtual_sitesn" in str(e):
            key_ = "c15-vsn-cow-weights-unsupported"           # the topology reader cannot read 'atom weight' pairs
        bads.append((key_, f"{type(e).__name__}: {e} at {os.path.basename(tb.filename)}:{tb.lineno}"))
    finally:
        gt.optimize_geometry = real_opt
    seen, out = set(), []
    for k, t in bads:
        if k not in seen:
            seen.add(k)
            out.append((k, t))
    return job.get("nontrivial", True), out, st


def c15_user_matches(utemplate, r):
    """a supplied template stands for residue r when it has the same atom names and the same bonds"""
    _rn, uatoms, ubonds, _wb = utemplate
    if sorted(a[0] for a in uatoms) != sorted(a[0] for a in r["atoms"]):
        return False
    ug = nx.Graph()
    for an, _at, _p in uatoms:
        ug.add_node(an, atomname=an)
    ug.add_edges_from(ubonds)
    # the [ bonds ] of a template are compared with the residue's bonds and constraints: a virtual-site construction is not a bond
    # (for residues without virtual sites - every user template of the quick tier - this is c15_labelled_graph)
    rg = c15_labelled_graph(dict(r, vs=[]))
    return nx.is_isomorphic(ug, rg, node_match=lambda x, y: x["atomname"] == y["atomname"])


def c15_shapes():
    P, Q, T = ("P", 72.0), ("Q", 36.0), ("T", 12.0)

    def atoms(names, kinds=None):
        kinds = kinds or [P] * len(names)
        return [(n, k[0], k[1]) for n, k in zip(names, kinds)]
    chain2 = Res("C2", atoms("ab", [P, Q]), bonds=[("a", "b", 0.3)])
    chain3 = Res("C3", atoms("abc", [P, Q, P]), bonds=[("a", "b", 0.3), ("b", "c", 0.35)], angles=[("a", "b", "c", 120)])
    chain4 = Res("C4", atoms("abcd"), bonds=[("a", "b", 0.3), ("b", "c", 0.3), ("c", "d", 0.3)], angles=[("a", "b", "c", 130), ("b", "c", "d", 110)])
    chain5 = Res("C5", atoms("abcde", [P, Q, T, Q, P]), bonds=[("a", "b", 0.28), ("b", "c", 0.3), ("c", "d", 0.32), ("d", "e", 0.3)],
                 angles=[("a", "b", "c", 140), ("b", "c", "d", 100), ("c", "d", "e", 150)])
    cons3 = Res("K3", atoms("abc"), bonds=[("a", "b", 0.3)], constraints=[("b", "c", 0.25)], angles=[("a", "b", "c", 90)])
    ring3 = Res("R3", atoms("abc"), bonds=[("a", "b", 0.3), ("b", "c", 0.3), ("c", "a", 0.3)])
    ring4 = Res("R4", atoms("abcd"), bonds=[("a", "b", 0.3), ("b", "c", 0.3), ("c", "d", 0.3), ("d", "a", 0.3)],
                angles=[("a", "b", "c", 90), ("b", "c", "d", 90)])
    ring5 = Res("R5", atoms("abcde"), bonds=[("a", "b", 0.3), ("b", "c", 0.3), ("c", "d", 0.3), ("d", "e", 0.3), ("e", "a", 0.3)],
                angles=[("a", "b", "c", 108), ("c", "d", "e", 108)])
    star4 = Res("S4", atoms("abcd", [Q, P, P, P]), bonds=[("a", "b", 0.3), ("a", "c", 0.3), ("a", "d", 0.3)],
                angles=[("b", "a", "c", 120), ("c", "a", "d", 120)], impropers=[("a", "b", "c", "d", 0)])
    star5 = Res("S5", atoms("abcde", [T, P, P, Q, Q]), bonds=[("a", "b", 0.3), ("a", "c", 0.3), ("a", "d", 0.25), ("a", "e", 0.25)],
                angles=[("b", "a", "c", 109.5), ("d", "a", "e", 109.5)])
    one = Res("O1", atoms("a"))
    # targets that cannot all be met (triangle inequality violated / angle against a constraint): whatever the package does with
    # them, it must not report such a template as optimised while a target is missed
    bad3 = Res("X3", atoms("abc"), bonds=[("a", "b", 0.3), ("b", "c", 0.3), ("c", "a", 0.9)])
    bad3k = Res("X3K", atoms("abc"), bonds=[("a", "b", 0.3), ("b", "c", 0.3)], constraints=[("a", "c", 0.25)], angles=[("a", "b", "c", 170)])
    return [one, chain2, chain3, chain4, chain5, cons3, ring3, ring4, ring5, star4, star5, bad3, bad3k]


def c15_vs_residues(ctx):
    P, Q, T = ("P", 72.0), ("Q", 36.0), ("T", 12.0)
    out = []
    tri = dict(bonds=[("a", "b", 0.3), ("b", "c", 0.35)], angles=[("a", "b", "c", 110)])
    base3 = [("a", "P", 72.0), ("b", "Q", 36.0), ("c", "T", 12.0)]
    base3eq = [("a", "P", 72.0), ("b", "P", 72.0), ("c", "P", 72.0)]
    base2 = [("a", "P", 72.0), ("b", "Q", 36.0)]
    base4 = [("a", "Q", 36.0), ("b", "P", 72.0), ("c", "P", 72.0), ("d", "T", 12.0)]
    tet = dict(bonds=[("a", "b", 0.3), ("a", "c", 0.3), ("a", "d", 0.3)], angles=[("b", "a", "c", 109.5), ("c", "a", "d", 109.5), ("b", "a", "d", 109.5)])
    v = ("v", "V", 0.0)
    for a in (0.3, 0.5, 1.2, -0.25):
        out.append(Res("V2", base2 + [v], bonds=[("a", "b", 0.3)], vs=[("virtual_sites2", "v", ["a", "b"], 1, [a])]))
    for ab in ((0.2, 0.3), (0.5, 0.5), (-0.2, 0.6)):
        out.append(Res("V3", base3 + [v], vs=[("virtual_sites3", "v", ["a", "b", "c"], 1, list(ab))], **tri))
    for ad in ((0.4, 0.1), (0.7, 0.25), (0.0, -0.1)):
        out.append(Res("V3FD", base3 + [v], vs=[("virtual_sites3", "v", ["a", "b", "c"], 2, list(ad))], **tri))
    for td in ((120, 0.1), (45, 0.2), (90, 0.15)):
        out.append(Res("V3FAD", base3 + [v], vs=[("virtual_sites3", "v", ["a", "b", "c"], 3, list(td))], **tri))
    for abc in ((0.2, 0.3, 1.5), (-0.3, 0.4, -2.0), (0.0, 0.0, 3.0)):
        out.append(Res("V3OUT", base3 + [v], vs=[("virtual_sites3", "v", ["a", "b", "c"], 4, list(abc))], **tri))
    for abc in ((0.5, 0.5, 0.1), (0.8, 1.2, -0.15), (1.0, 1.0, 0.2)):
        out.append(Res("V4FDN", base4 + [v], vs=[("virtual_sites4", "v", ["a", "b", "c", "d"], 2, list(abc))], **tet))
    out.append(Res("VN1", base2 + [v], bonds=[("a", "b", 0.3)], vs=[("virtual_sitesn", "v", ["a", "b"], 1, [])]))
    out.append(Res("VN1", base3 + [v], vs=[("virtual_sitesn", "v", ["a", "b", "c"], 1, [])], **tri))
    out.append(Res("VN1", base4 + [v], vs=[("virtual_sitesn", "v", ["a", "b", "c", "d"], 1, [])], **tet))
    out.append(Res("VN2", base3eq + [v], vs=[("virtual_sitesn", "v", ["a", "b", "c"], 2, [])], **tri))          # equal masses: COM = COG
    out.append(Res("VN2", base3 + [v], vs=[("virtual_sitesn", "v", ["a", "b", "c"], 2, [])], **tri))            # centre of MASS, unequal masses
    out.append(Res("VN2", base2 + [v], bonds=[("a", "b", 0.3)], vs=[("virtual_sitesn", "v", ["a", "b"], 2, [])]))
    # two sites in one residue (different sections), site listed between the real atoms
    out.append(Res("VMIX", [base3[0], v, base3[1], base3[2], ("w", "V", 0.0)],
                   vs=[("virtual_sites2", "v", ["a", "c"], 1, [0.4]), ("virtual_sites3", "w", ["b", "a", "c"], 4, [0.1, 0.2, 1.0])], **tri))
    return out


# ---- thorough tier: generated residues, virtual-site sweeps, sharing pairs, build-file combinations ------------------------------------

C15_KINDS = (("P", 72.0), ("Q", 36.0), ("T", 12.0))


def c15_embed(n, edges, seed):
    """seeded 3-d conformation of a graph: bonded atoms relaxed towards 0.3 nm, the others pushed to >= 0.28 nm.  Targets MEASURED on one real conformation
    can all be met together"""
    rs = np.random.RandomState(seed)
    x = rs.uniform(-0.3, 0.3, size=(n, 3))
    eset = {frozenset(e) for e in edges}
    for _ in range(400):
        for i in range(n):
            for j in range(i + 1, n):
                dv = x[j] - x[i]
                dist = max(np.linalg.norm(dv), 1e-6)
                if frozenset((i, j)) in eset:
                    shift = 0.25 * (dist - 0.3) * dv / dist
                elif dist < 0.28:
                    shift = 0.25 * (dist - 0.28) * dv / dist
                else:
                    continue
                x[i] += shift
                x[j] -= shift
    return x


def c15_generated_residue(name, n, edges, seed, names="abcde", uniform=False):
    """a residue on the graph (n, edges): bond / constraint lengths, up to 4 angles and (4+ atoms, every other seed) one type-2 improper measured on c15_embed;
    uniform=True: every bond 0.3 nm and nothing else (for sharing worlds, where isomorphic residues must also have equal targets)"""
    atoms = [(names[i], C15_KINDS[(i + seed) % 3][0], C15_KINDS[(i + seed) % 3][1]) for i in range(n)]
    if uniform:
        return Res(name, atoms, bonds=[(names[a], names[b], 0.3) for a, b in edges])
    x = c15_embed(n, edges, seed)
    bonds, constraints, angles, impropers = [], [], [], []
    for k, (a, b) in enumerate(edges):
        item = (names[a], names[b], round(float(np.linalg.norm(x[a] - x[b])), 3))
        (constraints if (k + seed) % 4 == 3 else bonds).append(item)
    nbrs = {i: sorted({b if a == i else a for a, b in edges if i in (a, b)}) for i in range(n)}
    for b in range(n):
        for a, c in itertools.combinations(nbrs[b], 2):
            if len(angles) < 4:
                angles.append((names[a], names[b], names[c], round(_angle_deg(x[a], x[b], x[c]), 1)))
    if n >= 4 and seed % 2 == 0:
        for c in range(n):
            if len(nbrs[c]) >= 3 and not impropers:
                i, j, k = nbrs[c][:3]
                phi = _dihedral_deg(x[c], x[i], x[j], x[k])
                if 15 < abs(phi) < 165:
                    impropers.append((names[c], names[i], names[j], names[k], round(phi, 1)))
    return Res(name, atoms, bonds=bonds, constraints=constraints, angles=angles, impropers=impropers)


def c15_vs_kinds():
    """(label, section, function type, number of defining atoms, parameter sets); for virtual_sitesn the 'parameters' are the weights of funct 3 and
    empty otherwise"""
    out = [("vs1", "virtual_sites1", 1, 1, [[]]),
           ("vs2", "virtual_sites2", 1, 2, [[0.5], [0.0], [1.0], [-0.3], [1.4]]),
           ("vs2fd", "virtual_sites2", 2, 2, [[0.1], [-0.05], [0.3]]),
           ("vs3", "virtual_sites3", 1, 3, [[0.3, 0.3], [0.0, 0.0], [1.0, 0.0], [-0.2, 0.7], [0.5, 0.5]]),
           ("vs3fd", "virtual_sites3", 2, 3, [[0.5, 0.1], [0.2, -0.1], [1.0, 0.25], [0.0, 0.05]]),
           ("vs3fad", "virtual_sites3", 3, 3, [[120, 0.1], [45, 0.2], [90, 0.15], [10, 0.05]]),
           ("vs3out", "virtual_sites3", 4, 3, [[0.2, 0.3, 1.5], [-0.3, 0.4, -2.0], [0.0, 0.0, 3.0], [1.0, 1.0, 0.5]]),
           ("vs4fdn", "virtual_sites4", 2, 4, [[0.5, 0.5, 0.1], [0.8, 1.2, -0.15], [1.0, 1.0, 0.2], [0.3, 2.0, 0.05]])]
    for ndef in (1, 2, 3, 4):
        out.append((f"vsn-cog-{ndef}", "virtual_sitesn", 1, ndef, [[]]))
        out.append((f"vsn-com-{ndef}", "virtual_sitesn", 2, ndef, [[]]))
        out.append((f"vsn-cow-{ndef}", "virtual_sitesn", 3, ndef, [[1] * ndef, [1, 2, 3, 4][:ndef], [0.5, 1.25, 2.0, 0.75][:ndef]]))
    return out


C15_VS_BASES = (("chain", 4, ((0, 1), (1, 2), (2, 3))), ("star", 4, ((0, 1), (0, 2), (0, 3))), ("ring", 4, ((0, 1), (1, 2), (2, 3), (0, 3))),
                ("branched", 5, ((0, 1), (1, 2), (1, 3), (3, 4))))


def c15_with_site(base, sites, site_first, equal_masses=False):
    """base residue + virtual sites [(section, site name, defining atoms, funct, params)]; the site atoms are listed before or after the real atoms"""
    atoms = [(an, "P", 72.0) if equal_masses else (an, at, m) for an, at, m in base["atoms"]]
    vatoms = [(s[1], "V", 0.0) for s in sites]
    r = dict(base)
    r["atoms"] = vatoms + atoms if site_first else atoms + vatoms
    r["vs"] = list(sites)
    return r


def c15_user_template_for(r, seed, resname=None):
    """a build-file template for residue r: arbitrary (seeded) positions far from the origin, the residue's own bonds and constraints under [ bonds ]"""
    rs = np.random.RandomState(seed)
    centre = rs.uniform(-5, 5, size=3)
    atoms = [(an, at, tuple(round(float(v), 4) for v in centre + rs.uniform(-0.4, 0.4, size=3))) for an, at, _m in r["atoms"]]
    bonds = [(a, b) for a, b, _l in r["bonds"] + r["constraints"]]
    return (resname or r["name"], atoms, bonds, True)


def c15_vs_sweep_worlds(labels=None):
    """family (T2) of the thorough tier: every virtual-site kind x parameter set x base structure x order of the defining atoms x site listed first / last
    (centre of mass also with equal masses); `labels` restricts the sweep to those kinds.  Yields (ident, add() keyword arguments) with
    ident = (kind label, parameter set, base structure, atom order, site listed first, equal masses)"""
    tail = Res("TL", [("x", "P", 72.0), ("y", "Q", 36.0)], bonds=[("x", "y", 0.3)])
    for label, section, funct, ndef, psets in c15_vs_kinds():
        if labels is not None and label not in labels:
            continue
        for pi, params in enumerate(psets):
            for bi, (bname, n, edges) in enumerate(C15_VS_BASES):
                base = c15_generated_residue("VS", n, edges, seed=11 + bi + 3 * pi)
                real = [a[0] for a in base["atoms"]]
                for oi, order in enumerate((real, real[1:] + real[:1])):
                    for site_first in (False, True):
                        for eq in ((False, True) if (section == "virtual_sitesn" and funct == 2) else (False,)):
                            r = c15_with_site(base, [(section, "v", list(order[:ndef]), funct, list(params))], site_first, equal_masses=eq)
                            r["name"] = label.upper().replace("-", "")[:5]
                            mol = [r, tail] if (oi + bi) % 2 == 0 else [tail, r, tail]
                            yield (label, pi, bi, oi, site_first, eq), dict(
                                moltypes={"M": mol}, counts=[("M", 1)], seed=("t2", label, pi, bi, oi, site_first), family="virtual sites",
                                what=f"virtual site {section} funct {funct} {params} from {order[:ndef]} on a {bname}" + (" (equal masses)" if eq else ""))


# ---- witness worlds (quick tier): the members of family (T2) on which input classes of their own were observed, ONE per class, on the
# first base structure (chain of 4), defining atoms in listing order, site listed after the real atoms.
# They are produced by the sweep the thorough tier enumerates (same topology, same seed) and evaluated by c15_world like every other world.
C15_WITNESS = (("vs1", 0, 0, 0, False, False),          # [ virtual_sites1 ]
               ("vs2fd", 0, 0, 0, False, False),        # [ virtual_sites2 ] funct 2, a = 0.1
               ("vsn-cow-2", 1, 0, 0, False, False))    # [ virtual_sitesn ] funct 3, two atom-weight pairs with weights 1 and 2


def c15_witness_worlds():
    found = {ident: kw for ident, kw in c15_vs_sweep_worlds(labels={w[0] for w in C15_WITNESS}) if ident in C15_WITNESS}
    return [found[ident] for ident in C15_WITNESS]


def c15_thorough_jobs(ctx, d, add):
    """add(moltypes, counts, user=..., what=..., skip_filter=..., seed=..., family=...)"""
    tail = Res("TL", [("x", "P", 72.0), ("y", "Q", 36.0)], bonds=[("x", "y", 0.3)])
    shapes = [s for s in c11_all_shapes(5) if s[0] >= 2]
    # (T1) every connected graph on 2-5 atoms as a residue with measured (jointly satisfiable) targets x 3 conformations x 2 initial layouts, alone and inside a chain
    for si, (n, edges) in enumerate(shapes):
        for conf in range(3):
            r = c15_generated_residue(f"G{si}", n, edges, seed=_seed_of("c15-conf", si, conf) % 1000)
            for layout in range(2):
                add({"M": [r]}, [("M", 1)], what=f"generated residue on graph {n}:{list(edges)} conformation {conf}, alone", seed=("t1", si, conf, layout), family="structures",
                    nontrivial=n >= 3)
                add({"M": [tail, r, r, tail]}, [("M", 2)], what=f"generated residue on graph {n}:{list(edges)} conformation {conf}, repeated in a chain", seed=("t1c", si, conf, layout),
                    family="structures")
    # (T2) every virtual-site kind x parameter set x base structure x order of the defining atoms x site listed first / last
    for _ident, kw in c15_vs_sweep_worlds():
        add(**kw)
    # several sites of different kinds in one residue (each defined from real atoms only)
    kinds = [k for k in c15_vs_kinds() if k[0] not in ("vs1", "vs2fd") and not k[0].startswith("vsn-cow") and not k[0].startswith("vsn-com")]
    for mi in range(40):
        rs = np.random.RandomState(_seed_of("c15-multi", ctx.seed, mi))
        bname, n, edges = C15_VS_BASES[int(rs.randint(len(C15_VS_BASES)))]
        base = c15_generated_residue("VM", n, edges, seed=100 + mi)
        real = [a[0] for a in base["atoms"]]
        sites = []
        for k in range(int(rs.randint(2, 4))):
            label, section, funct, ndef, psets = kinds[int(rs.randint(len(kinds)))]
            order = [real[i] for i in rs.permutation(len(real))]
            sites.append((section, "vwu"[k], order[:ndef], funct, list(psets[int(rs.randint(len(psets)))])))
        r = c15_with_site(base, sites, bool(rs.randint(2)))
        add({"M": [r, tail]}, [("M", 1)], what=f"{len(sites)} virtual sites {[(s[0], s[3]) for s in sites]} on a {bname}", seed=("t2m", mi), family="virtual sites")
    # (T3) pairs of residues: same labelled graph (atoms listed backwards), one atom renamed, atom names permuted over the graph, same atom names on another graph;
    #      in one molecule, across two / three molecule types, under different residue names; both filter settings
    by_size = {}
    for s in shapes:
        by_size.setdefault((s[0], len(s[1])), []).append(s)
    picked = [s for k, s in enumerate(s for s in shapes if s[0] >= 3) if s[0] <= 4 or k % 2 == 0]
    for si, (n, edges) in enumerate(picked):
        rs = np.random.RandomState(_seed_of("c15-pair", ctx.seed, si))
        base = c15_generated_residue("R", n, edges, seed=si, uniform=True)
        names = "abcde"[:n]
        backwards = dict(base, atoms=base["atoms"][::-1], bonds=[(b, a, l) for a, b, l in base["bonds"][::-1]])
        renamed = c15_generated_residue("R", n, edges, seed=si, names=names[:-1] + "z", uniform=True)
        perm = "".join(names[i] for i in rs.permutation(n))
        permuted = c15_generated_residue("R", n, edges, seed=si, names=perm, uniform=True)
        others = [s for s in by_size[(n, len(edges))] if s != (n, edges)]
        rewired = c15_generated_residue("R", n, others[si % len(others)][1], seed=si, uniform=True) if others else None
        variants = [("atoms listed backwards", backwards), ("one atom renamed", renamed), (f"atom names permuted over the graph ({names} -> {perm})", permuted)]
        if rewired:
            variants.append(("same atom names on another graph with as many bonds", rewired))
        for vname, var in variants:
            other_name = dict(var, name="T")
            placements = [("one molecule", {"M": [base, var, tail]}, [("M", 1)]),
                          ("two molecule types", {"M": [base, tail], "N": [var, tail]}, [("N", 1), ("M", 1)]),
                          ("three molecule types, several copies", {"M": [base], "N": [tail, var], "O": [var, base]}, [("O", 2), ("M", 1), ("N", 2)]),
                          ("under another residue name", {"M": [base, other_name, tail], "N": [other_name]}, [("M", 1), ("N", 1)])]
            for pname, moltypes, counts in placements:
                for sf in (False, True):
                    add(moltypes, counts, what=f"pair on graph {n}:{list(edges)}: {vname}; {pname}" + ("; skip_filter" if sf else ""), skip_filter=sf,
                        seed=("t3", si, vname, pname), family="pairs")
    # (T4) build files: for residue R and for the tail independently {nothing, template, volume, both} x section order x 7 structures of R x 2 seeds
    one = Res("R", [("a", "P", 72.0)])
    structures = [one, c15_generated_residue("R", 2, ((0, 1),), 1), c15_generated_residue("R", 3, ((0, 1), (1, 2)), 2), c15_generated_residue("R", 3, ((0, 1), (1, 2), (0, 2)), 3),
                  c15_generated_residue("R", 4, ((0, 1), (0, 2), (0, 3)), 4), c15_generated_residue("R", 5, ((0, 1), (1, 2), (2, 3), (3, 4), (0, 4)), 5)]
    vsbase = c15_generated_residue("R", 4, ((0, 1), (1, 2), (2, 3)), 6)
    structures.append(c15_with_site(vsbase, [("virtual_sites3", "v", ["a", "b", "c"], 1, [0.3, 0.3])], False))
    combos = [(False, False), (True, False), (False, True), (True, True)]
    for ri, r in enumerate(structures):
        for (rt, rv) in combos:
            for (tt, tv) in combos:
                for vf in (False, True):
                    for sd in range(2):
                        if not (rt or rv or tt or tv) and (vf or sd):
                            continue
                        templates = ([c15_user_template_for(r, 50 + ri + sd)] if rt else []) + ([c15_user_template_for(tail, 70 + ri + sd)] if tt else [])
                        volumes = ([("R", round(0.41 + 0.05 * ri + 0.01 * sd, 3))] if rv else []) + ([("TL", round(0.23 + 0.02 * ri, 3))] if tv else [])
                        add({"M": [r, tail, r]}, [("M", 1 + sd)], user=dict(templates=templates, volumes=volumes, volumes_first=vf),
                            what=f"build file for R ({len(r['atoms'])} atoms): template {rt}, volume {rv}; for TL: template {tt}, volume {tv}", seed=("t4", ri, sd), family="build files")
    # two residues called R with different structure: templates for the first / the second / both, with and without a volume for R, molecule order both ways
    U = lambda n, edges, names="abcde": c15_generated_residue("R", n, edges, seed=0, names=names, uniform=True)      # noqa: E731
    twins = [(U(2, ((0, 1),)), U(3, ((0, 1), (1, 2)))),                                  # ab / abc
             (U(3, ((0, 1), (1, 2))), U(3, ((0, 1), (1, 2), (0, 2)))),                   # chain abc / ring abc: same atom names
             (U(4, ((0, 1), (0, 2), (0, 3))), U(4, ((0, 1), (1, 2), (2, 3)))),           # star abcd / chain abcd
             (one, U(2, ((0, 1),))),                                                     # a / ab
             (U(3, ((0, 1), (1, 2))), U(3, ((0, 1), (1, 2)), names="abd"))]              # abc / abd
    for ti, (r1, r2) in enumerate(twins):
        for which in ((True, False), (False, True), (True, True)):
            for vol in (False, True):
                for order in (0, 1):
                    for vf in (False, True):
                        templates = ([c15_user_template_for(r1, 90 + ti)] if which[0] else []) + ([c15_user_template_for(r2, 95 + ti)] if which[1] else [])
                        counts = [("M", 1), ("N", 2)] if order == 0 else [("N", 1), ("M", 1)]
                        add({"M": [r1, tail], "N": [tail, r2, r2]}, counts, user=dict(templates=templates, volumes=[("R", 0.57)] if vol else [], volumes_first=vf),
                            what=f"two different residues named R ({len(r1['atoms'])} / {len(r2['atoms'])} atoms): template for first {which[0]}, second {which[1]}, volume for R {vol}",
                            seed=("t4t", ti), family="build files")


def c15_jobs(ctx, d):
    jobs = []

    def add(moltypes, counts, user=None, nontrivial=True, what="", skip_filter=False, seed=0, family="fixed"):
        jobs.append(dict(moltypes=moltypes, counts=counts, user=user, nontrivial=nontrivial, what=what, dir=d, id=len(jobs), skip_filter=skip_filter,
                         seed=_seed_of("c15", ctx.seed, seed), family=family))
    shapes = c15_shapes()
    tail = Res("TL", [("x", "P", 72.0), ("y", "Q", 36.0)], bonds=[("x", "y", 0.3)])
    # (1) every shape alone in a molecule, and between two copies of a two-atom residue
    for r in shapes:
        add({"M": [r]}, [("M", 1)], nontrivial=len(r["atoms"]) >= 3, what=f"shape {r['name']}")
        add({"M": [tail, r, r, tail]}, [("M", 2)], what=f"shape {r['name']} repeated")
    # (2) every virtual-site kind and parameter set
    for r in c15_vs_residues(ctx):
        add({"M": [r, tail]}, [("M", 1)], what=f"virtual site {r['vs'][0][0]} funct {r['vs'][0][3]} {r['vs'][0][4]}")
    # (3) molecule mixes: equal residue names with different content, different names with equal content, atom order permuted
    ab = Res("R", [("a", "P", 72.0), ("b", "Q", 36.0)], bonds=[("a", "b", 0.3)])
    ac = Res("R", [("a", "P", 72.0), ("c", "Q", 36.0)], bonds=[("a", "c", 0.3)])
    ab_other = Res("T", [("a", "P", 72.0), ("b", "Q", 36.0)], bonds=[("a", "b", 0.3)])
    ba = Res("R", [("b", "Q", 36.0), ("a", "P", 72.0)], bonds=[("b", "a", 0.3)])
    abc = Res("R", [("a", "P", 72.0), ("b", "Q", 36.0), ("c", "P", 72.0)], bonds=[("a", "b", 0.3), ("b", "c", 0.3)], angles=[("a", "b", "c", 120)])
    abd = Res("R", [("a", "P", 72.0), ("b", "Q", 36.0), ("d", "P", 72.0)], bonds=[("a", "b", 0.3), ("b", "d", 0.3)], angles=[("a", "b", "d", 120)])
    cba = Res("R", [("c", "P", 72.0), ("b", "Q", 36.0), ("a", "P", 72.0)], bonds=[("c", "b", 0.3), ("b", "a", 0.3)], angles=[("c", "b", "a", 120)])
    abcd = Res("R", [("a", "P", 72.0), ("b", "Q", 36.0), ("c", "P", 72.0), ("d", "P", 72.0)], bonds=[("a", "b", 0.3), ("b", "c", 0.3), ("c", "d", 0.3)])
    mixes = [({"M": [ab, ab, tail], "N": [ac, tail]}, [("M", 1), ("N", 1)]),
             ({"M": [ab, tail], "N": [ac, tail]}, [("N", 1), ("M", 2)]),
             ({"M": [ab, ab_other, tail]}, [("M", 1)]),
             ({"M": [ab, ba, tail], "N": [ba, ab_other]}, [("M", 1), ("N", 1)]),
             ({"M": [abc, tail, abd]}, [("M", 1)]),
             ({"M": [abc, cba, tail], "N": [abd, abc]}, [("M", 1), ("N", 2)]),
             ({"M": [abc, abcd, ab]}, [("M", 1)]),
             ({"M": [abc, tail], "N": [abcd, tail], "O": [abd, ab, cba]}, [("O", 1), ("N", 1), ("M", 1)])]
    for moltypes, counts in mixes:
        add(moltypes, counts, what="mix of residues with equal names / equal content")
        add(moltypes, counts, what="mix, skip_filter path", skip_filter=True)
    # (3b) residues of ONE molecule (and of two) with the same name, the same atom names and the same number of bonds that differ only in connectivity
    def R4(order, length=0.3):
        names = list(order)
        return Res("R", [(x, "P", 72.0) for x in sorted(names)], bonds=[(names[k], names[k + 1], length) for k in range(len(names) - 1)])
    chain_abcd, chain_dcab, chain_acbd = R4("abcd"), R4("dcab"), R4("acbd")
    chain_abc, chain_acb = R4("abc"), R4("acb")
    star_a = Res("R", [(x, "P", 72.0) for x in "abcd"], bonds=[("a", "b", 0.3), ("a", "c", 0.3), ("a", "d", 0.3)])
    star_b = Res("R", [(x, "P", 72.0) for x in "abcd"], bonds=[("b", "a", 0.3), ("b", "c", 0.3), ("b", "d", 0.3)])
    ring_abcd = Res("R", [(x, "P", 72.0) for x in "abcd"], bonds=[("a", "b", 0.3), ("b", "c", 0.3), ("c", "d", 0.3), ("d", "a", 0.3)])
    ring_acbd = Res("R", [(x, "P", 72.0) for x in "abcd"], bonds=[("a", "c", 0.3), ("c", "b", 0.3), ("b", "d", 0.3), ("d", "a", 0.3)])
    pan_a = Res("R", [(x, "P", 72.0) for x in "abcd"], bonds=[("a", "b", 0.3), ("b", "c", 0.3), ("c", "a", 0.3), ("a", "d", 0.3)])
    pan_b = Res("R", [(x, "P", 72.0) for x in "abcd"], bonds=[("a", "b", 0.3), ("b", "c", 0.3), ("c", "a", 0.3), ("b", "d", 0.3)])
    rewired = [[chain_dcab, chain_abcd], [chain_abcd, tail, chain_dcab, chain_abcd], [chain_abc, chain_acb], [chain_acb, chain_abc, chain_acb],
               [chain_abcd, chain_acbd, chain_dcab], [star_a, chain_abcd], [star_a, star_b], [chain_abcd, star_b, tail], [ring_abcd, ring_acbd],
               [pan_a, pan_b], [pan_b, ring_abcd, tail, pan_a]]
    for residues in rewired:
        add({"M": residues}, [("M", 1)], what="one molecule, same residue name and atoms, different connectivity")
        add({"M": residues}, [("M", 2)], what="same residue name and atoms, different connectivity, skip_filter path", skip_filter=True)
        if len(residues) >= 2:
            add({"M": residues[:1] + [tail], "N": residues[1:]}, [("N", 1), ("M", 1)], what="two molecule types, same residue name and atoms, different connectivity")
    # (3c) chiral centres: type-2 improper with a non-zero target of either sign, several seeds of the random initial layout
    for sign in (1, -1):
        for order in (("a", "b", "c", "d"), ("a", "c", "b", "d"), ("b", "a", "c", "d")):
            for sd in range(4 if not ctx.thorough else 12):
                target = sign * 35.26
                if order[0] == "a":        # centre first: the GROMOS tetrahedral improper
                    imp = [(order[0], order[1], order[2], order[3], target)]
                else:                      # centre second: a 120 degree improper
                    imp = [(order[0], order[1], order[2], order[3], sign * 120.0)]
                chiral = Res("CH", [("a", "Q", 36.0), ("b", "P", 72.0), ("c", "P", 72.0), ("d", "T", 12.0)],
                             bonds=[("a", "b", 0.3), ("a", "c", 0.3), ("a", "d", 0.3)],
                             angles=[("b", "a", "c", 109.5), ("c", "a", "d", 109.5), ("b", "a", "d", 109.5)], impropers=imp)
                add({"M": [chiral, tail]}, [("M", 1)], what=f"chiral centre, improper {'-'.join(order)} target {imp[0][4]}", seed=sd)
    # (4) build files with [ template ] and [ volumes ]
    t_abc = ("R", [("a", "P", (1.0, 2.0, 3.0)), ("b", "Q", (1.3, 2.0, 3.0)), ("c", "P", (1.3, 2.3, 3.1))], [("a", "b"), ("b", "c")], True)
    t_ab = ("R", [("a", "P", (0.1, 0.0, 0.0)), ("b", "Q", (0.1, 0.31, 0.0))], [("a", "b")], True)
    t_tail = ("TL", [("x", "P", (5.0, 5.0, 5.0)), ("y", "Q", (5.2, 5.2, 5.1))], [("x", "y")], True)
    one = Res("O1", [("a", "P", 72.0)])
    t_one_nobonds = ("O1", [("a", "P", (0.5, 0.6, 0.7))], [], False)
    t_one_emptybonds = ("O1", [("a", "P", (0.5, 0.6, 0.7))], [], True)
    for vf in (False, True):
        add({"M": [abc, tail, abc]}, [("M", 2)], user=dict(templates=[t_abc], volumes=[], volumes_first=vf), what="template for R only")
        add({"M": [abc, tail, abc]}, [("M", 2)], user=dict(templates=[t_abc], volumes=[("R", 0.61)], volumes_first=vf), what="template + size for R")
        add({"M": [abc, tail, abc]}, [("M", 1)], user=dict(templates=[], volumes=[("R", 0.61), ("TL", 0.33)], volumes_first=vf), what="sizes only")
        add({"M": [abc, tail]}, [("M", 1)], user=dict(templates=[t_abc, t_tail], volumes=[("TL", 0.2)], volumes_first=vf), what="two templates, size for one")
        add({"M": [ab, tail], "N": [abc, tail]}, [("M", 1), ("N", 1)], user=dict(templates=[t_ab], volumes=[], volumes_first=vf),
            what="template for R where two molecule types have different residues R")
        add({"M": [ab, tail], "N": [abc, tail]}, [("N", 1), ("M", 1)], user=dict(templates=[t_abc], volumes=[("R", 0.5)], volumes_first=vf),
            what="template + size for R where two molecule types have different residues R")
        add({"M": [one, tail]}, [("M", 1)], user=dict(templates=[t_one_emptybonds], volumes=[], volumes_first=vf), what="one-atom template, empty bonds section")
        add({"M": [one, tail]}, [("M", 1)], user=dict(templates=[t_one_nobonds], volumes=[("TL", 0.3)], volumes_first=vf), what="one-atom template without bonds section")
    if ctx.thorough:
        c15_thorough_jobs(ctx, d, add)
    else:       # the witness worlds of classes that otherwise only family (T2) of the thorough tier reaches (the thorough tier enumerates them there)
        for kw in c15_witness_worlds():
            add(**dict(kw, family="witness"))
    return jobs


def c15_thorough_bound_text(families):
    nk = sum(len(k[4]) for k in c15_vs_kinds())
    return (f".  THOROUGH adds {sum(v for k, v in families.items() if k != 'fixed')} topologies.  STRUCTURES ({families.get('structures', 0)}): every connected graph on 2-5 atoms (30: chains, "
            "stars, all branched trees, rings 3-5, fused and bridged rings up to K5) as a residue whose bond / constraint lengths, up to 4 angles and (4+ atoms) one type-2 improper are "
            "measured on a seeded 3-d conformation (so the targets can be met together) x 3 conformations x 2 seeds of the random initial layout, alone and repeated inside a chain.  "
            f"VIRTUAL SITES ({families.get('virtual sites', 0)}): virtual_sites1; virtual_sites2 funct 1, 2; virtual_sites3 funct 1-4; virtual_sites4 funct 2; virtual_sitesn funct 1, 2, 3 "
            f"with 1-4 defining atoms ({nk} kind x parameter / weight sets, funct 2 with unequal and equal masses) x 4 base structures (chain, star, ring, branched) x 2 orders of the "
            "defining atoms x site listed before / after the real atoms, next to one or between two other residues; 40 seeded residues with 2-3 sites of different kinds.  "
            f"PAIRS ({families.get('pairs', 0)}): 19 graphs on 3-5 atoms x second residue {{same labelled graph with atoms listed backwards, one atom renamed, atom names permuted over the "
            "graph, same atom names on another graph with as many bonds}} x {one molecule, two molecule types, three molecule types with 1-2 copies, under another residue name} x "
            f"skip_filter off / on.  BUILD FILES ({families.get('build files', 0)}): 7 structures of residue R (1-5 atoms, ring, star, with a virtual site) x for R and for the neighbour "
            "residue independently {nothing, [ template ], [ volumes ], both} x section order x 2 seeds (positions far from the origin); 5 pairs of DIFFERENT residues both named R "
            "(ab/abc, chain/ring abc, star/chain abcd, a/ab, abc/abd) x template for the first / second / both x volume for R or not x molecule order x section order")


def run_c15(ctx, res):
    d = _scratch()
    try:
        jobs = c15_jobs(ctx, d)
        out = _pool_map(c15_world, jobs, chunksize=1 if not ctx.thorough else 4)
    finally:
        shutil.rmtree(d, ignore_errors=True)
    classes, families, totals, smallest = {}, {}, {}, {}
    for job, (nt, bads, st) in zip(jobs, out):
        for k, v in st.items():
            totals[k] = totals.get(k, 0) + v
        res.evaluations += 1
        res.nontrivial += int(bool(nt))
        families[job["family"]] = families.get(job["family"], 0) + 1
        desc = {"what": job["what"], "topology": c15_top_text(job["moltypes"], job["counts"]),
                "build_file": c15_build_text(job["user"]) if job["user"] else None, "skip_filter": job["skip_filter"]}
        if not bads and nt and len(res.samples) < 3 and (job["user"] or "virtual" in job["what"]) and job["what"] not in {s["what"] for s in res.samples}:
            res.samples.append(desc)
        for bad in bads:
            classes[bad[0]] = classes.get(bad[0], 0) + 1
            if ctx.thorough:        # one Violation per class: the smallest violating input of the class
                size = len(desc["topology"]) + len(desc["build_file"] or "")
                if bad[0] not in smallest or size < smallest[bad[0]][0]:
                    smallest[bad[0]] = (size, Violation("c15-templates", _short(f"{bad[1]}  [{job['what']}]", 900), inputs=desc, detail=bad[1], replayed=True, finding_key=bad[0]))
            elif len(res.violations) < 25 and bad[0] not in {v.finding_key for v in res.violations}:
                res.violations.append(Violation("c15-templates", _short(f"{bad[1]}  [{job['what']}]", 900), inputs=desc, detail=bad[1], replayed=True, finding_key=bad[0]))
    res.violations += [v for _size, v in smallest.values()][:25]
    nvs = len(c15_vs_residues(ctx))
    nwitness = families.get("witness", 0)
    res.bound = (f"{len(jobs)} topologies read from files and run through GenerateTemplates as gen_coords does: 13 residue shapes (1 atom, chains 2-5 with bonds/constraints/angles, "
                 f"rings 3-5, stars 4-5 with an improper, two with targets that cannot be met) alone and repeated; {nvs} virtual-site residues (virtual_sites2, virtual_sites3 funct 1-4, virtual_sites4 funct 2, "
                 "virtual_sitesn funct 1 and 2, 2-4 defining atoms, 3-4 parameter sets each, two sites in one residue); 8 molecule mixes (equal residue name / different atoms, "
                 "different name / equal content, permuted atom order) with and without skip_filter; 11 residue lists in which residues of one molecule (and of two molecule types) share name, "
                 "atom names and bond count but differ in connectivity (chains abcd/dcab/acbd, abc/acb, stars, rings, triangle+tail); chiral centres with a type-2 improper of +-35.26 / +-120 "
                 f"degrees in 3 atom orders x {4 if not ctx.thorough else 12} seeds of the random initial layout; 16 build files with [ template ] / [ volumes ] in both orders "
                 "(template only, template + size, sizes only, two templates, residue name shared by different residues, one-atom templates with and without a bonds section)"
                 + (c15_thorough_bound_text(families) if ctx.thorough else
                    f"; {nwitness} witness worlds (members of the VIRTUAL SITES sweep the thorough tier enumerates, one per input class observed there, each on a chain of 4 atoms next to "
                    "a two-atom residue): virtual_sites1; virtual_sites2 funct 2; virtual_sitesn funct 3 with two atom-weight pairs (weights 1, 2)")
                 + (f".  Compared (residue instances over all worlds): {totals.get('optimised', 0)} templates reported optimised checked against their targets ({totals.get('not_optimised', 0)} reported "
                    f"not optimised), {totals.get('sites', 0)} virtual sites against the GROMACS construction, {totals.get('user_templates', 0)} user templates and {totals.get('user_sizes', 0)} "
                    f"user sizes against the build file, {totals.get('iso_pairs', 0)} isomorphic and {totals.get('other_pairs', 0)} non-isomorphic residue pairs for sharing" if ctx.thorough else "")
                 + (f".  Violation classes seen (worlds): {classes}" if classes else ""))
    res.rule = ("oracle: isomorphism of the written atom-name-labelled graphs decides sharing; GROMACS manual formulas decide virtual-site positions (from the template's own defining atoms); "
                "the verdict of the last optimize_geometry call (recorded by a pass-through wrapper) decides whether the targets written in the topology must hold within 0.05 nm / 5 degrees; "
                "non-trivial iff the residue has >= 3 atoms, a virtual site, a partner residue to share with or differ from, or a build file")
    res.exhaustive = True
    res.assumptions.append("bounded: virtual_sitesn funct 3 is written as GROMACS reads it ('site 3 atom weight atom weight ...'); virtual_sites4 funct 1 (removed from GROMACS) is not exercised"
                           + ("" if ctx.thorough else "; virtual_sites1, virtual_sites2 funct 2 and virtual_sitesn funct 3 are exercised by one witness world each (the thorough tier sweeps them)"))


# ==========================================================================================
#  C11  -- generated .itp files are written and re-read to the same molecule
# ==========================================================================================

C11_BLOCKS = {
    "A": """[ moleculetype ]
A 1
[ atoms ]
1 TA 1 A BB 1 0.123456789 36.054
2 TB 1 A S1 1 -0.123456789 72.0
[ bonds ]
BB S1 1 0.3 1.250e+03
""",
    "B": """[ moleculetype ]
B 2
[ atoms ]
1 TA 1 B BB 1 0.0 36.0
2 TB 1 B S1 1 0.25 72.0
3 TB 1 B S2 2 -0.25 72.0
4 TV 1 B VS 2 0.0 0.0
[ bonds ]
BB S1 1 0.3 1000
#meta {"ifdef": "FLEX"}
S1 S2 1 0.25 5000
[ constraints ]
#meta {"ifndef": "FLEX"}
S1 S2 1 0.25
[ angles ]
BB S1 S2 1 120 50
[ dihedrals ]
BB S1 S2 VS 1 180 5 2
[ exclusions ]
BB S2
[ pairs ]
BB S2 1
[ virtual_sites2 ]
VS S1 S2 1 0.5
""",
    "C": """[ moleculetype ]
C 3
[ atoms ]
1 TA 1 C BB 1 0.0
2 TB 1 C R1 1 0.0
3 TB 1 C R2 1 0.0
4 TV 1 C CV 1 0.0
[ bonds ]
BB R1 1 0.28 2000
BB R2 1 0.28 2000
R1 R2 1 0.28 2000 {"ifdef": "RING"}
[ angles ]
R1 BB R2 2 60 100 {"ifndef": "RING"}
[ dihedrals ]
BB R1 R2 CV 2 0 40
BB R2 R1 CV 9 0 1.5 3 {"ifdef": "TORSION"}
[ virtual_sitesn ]
CV BB R1 R2 -- 1
""",
}

C11_BLOCKS["D"] = """[ moleculetype ]
D 1
[ atoms ]
1 TA 1 D BB 1 0.0 36.0
2 TB 1 D S1 1 0.1 72.0
3 TB 1 D S2 1 -0.1 72.0
4 TB 1 D S3 1 0.0 72.0
5 TV 1 D V3 1 0.0 0.0
6 TV 1 D V4 1 0.0 0.0
[ bonds ]
BB S1 1 0.3 1000
S1 S2 1 0.3 1000
S2 S3 1 0.3 1000
[ impropers ]
S1 BB S2 S3 2 35.26 50
[ position_restraints ]
BB 1 1000 1000 1000
S1 1 500 500 0 {"ifdef": "POSRES"}
S3 1 250 0 250 {"ifndef": "FREE"}
[ distance_restraints ]
BB S2 1 0 1 0.3 0.4 0.5 1.0
BB S3 1 1 1 0.5 0.6 0.7 1.0 {"ifdef": "DISRES"}
[ dihedral_restraints ]
BB S1 S2 S3 1 180 0 10
[ orientation_restraints ]
BB S1 1 1 1 1.0 5.0 1.0
[ angle_restraints ]
BB S1 S2 S3 1 90 100 1
[ angle_restraints_z ]
BB S1 1 90 100 1 {"ifdef": "ZRES"}
[ pairs_nb ]
BB S3 1 0.0 0.0 0.3 1.0
[ virtual_sites3 ]
V3 BB S1 S2 1 0.2 0.3
[ virtual_sites4 ]
V4 BB S1 S2 S3 2 0.2 0.3 0.1
"""
C11_BLOCKS["E"] = """[ moleculetype ]
E 1
[ atoms ]
1 TA 1 E BB 1 0.0 36.0
2 TB 1 E S1 1 0.0 72.0
3 TB 1 E S2 1 0.0 72.0
4 TB 1 E S3 1 0.0 72.0
5 TB 1 E S4 1 0.0 72.0
[ bonds ]
BB S1 1 0.3 1000
S1 S2 1 0.3 1000
S2 S3 1 0.3 1000
S3 S4 1 0.3 1000
[ cmap ]
BB S1 S2 S3 S4 1
"""


def c11_pair_links(constraint_pairs, names="ABCD"):
    """one link per ordered pair of residue names: a plain [ constraints ] entry for the pairs given (no bond twin), a bond otherwise"""
    out = []
    for x in names:
        for y in names:
            if (x, y) in constraint_pairs:
                out += ["[ link ]", 'resname "A|B|C|D|E"', "[ constraints ]", 'BB {"resname": "%s"} >BB {"resname": "%s"} 1 0.35' % (x, y)]
            else:
                out += ["[ link ]", 'resname "A|B|C|D|E"', "[ bonds ]", 'BB {"resname": "%s"} >BB {"resname": "%s"} 1 0.35 1250' % (x, y)]
    return "\n".join(out) + "\n"


C11_LINKS = {
    "plain": """[ link ]
resname "A|B|C|D|E"
[ bonds ]
BB >BB 1 0.35 1250
""",
    "guarded": """[ link ]
resname "A|B|C|D|E"
[ bonds ]
BB >BB 1 0.350 1250 {"group": "backbone"}
[ link ]
resname "A|B|C|D|E"
[ angles ]
BB >BB >>BB 1 140 30 {"ifdef": "STIFF"}
[ link ]
resname "A|B|C|D|E"
[ dihedrals ]
BB >BB >>BB >>>BB 1 180 2.5 1 {"ifndef": "NOTORS"}
[ link ]
resname "A|B"
[ constraints ]
S1 >BB 1 0.45 {"ifdef": "BRACE"}
""",
    "partial": """[ link ]
resname "A|B"
[ bonds ]
BB >BB 1 0.35 1250
[ link ]
resname "A|B"
[ pairs ]
S1 >S1 1 {"ifdef": "PAIRS"}
""",
    "guarded-bond": """[ link ]
resname "A|B|C|D|E"
[ bonds ]
BB >BB 1 0.35 1250 {"ifdef": "FLEX"}
[ link ]
resname "A|B|C|D|E"
[ constraints ]
BB >BB 1 0.35 {"ifndef": "FLEX"}
""",
    # junctions that are ONLY a constraint (no bond twin) next to junctions that are bonds
    "constraint-BB": c11_pair_links({("B", "B")}),
    "constraint-AA": c11_pair_links({("A", "A")}),
    "constraint-AB": c11_pair_links({("A", "B"), ("B", "A")}),
    "constraint-all": c11_pair_links({(x, y) for x in "ABCD" for y in "ABCD"}),
}


def c11_graphs(ctx):
    """requested residue graphs: (kind, resnames, edges); kind 'seq' goes through -seq, 'json' through a sequence file"""
    out = []
    for seq in (["A"], ["A", "A"], ["A", "A", "A"], ["A", "B"], ["B", "B"], ["A", "A", "B", "A"], ["C", "C"], ["A", "C", "B"], ["B", "C", "A", "A"], ["B", "A", "B", "A", "B"]):
        out.append(("seq", tuple(seq), tuple((i, i + 1) for i in range(len(seq) - 1))))
    out.append(("json", ("A", "B", "A", "B"), ((0, 1), (1, 2), (1, 3))))
    out.append(("json", ("A", "B", "C", "A", "B"), ((0, 1), (1, 2), (2, 3), (1, 4))))
    out.append(("json", ("B", "A", "A", "A"), ((0, 1), (0, 2), (0, 3))))
    out.append(("json", ("A", "A", "A"), ((0, 1), (1, 2))))
    # blocks with every restraint-like section (D) and with a cmap (E)
    for seq in (["D"], ["D", "D"], ["A", "D", "B"], ["D", "C", "D"], ["E"], ["A", "E", "A"]):
        out.append(("seq", tuple(seq), tuple((i, i + 1) for i in range(len(seq) - 1))))
    out.append(("json", ("D", "A", "D", "B"), ((0, 1), (1, 2), (1, 3))))
    if ctx.thorough:
        out.append(("json", ("A", "B", "A", "C", "B", "A"), ((0, 1), (1, 2), (2, 3), (1, 4), (4, 5))))
        out.append(("seq", ("A", "B", "C", "C", "B", "A"), tuple((i, i + 1) for i in range(5))))
        out.append(("json", ("C", "A", "B", "A", "C"), ((0, 1), (0, 2), (0, 3), (3, 4))))
    return out


def c11_constraint_graphs(ctx):
    """chains and branches in which the constraint-only junction (A-A, B-B or A-B, depending on the link set) comes first, in the middle, last,
    several times or not at all"""
    out = []
    for seq in ("AABB", "BBAA", "ABBA", "BAAB", "BB", "AA", "AB", "BBB", "AAAB", "ABAB", "BBABB", "AABBAA", "CBBC", "DAAD", "ABBD"):
        out.append(("seq", tuple(seq), tuple((i, i + 1) for i in range(len(seq) - 1))))
    out.append(("json", ("B", "B", "A", "A"), ((0, 1), (1, 2), (1, 3))))
    out.append(("json", ("A", "A", "B", "B", "B"), ((0, 1), (1, 2), (2, 3), (1, 4))))
    out.append(("json", ("A", "B", "B", "A", "A"), ((0, 1), (0, 2), (0, 3), (3, 4))))
    return out


# ---- thorough tier: generated force fields --------------------------------------------------------------------------------------------

C11_REAL = ("BB", "S1", "S2", "S3", "S4")
_P2 = [("BB", "S2"), ("S1", "S3"), ("S2", "S4"), ("BB", "S3"), ("S1", "S4")]
_P3 = [("BB", "S1", "S2"), ("S1", "S2", "S3"), ("S2", "S3", "S4"), ("BB", "S2", "S4"), ("S1", "BB", "S3")]
_P4 = [("BB", "S1", "S2", "S3"), ("S1", "S2", "S3", "S4"), ("BB", "S1", "S2", "S4"), ("BB", "S2", "S3", "S4"), ("S1", "BB", "S2", "S4")]
_P1 = [("BB",), ("S1",), ("S2",), ("S3",), ("S4",)]
# every interaction section a .ff block can carry that the itp writer emits and polyply's topology reader registers (cmap: K19, kept in block E;
# [ SETTLE ] is refused by the .ff reader itself, [ settles ] / [ virtual_sites1 ] exist in .itp input only: see C11_ITP_SECTIONS), with GROMACS
# function types of 1-6 parameters.  'site': number of defining atoms of a virtual-site section (the site itself is a fresh atom V<k>)
C11_CATALOGUE = {
    "bonds": dict(tuples=_P2, params=["1 0.31 1000", "2 0.31 1.0e+04", "6 0.31 500", "3 0.31 50.5 2.0", "7 0.5 1000", "1 0.470 3800"]),
    "constraints": dict(tuples=_P2, params=["1 0.25", "2 0.26", "1 0.3103"]),
    "angles": dict(tuples=_P3, params=["1 120 50", "2 120.5 50", "10 100 25", "5 120 50 0.5 100", "1 109.47 1e2", "6 100 1 2 3 4 5"]),
    "dihedrals": dict(tuples=_P4, params=["1 180 5 2", "9 0 1.5 3", "3 1.1 2.2 3.3 4.4 5.5 6.6", "2 10 40", "4 180 5 2", "11 1 2 3 4", "5 1 2 3 4", "1 -60.5 2.25 1"]),
    "impropers": dict(tuples=_P4, params=["2 35.26 50", "2 -35.26 50", "4 180 5 2", "2 0 100"]),
    "pairs": dict(tuples=_P2, params=["1", "1 0.3 0.5", "2 1.0 0.1 -0.1 0.3 0.5"]),
    "pairs_nb": dict(tuples=_P2, params=["1 0.1 -0.1 0.3 1.0", "1 0 0 0.47 3.5"]),
    "exclusions": dict(tuples=[("BB", "S2"), ("S1", "S3"), ("S2", "S4"), ("BB", "S3", "S4"), ("S1", "S4")], params=[""]),
    "position_restraints": dict(tuples=_P1, params=["1 1000 1000 1000", "1 500 0 500", "2 0.5 100"]),
    "distance_restraints": dict(tuples=_P2, params=["1 0 1 0.3 0.4 0.5 1.0", "1 1 2 0.3 0.4 0.5 2.0"]),
    "dihedral_restraints": dict(tuples=_P4, params=["1 180 0 10", "1 -60 5 1e3"]),
    "orientation_restraints": dict(tuples=_P2, params=["1 1 1 1.0 5.0 1.0", "2 1 3 2.0 6.0 0.5"]),
    "angle_restraints": dict(tuples=_P4, params=["1 90 100 1", "1 45 50 2"]),
    "angle_restraints_z": dict(tuples=_P2, params=["1 90 100 1", "1 30 10 2"]),
    "virtual_sites2": dict(site=2, params=["1 0.5", "1 0.25", "1 1.3", "2 0.1"]),
    "virtual_sites3": dict(site=3, params=["1 0.2 0.3", "2 0.4 0.1", "3 120 0.1", "4 0.2 0.3 1.5"]),
    "virtual_sites4": dict(site=4, params=["2 0.5 0.5 0.1", "2 0.8 1.2 -0.15"]),
    # virtual_sitesn: parameter = function type, number of defining atoms 1-4
    "virtual_sitesn": dict(site=None, params=["1/1", "1/2", "1/3", "1/4", "2/1", "2/2", "2/3", "2/4"]),
}
# sections that only polyply .itp input can carry (index syntax)
C11_ITP_SECTIONS = {
    "virtual_sites1": dict(params=["1"]),
    "settles": dict(params=["1 0.1 0.16", "1 0.09572 0.15139"]),
}
# guards / versions / other meta on several interactions of one section at once; 'same' puts the entries on the SAME atoms (the
# '#ifdef FLEXIBLE ... #else ...' idiom), told apart by a version as the .ff format requires
C11_GUARD_PATTERNS = [
    ("plain", [{}]),
    ("ifdef", [{"ifdef": "GX"}]),
    ("ifndef", [{"ifndef": "GX"}]),
    ("plain+ifdef", [{}, {"ifdef": "GX"}]),
    ("ifdef+ifndef", [{"ifdef": "GX"}, {"ifndef": "GX"}]),
    ("plain+ifdef+ifdef2+ifndef", [{}, {"ifdef": "GX"}, {"ifdef": "GY"}, {"ifndef": "GX"}]),
    ("group/comment/version", [{"group": "grp one", "ifdef": "GX"}, {"comment": "note", "ifndef": "GY"}, {"version": 2}, {"group": "grp one"}]),
    ("same atoms, ifdef / ifndef", "same"),
]
C11_ATOM_STYLES = 4


def c11_gen_block(name, entries, style=0, nrexcl=1):
    """a .ff block: atoms BB S1..S4 bonded in a chain + one virtual atom per virtual-site entry.
    entries: [(section, atoms, parameter string, meta dict)]; for virtual sites atoms = (site, defining atoms...).
    style: 0 masses and charges, one charge group; 1 no masses; 2 one charge group per atom, charges with many digits; 3 charge groups in pairs, no charges"""
    sites = []
    for sec, atoms, _p, _m in entries:
        if sec.startswith("virtual_sites") and atoms[0] not in sites:
            sites.append(atoms[0])
    lines = ["[ moleculetype ]", f"{name} {nrexcl}", "[ atoms ]"]
    charges = {0: [0.0, 0.25, -0.25, 0.5, -0.5], 1: [0.0] * 5, 2: [0.123456789, -0.123456789, 1e-3, -1e-3, 0.0], 3: [0.0] * 5}[style]
    for i, an in enumerate(C11_REAL + tuple(sites), start=1):
        real = i <= len(C11_REAL)
        cg = {0: 1, 1: 1, 2: i, 3: (i + 1) // 2}[style]
        q = charges[i - 1] if real else 0.0
        atype = "TA" if an == "BB" else ("TB" if real else "TV")
        mass = "" if style == 1 else (" 36.054" if an == "BB" else (" 72.0" if real else " 0.0"))
        lines.append(f"{i} {atype} 1 {name} {an} {cg} {q}{mass}")
    def entry(sec, atoms, params, meta):
        # 'atoms -- parameters {meta}': the separator is needed where the number of atoms is open (virtual_sitesn, exclusions)
        sep = " -- " if sec in ("virtual_sitesn", "exclusions") else " "
        return (" ".join(atoms) + sep + params).rstrip() + (" " + json.dumps(meta) if meta else "")
    by_section = {"bonds": []}
    for sec, atoms, params, meta in entries:
        by_section.setdefault(sec, []).append(entry(sec, atoms, params, meta))
    lines += ["[ bonds ]"] + [f"{a} {b} 1 0.3 1000" for a, b in zip(C11_REAL, C11_REAL[1:])] + by_section.pop("bonds")
    for sec, items in by_section.items():
        lines += [f"[ {sec} ]"] + items
    return "\n".join(lines) + "\n"


def c11_section_entries(section, variant, pattern):
    """the entries of one sweep block: `pattern` (a list of metas or 'same') over the atom tuples of `section`, parameters cycling from `variant`"""
    cat = C11_CATALOGUE[section]
    metas = pattern if pattern != "same" else [{"ifdef": "GX", "version": 1}, {"ifndef": "GX", "version": 2}]
    entries = []
    for k, meta in enumerate(metas):
        params = cat["params"][(variant + k) % len(cat["params"])]
        slot = 0 if pattern == "same" else k
        if "site" in cat:
            ndef = cat["site"]
            if section == "virtual_sitesn":
                funct, ndef = params.split("/")
                params, ndef = funct, int(ndef)
            start = slot % len(C11_REAL)
            defining = tuple(C11_REAL[(start + j) % len(C11_REAL)] for j in range(ndef))
            atoms = (f"V{slot + 1}",) + defining
        else:
            atoms = cat["tuples"][slot % len(cat["tuples"])]
        entries.append((section, atoms, params, dict(meta)))
    return entries


def c11_link_text(kind, names):
    rn = 'resname "%s"' % "|".join(names)
    L = lambda section, *lines: "\n".join(["[ link ]", rn, f"[ {section} ]"] + list(lines)) + "\n"     # noqa: E731
    if kind == "plain":
        return L("bonds", "BB >BB 1 0.35 1250")
    if kind == "constraint":
        return L("constraints", "BB >BB 1 0.35")
    if kind == "guarded-bond":
        return L("bonds", 'BB >BB 1 0.35 1250 {"ifdef": "FLEX"}') + L("constraints", 'BB >BB 1 0.35 {"ifndef": "FLEX"}')
    if kind == "guarded":
        return (L("bonds", 'BB >BB 1 0.350 1250 {"group": "backbone"}') + L("angles", 'BB >BB >>BB 1 140 30 {"ifdef": "STIFF"}')
                + L("dihedrals", 'BB >BB >>BB >>>BB 1 180 2.5 1 {"ifndef": "NOTORS"}') + L("constraints", 'S1 >BB 1 0.45 {"ifdef": "BRACE"}'))
    if kind == "rich":
        # several sections per junction, versions on the same atoms (multiple dihedral terms), guards on several entries at once
        return (L("bonds", 'BB >BB 1 0.35 1250 {"group": "backbone", "comment": "junction"}')
                + L("angles", 'BB >BB >>BB 2 140 30 {"ifdef": "STIFF", "version": 1}') + L("angles", 'BB >BB >>BB 10 150 15 {"ifndef": "STIFF", "version": 2}')
                + L("angles", 'S1 BB >BB 1 100 20.5')
                + L("dihedrals", 'BB >BB >>BB >>>BB 9 0 1.5 1 {"version": 1}', 'BB >BB >>BB >>>BB 9 0 0.5 2 {"version": 2}',
                    'BB >BB >>BB >>>BB 9 180 0.25 3 {"version": 3, "ifdef": "TORS"}')
                + L("impropers", 'BB S1 >BB >S1 2 0 50 {"ifndef": "NOIMP"}')
                + L("pairs", 'S1 >S1 1 {"ifdef": "PAIRS"}', 'S1 >S1 1 0.3 0.5 {"ifndef": "PAIRS", "version": 2}')
                + L("exclusions", 'S1 >BB', 'BB >S1 -- {"ifdef": "EXCL"}')
                + L("position_restraints", 'BB 1 100 100 100 {"ifdef": "POSRES"}')
                + L("distance_restraints", 'BB >BB 1 0 1 0.3 0.4 0.5 1.0 {"ifdef": "DISRES"}'))
    if kind == "partial":     # only the first two names are ever linked: other junctions are missing links
        return "\n".join(["[ link ]", 'resname "%s"' % "|".join(names[:2]), "[ bonds ]", "BB >BB 1 0.35 1250"]) + "\n"
    raise KeyError(kind)


C11_LINK_KINDS = ("plain", "constraint", "guarded-bond", "guarded", "rich", "partial")


def c11_all_shapes(nmax=5):
    """every connected graph on 1..nmax nodes up to isomorphism (networkx graph atlas): 1, 1, 2, 6, 21 for 1..5 nodes - all trees, all rings,
    every branched and fused shape"""
    from networkx.generators.atlas import graph_atlas_g
    out = []
    for g in graph_atlas_g():
        n = g.number_of_nodes()
        if 1 <= n <= nmax and nx.is_connected(g):
            out.append((n, tuple(sorted(tuple(sorted(e)) for e in g.edges))))
    return out


def c11_shape_kind(n, edges):
    m = len(edges)
    if m == n - 1:
        deg = max([sum(1 for e in edges if v in e) for v in range(n)] or [0])
        return "path" if deg <= 2 else "tree"
    if m == n and all(sum(1 for e in edges if v in e) == 2 for v in range(n)):
        return "ring"
    return "cyclic"


def c11_itp_block(name, section, params, guard=None):
    """a block in polyply .itp input syntax (atom indices) with one of the sections only that syntax can carry"""
    lines = ["[ moleculetype ]", f"{name} 1", "[ atoms ]", f"1 TA 1 {name} BB 1 0.0 36.0", f"2 TB 1 {name} S1 1 0.1 72.0", f"3 TB 1 {name} S2 2 -0.1 72.0",
             f"4 TV 1 {name} V1 3 0.0 0.0", "[ bonds ]", "1 2 1 0.3 1000", "2 3 1 0.3 1000", f"[ {section} ]"]
    body = {"virtual_sites1": f"4 1 {params}", "settles": f"1 {params}"}[section]
    if guard:
        lines += [f"#{guard[0]} {guard[1]}", body, "#endif"]
    else:
        lines.append(body)
    if section != "virtual_sites1":
        lines += ["[ virtual_sitesn ]", "4 1 1 2 3"]
    return "\n".join(lines) + "\n"


def c11_slow_template(entries):
    """gen_coords gives up on a residue template only after 12 rounds of numerical optimisation (minutes on one core) when the targets it optimises cannot be met
    together: type-2 impropers next to each other, or two entries with different targets on the same atoms (the #ifdef / #ifndef idiom).  For such generated
    blocks the file is still written, re-read and compared; only the additional gen_coords run is left out (decided from the input, before anything is run)"""
    seen = set()
    for sec, atoms, params, _meta in entries:
        if sec == "impropers" or (sec == "dihedrals" and params.split()[0] == "2"):
            return True
        if sec in ("bonds", "constraints", "angles"):
            if (sec, frozenset(atoms)) in seen:
                return True
            seen.add((sec, frozenset(atoms)))
    return False


_c11_chain = lambda seq: tuple((i, i + 1) for i in range(len(seq) - 1))       # noqa: E731
C11_NAMES_X = ("A", "B", "X")
# the sequence contexts of a generated block X: X alone; X:2; A X B via -seq; branched X(A)(X-B) via .json
C11_CONTEXTS = [("seq", ("X",), ()), ("seq", ("X", "X"), ((0, 1),)), ("seq", ("A", "X", "B"), _c11_chain("AXB")),
                ("json", ("X", "A", "X", "B"), ((0, 1), (0, 2), (2, 3)))]
# edge inputs: one entry guarded by #ifdef AND #ifndef (section, atoms, parameters); virtual_sitesn with explicit weights (site + defining atoms, 'funct weights')
C11_EDGE_BOTH_GUARDS = (("bonds", ("BB", "S2"), "1 0.31 1000"), ("angles", ("BB", "S1", "S2"), "1 120 50"), ("position_restraints", ("S1",), "1 500 0 500"),
                        ("virtual_sites2", ("V1", "BB", "S1"), "1 0.5"))
C11_EDGE_WEIGHTS = ((("V1", "BB", "S1"), "3 1.0 3.0"), (("V1", "BB", "S1", "S2"), "3 1 2 1"), (("V1", "S1", "S2", "S3", "S4"), "3 0.5 0.25 0.125 0.125"))


def c11_sweep_world(section, variant, gi, graph):
    """family (S): block X with `section` in parameter variant `variant` under guard pattern number `gi`, in sequence context `graph`"""
    gname, pattern = C11_GUARD_PATTERNS[gi]
    entries = c11_section_entries(section, variant, pattern)
    block = c11_gen_block("X", entries, style=(variant + gi) % C11_ATOM_STYLES, nrexcl=1 + (variant + gi) % 3)
    link = c11_link_text(("plain", "guarded", "rich")[(variant + gi) % 3], C11_NAMES_X)
    ff = block + C11_BLOCKS["A"] + C11_BLOCKS["B"] + link
    return dict(family="sweep", files=(("ff.ff", ff),), graph=graph, focus=section, gen_coords=not c11_slow_template(entries),
                what=f"section {section}, parameters from variant {variant}, guards: {gname}")


def c11_both_guards_world(section, atoms, params, graph):
    """family (E): block X with one entry of `section` guarded by #ifdef AND #ifndef"""
    block = c11_gen_block("X", [(section, atoms, params, {"ifdef": "GX", "ifndef": "GY"})])
    ff = block + C11_BLOCKS["A"] + C11_BLOCKS["B"] + c11_link_text("plain", C11_NAMES_X)
    return dict(family="edge", files=(("ff.ff", ff),), graph=graph, focus=section, what=f"section {section}: one entry with both an ifdef and an ifndef guard",
                extra={"both_guards": True})


def c11_weights_world(atoms, weights, graph):
    """family (E): block X with a virtual_sitesn construction of function type 3 (centre of weights)"""
    block = c11_gen_block("X", [("virtual_sitesn", atoms, weights, {})])
    ff = block + C11_BLOCKS["A"] + C11_BLOCKS["B"] + c11_link_text("plain", C11_NAMES_X)
    return dict(family="edge", files=(("ff.ff", ff),), graph=graph, focus="virtual_sitesn",
                what=f"virtual_sitesn funct 3 (centre of weights) over {len(atoms) - 1} atoms, weights {weights[2:]}")


def c11_generated_job(ctx, d, jid, family, files, graph, focus=None, gen_coords=True, jopts=None, what="", extra=None):
    """the job of a world that carries its own input files (thorough families and the witness worlds)"""
    return dict(extra or {}, dir=d, id=jid, links=family, graph=graph, files=files, focus=focus, json=jopts, what=what,
                seed=_seed_of("c11", ctx.seed, jid), run_gen_coords=gen_coords, family=family)


# ---- witness worlds (quick tier): the minimal members of the thorough families (S) and (E) on which input classes of their own were
# observed, ONE per class, in the smallest sequence context (-seq X:1).  They are built by the constructors the thorough tier enumerates
# with and run through c11_world like every other world; the thorough tier meets the same worlds inside its families.
def c11_witness_worlds():
    x1 = C11_CONTEXTS[0]
    return [c11_both_guards_world(*C11_EDGE_BOTH_GUARDS[0], x1),         # a bond guarded by #ifdef GX and #ifndef GY
            c11_weights_world(*C11_EDGE_WEIGHTS[0], x1),                 # virtual_sitesn funct 3, two atom-weight pairs
            c11_sweep_world("virtual_sites2", 3, 0, x1)]                 # virtual_sites2 funct 2 ('2 0.1'), unguarded: gen_coords is run on the file


def c11_thorough_jobs(ctx, d, first_id):
    """the thorough-only families; every job carries its own input files"""
    jobs, seen = [], set()

    def add(family, files, graph, focus=None, gen_coords=True, jopts=None, what="", extra=None):
        key = (tuple(files), graph, json.dumps(jopts, sort_keys=True))
        if key in seen:
            return
        seen.add(key)
        jobs.append(c11_generated_job(ctx, d, first_id + len(jobs), family, files, graph, focus=focus, gen_coords=gen_coords, jopts=jopts, what=what, extra=extra))
    chain = _c11_chain
    names_x = C11_NAMES_X
    contexts = C11_CONTEXTS
    # (S) one section x parameter variant x guard pattern, in four sequence contexts
    for section, cat in C11_CATALOGUE.items():
        for variant in range(len(cat["params"])):
            for gi in range(len(C11_GUARD_PATTERNS)):
                for graph in contexts:
                    add(**c11_sweep_world(section, variant, gi, graph))
    # (E) edge inputs: one interaction guarded by #ifdef AND #ifndef; virtual_sitesn with explicit weights (funct 3); long chains (two-digit residue ids, 3-digit atom indices)
    for section, atoms, params in C11_EDGE_BOTH_GUARDS:
        for graph in contexts[:2]:
            add(**c11_both_guards_world(section, atoms, params, graph))
    for atoms, weights in C11_EDGE_WEIGHTS:
        for graph in contexts[:2]:
            add(**c11_weights_world(atoms, weights, graph))
    for seq in ("X" * 10, "AB" * 6, "XAXB" * 5, "B" * 25, "X" * 21):
        block = c11_gen_block("X", c11_section_entries("angles", 0, C11_GUARD_PATTERNS[5][1]) + c11_section_entries("virtual_sitesn", 2, C11_GUARD_PATTERNS[3][1]), style=2)
        for lk in ("plain", "rich"):
            ff = block + C11_BLOCKS["A"] + C11_BLOCKS["B"] + c11_link_text(lk, names_x)
            add("edge", (("ff.ff", ff),), ("seq", tuple(seq), chain(seq)), gen_coords=len(seq) <= 12, what=f"chain of {len(seq)} residues, links {lk}")
    # (I) sections only .itp input can carry
    for section, cat in C11_ITP_SECTIONS.items():
        for params in cat["params"]:
            for guard in (None, ("ifdef", "GX"), ("ifndef", "GX")):
                itp = c11_itp_block("X", section, params, guard)
                for lk in ("plain", "rich"):
                    ff = C11_BLOCKS["A"] + C11_BLOCKS["B"] + c11_link_text(lk, names_x)
                    for graph in contexts:
                        add("itp-input", (("ff.ff", ff), ("x.itp", itp)), graph, focus=section, what=f".itp input block with [ {section} ] {params}, guard {guard}")
    # (G) every connected residue graph on 1-5 residues x numberings x residue names x link sets
    std = "\n".join(C11_BLOCKS[b] for b in "ABCD") + "\n"
    shapes = c11_all_shapes(5)
    for si, (n, edges) in enumerate(shapes):
        rs = np.random.RandomState(_seed_of("c11-shape", ctx.seed, si))
        numberings = [list(range(n))] + ([list(rs.permutation(n))] if n >= 3 else [])
        for ni, perm in enumerate(numberings):
            e2 = tuple(sorted(tuple(sorted((int(perm[a]), int(perm[b])))) for a, b in edges))
            labellings = [tuple("A" * n), tuple(rs.choice(list("AB"), n)), tuple(rs.choice(list("ABCD"), n)), tuple(rs.choice(list("ABCD"), n))]
            for li, names in enumerate(labellings):
                names = tuple(str(x) for x in names)
                for ki, lk in enumerate(C11_LINK_KINDS):
                    ff = std + c11_link_text(lk, ("A", "B", "C", "D"))
                    jopts = [None, {"resid": True}, {"order": 1 + si + li}, {"resid": True, "order": 7 + si}][(si + ni + li + ki) % 4]
                    add("shapes", (("ff.ff", ff),), ("json", names, e2), jopts=jopts, what=f"{c11_shape_kind(n, edges)} of {n} residues, links {lk}")
                    if ni == 0 and e2 == chain(names):          # a path numbered along the chain can also be asked for with -seq
                        add("shapes", (("ff.ff", ff),), ("seq", names, e2), what=f"path of {n} residues through -seq, links {lk}")
    # (M) multi-block mixes: three generated blocks with several guarded sections each + A, B on seeded-random graphs
    sections = list(C11_CATALOGUE)
    metas = [{}, {}, {"ifdef": "GX"}, {"ifndef": "GX"}, {"ifdef": "GY"}, {"ifndef": "GY"}, {"group": "g"}, {"ifdef": "GX", "group": "g"}, {"comment": "c", "ifndef": "GY"}]
    nmix = 1000
    for mi in range(nmix):
        rs = np.random.RandomState(_seed_of("c11-mix", ctx.seed, mi))
        blocks, slow = [], False
        for bname in "PQR":
            entries, used, nsite = [], set(), 0
            for _ in range(int(rs.randint(2, 7))):
                section = sections[int(rs.randint(len(sections)))]
                cat = C11_CATALOGUE[section]
                params = cat["params"][int(rs.randint(len(cat["params"])))]
                meta = dict(metas[int(rs.randint(len(metas)))])
                if "site" in cat:
                    ndef = cat["site"]
                    if section == "virtual_sitesn":
                        params, ndef = params.split("/")
                        ndef = int(ndef)
                    if nsite >= 3:
                        continue
                    nsite += 1
                    start = int(rs.randint(len(C11_REAL)))
                    atoms = (f"V{nsite}",) + tuple(C11_REAL[(start + j) % len(C11_REAL)] for j in range(ndef))
                else:
                    atoms = cat["tuples"][int(rs.randint(len(cat["tuples"])))]
                    if (section, frozenset(atoms)) in used:
                        meta["version"] = len(used) + 1
                    used.add((section, frozenset(atoms)))
                entries.append((section, atoms, params, meta))
            blocks.append(c11_gen_block(bname, entries, style=int(rs.randint(C11_ATOM_STYLES)), nrexcl=int(rs.randint(1, 4))))
            slow = slow or c11_slow_template(entries)
        n, edges = shapes[int(rs.randint(len(shapes)))]
        perm = rs.permutation(n)
        e2 = tuple(sorted(tuple(sorted((int(perm[a]), int(perm[b])))) for a, b in edges))
        names = tuple(str(x) for x in rs.choice(list("PQRAB"), n, p=[0.25, 0.25, 0.25, 0.125, 0.125]))
        lk = C11_LINK_KINDS[int(rs.randint(len(C11_LINK_KINDS)))]
        ff = "".join(blocks) + C11_BLOCKS["A"] + C11_BLOCKS["B"] + c11_link_text(lk, ("P", "Q", "R", "A", "B"))
        kind = "seq" if (e2 == chain(names) and rs.rand() < 0.5) else "json"
        jopts = None if kind == "seq" else [None, {"resid": True}, {"order": 1 + mi}][int(rs.randint(3))]
        add("mix", (("ff.ff", ff),), (kind, names, e2), jopts=jopts, gen_coords=not slow, what=f"random blocks P, Q, R + A, B; {c11_shape_kind(n, edges)} of {n} residues, links {lk}")
    return jobs


def c11_norm_param(p):
    try:
        return round(float(p), 9)
    except (TypeError, ValueError):
        return str(p)


def c11_observe(molecule):
    """what the statement compares: atoms (name, type, residue, charge, mass) in index order and interactions
    (section, atoms, parameters, #ifdef/#ifndef guard) as a multiset; node keys are mapped to positions"""
    nodes = sorted(molecule.nodes)
    pos = {n: i for i, n in enumerate(nodes)}
    atoms = []
    for n in nodes:
        a = molecule.nodes[n]
        mass = a.get("mass")
        atoms.append((a.get("atomname"), a.get("atype"), a.get("resname"), a.get("resid"), round(float(a.get("charge", 0.0)), 9),
                      None if mass is None else round(float(mass), 9)))
    inter = []
    for section, items in molecule.interactions.items():
        for it in items:
            guard = tuple((k, it.meta[k]) for k in ("ifdef", "ifndef") if k in (it.meta or {}))
            atoms_ = tuple(pos[x] for x in it.atoms)
            # GROMACS has one [ dihedrals ] directive (the force-field reader files funct 2 under 'impropers'), and a bond, pair, exclusion,
            # constraint, angle or dihedral listed back to front is the same interaction
            sec = "dihedrals" if section == "impropers" else section
            if sec in ("bonds", "constraints", "pairs", "exclusions", "angles", "dihedrals"):
                atoms_ = min(atoms_, atoms_[::-1])
            inter.append((sec, atoms_, tuple(c11_norm_param(x) for x in it.parameters), guard))
    return atoms, sorted(inter, key=repr)


def c11_world(job):
    d, tag = job["dir"], f"c11_{job['id']}"
    gi = load("polyply.src.gen_itp")
    top_mod = load("polyply.src.topology")
    gc = load("polyply.src.gen_coords")
    import random as pyrandom
    from pathlib import Path
    np.random.seed(job["seed"])
    pyrandom.seed(job["seed"])
    bads = []
    captured = []
    cls = gi.ApplyModifications
    orig = cls.run_molecule
    if getattr(orig, "_bounded_wrapper", False):
        orig = orig._real

    def recording_run_molecule(self, meta_molecule):
        out = orig(self, meta_molecule)
        captured.append(c11_observe(out.molecule))        # observed at this point: the molecule "that was built"
        return out
    recording_run_molecule._bounded_wrapper, recording_run_molecule._real = True, orig
    cls.run_molecule = recording_run_molecule
    wd = os.path.join(d, tag)
    os.makedirs(wd, exist_ok=True)
    try:
        kind, resnames, edges = job["graph"]
        # thorough families bring their own input files [(file name, text)]; the quick worlds use the fixed blocks A-E + a named link set
        files = job.get("files") or [("ff.ff", "\n".join(C11_BLOCKS[b] for b in ("A", "B", "C", "D", "E")) + "\n" + C11_LINKS[job["links"]])]
        inpath = [Path(_write(os.path.join(wd, fname), text)) for fname, text in files]
        out = Path(os.path.join(wd, "out.itp"))
        kw = {}
        if kind == "seq":
            seq, k = [], 0
            while k < len(resnames):
                j = k
                while j < len(resnames) and resnames[j] == resnames[k]:
                    j += 1
                seq.append(f"{resnames[k]}:{j - k}")
                k = j
            kw["seq"] = seq
        else:
            data = {"directed": False, "multigraph": False, "graph": {}, "nodes": [{"id": i, "resname": rn} for i, rn in enumerate(resnames)],
                    "edges": [{"source": a, "target": b} for a, b in edges]}
            jopts = job.get("json") or {}
            if jopts.get("resid"):                      # residue ids spelled out in the file (the same ids a file without them stands for)
                for nd in data["nodes"]:
                    nd["resid"] = nd["id"] + 1
            if jopts.get("order"):                      # nodes / edges listed in another order, edges written target-first
                rs = np.random.RandomState(jopts["order"])
                data["nodes"] = [data["nodes"][i] for i in rs.permutation(len(data["nodes"]))]
                data["edges"] = [data["edges"][i] for i in rs.permutation(len(data["edges"]))]
                data["edges"] = [{"source": e["target"], "target": e["source"]} if rs.rand() < 0.5 else e for e in data["edges"]]
            kw["seq_file"] = Path(_write(os.path.join(wd, "seq.json"), json.dumps(data)))
        try:
            gi.gen_params(name="poly", outpath=out, inpath=inpath, **kw)
        except Exception as e:      # noqa: BLE001
            import traceback
            tb = traceback.extract_tb(e.__traceback__)[-1]
            key = "c11-gen-params-exception:" + type(e).__name__
            if job.get("both_guards") and not out.exists():
                # an interaction that is active under '#ifdef P' AND '#ifndef Q' passed mapping and link application; the statement wants the file written
                key = "c11-ifdef-and-ifndef-not-written"
            return True, [(key, f"gen_params: {type(e).__name__}: {e} at {os.path.basename(tb.filename)}:{tb.lineno}")]
        if not out.exists():
            return True, [("c11-file-not-written", "gen_params returned but the output file does not exist")]
        if len(captured) != 1:
            return True, [("c11-world-setup", f"{len(captured)} molecules captured")]
        atoms_b, inter_b = captured[0]
        types = "TA 36.0 0.0 A 0.40 1.0\nTB 72.0 0.0 A 0.45 1.0\nTV 0.0 0.0 V 0.0 0.0\n"
        has_cmap = any(sec == "cmap" for (sec, *_r) in inter_b)
        top_path = _write(os.path.join(wd, "sys.top"), "[ defaults ]\n1 2 no 1.0 1.0\n\n[ atomtypes ]\n" + types + '\n#include "out.itp"\n\n[ system ]\nbounded\n\n[ molecules ]\npoly 1\n')
        try:
            top = top_mod.Topology.from_gmx_topfile(top_path, "bounded")
        except OSError as e:
            if has_cmap and "cmap" in str(e):
                return True, [("c11-cmap-section-not-readable", f"gen_params wrote a [ cmap ] section ({sum(1 for x in inter_b if x[0] == 'cmap')} entries); "
                                                               f"reading the file back: {type(e).__name__}: {e}")]
            weighted = [x for x in inter_b if x[0] == "virtual_sitesn" and len(x[2]) > 1]
            if weighted and "virtual_sitesn" in str(e):
                with open(out) as fh:
                    written = [ln.rstrip() for ln in fh.read().split("[ virtual_sitesn ]")[-1].splitlines() if ln.strip()][:2]
                return True, [("c11-vsn-weights-not-readable", f"the built molecule has {len(weighted)} virtual_sitesn construction(s) with weights (funct 3), e.g. {weighted[0]}; "
                                                              f"gen_params wrote {written}; reading the file back: {type(e).__name__}: {e}")]
            raise
        if len(top.molecules) != 1:
            return True, [("c11-reread", f"{len(top.molecules)} molecules read back")]
        back = top.molecules[0]
        atoms_r, inter_r = c11_observe(back.molecule)
        if atoms_b != atoms_r:
            diff = [(i, x, y) for i, (x, y) in enumerate(zip(atoms_b, atoms_r)) if x != y][:3]
            bads.append(("c11-atoms-differ", f"{len(atoms_b)} atoms built, {len(atoms_r)} read back; first differences (index, built, file) {diff}"))
        if inter_b != inter_r:
            only_b = [x for x in inter_b if x not in inter_r][:4]
            only_r = [x for x in inter_r if x not in inter_b][:4]
            if not only_b and not only_r:
                from collections import Counter
                cb, cr = Counter(inter_b), Counter(inter_r)
                only_b = [(x, cb[x], cr[x]) for x in cb if cb[x] != cr[x]][:4]
            guard_only = bool(only_b) and all(any(y[:3] == x[:3] for y in inter_r) for x in only_b if len(x) == 4)
            key = "c11-guards-differ" if guard_only else "c11-interactions-differ"
            if only_b and all(len(x) == 4 and x[0] == "virtual_sitesn" and len(x[2]) > 1 for x in only_b):
                key = "c11-vsn-weights-not-readable"        # funct 3: the weights are written between function type and atoms and come back as atom indices
            bads.append((key, f"interactions only in the built molecule {only_b}; only in the file {only_r}"))
        # residue graph
        want = nx.Graph()
        for i, rn in enumerate(resnames):
            want.add_node(i, resname=rn, resid=i + 1)
        want.add_edges_from(edges)
        # a link is missing iff an edge of the requested graph has no bond/constraint between its residues in the built molecule
        joined = set()
        for (section, atoms_, _params, _guard) in inter_b:
            if section in ("bonds", "constraints"):
                ra, rb = atoms_b[atoms_[0]][3], atoms_b[atoms_[1]][3]
                if ra != rb:
                    joined.add(frozenset((ra, rb)))
        missing = [e for e in edges if frozenset((e[0] + 1, e[1] + 1)) not in joined]
        if not missing:
            got = nx.Graph()
            for n in back.nodes:
                got.add_node(n, resname=back.nodes[n]["resname"], resid=back.nodes[n]["resid"])
            got.add_edges_from(back.edges)
            if not nx.is_isomorphic(want, got, node_match=lambda x, y: x["resname"] == y["resname"] and x["resid"] == y["resid"]):
                bads.append(("c11-residue-graph-differs", f"requested residues {list(want.nodes(data=True))} edges {list(want.edges)}; "
                                                          f"recovered {list(got.nodes(data=True))} edges {list(got.edges)}"))
            elif job["run_gen_coords"]:
                gro = Path(os.path.join(wd, "out.gro"))
                try:
                    gc.gen_coords(Path(top_path), gro, "bounded", box=np.array([7.0, 7.0, 7.0]))
                    atoms, _ = read_gro(gro)
                    if [(a[1], a[2]) for a in atoms] != [(x[2], x[0]) for x in atoms_b]:
                        bads.append(("c11-gen-coords-output", f"gen_coords wrote atoms {[(a[1], a[2]) for a in atoms]}"))
                    elif not all(np.all(np.isfinite(a[3])) for a in atoms):
                        bads.append(("c11-gen-coords-output", "non-finite coordinates"))
                except Exception as e:      # noqa: BLE001
                    import traceback
                    tb = traceback.extract_tb(e.__traceback__)[-1]
                    key = "c11-gen-coords-rejects:" + type(e).__name__
                    if isinstance(e, KeyError) and "virtual_sites" in str(e):
                        key = "c11-gen-coords-virtual-site-kind-unsupported"       # (section, function type) the template builder has no construction for
                    bads.append((key, f"gen_coords on the generated file: {type(e).__name__}: {e} at {os.path.basename(tb.filename)}:{tb.lineno}"))
        nontrivial = len(resnames) >= 2
        if job.get("focus"):            # section sweeps: a one-residue world counts when the section under test reached the built molecule
            focus = "dihedrals" if job["focus"] == "impropers" else job["focus"]
            nontrivial = nontrivial or any(x[0] == focus for x in inter_b)
        return nontrivial, bads, {"missing_links": len(missing), "atoms": len(atoms_b), "interactions": len(inter_b),
                                  "guarded": sum(1 for x in inter_b if x[3]), "sections": sorted({x[0] for x in inter_b})}
    except Exception as e:      # noqa: BLE001
        import traceback
        tb = traceback.extract_tb(e.__traceback__)[-1]
        bads.append(("c11-exception:" + type(e).__name__, f"{type(e).__name__}: {e} at {os.path.basename(tb.filename)}:{tb.lineno}"))
        return True, bads
    finally:
        cls.run_molecule = orig
        c11_forget_deferred_files()


def c11_forget_deferred_files():
    """gen_params writes through vermouth's process-wide DeferredFileWriter; when it raises between opening and writing, the pending temporary
    file stays registered and the NEXT gen_params call of the same process would move it.  Every world stands for one program run, so pending
    files of a failed world are dropped (harness isolation; nothing is pending after a successful run)"""
    try:
        from vermouth.file_writer import DeferredFileWriter
        pending = DeferredFileWriter().open_files
        while pending:
            tmp_path = pending.popleft()[0]
            try:
                os.remove(tmp_path)
            except OSError:
                pass
    except Exception:       # noqa: BLE001
        pass


def c11_thorough_bound_text(n, families, sections_seen):
    nsec = sum(len(c["params"]) for c in C11_CATALOGUE.values())
    fam = "; ".join(f"{k}: {v['worlds']} worlds ({v['complete']} without a missing link, {v['guarded']} with guarded interactions)" for k, v in families.items())
    return (f".  THOROUGH adds {n} distinct worlds with generated input files.  SWEEP (exhaustive): a 5-atom block X with one of {len(C11_CATALOGUE)} .ff sections "
            f"({', '.join(C11_CATALOGUE)}) in each of its function-type / parameter-count variants ({nsec} in all; virtual_sitesn funct 1-2 with 1-4 defining atoms) x "
            f"{len(C11_GUARD_PATTERNS)} guard patterns over up to 4 entries of the section at once (none, #ifdef, #ifndef, mixed, two tags, group / comment / version meta, "
            f"#ifdef and #ifndef entry on the same atoms) x {C11_ATOM_STYLES} atom styles (masses absent, charge groups 1 / per atom / in pairs, 9-digit charges) and nrexcl 1-3 "
            "x 4 sequences (X; X:2; A X B via -seq; branched X(A)(X-B) via .json) with plain / guarded / rich links.  EDGE: one entry guarded by #ifdef AND #ifndef "
            "(4 sections), virtual_sitesn funct 3 with 2-4 weights, chains of 10-25 residues (two-digit residue ids, 3-digit atom indices).  ITP-INPUT: blocks in polyply .itp syntax with "
            "[ virtual_sites1 ] and [ settles ] (only that syntax carries them), unguarded / #ifdef / #ifndef.  SHAPES (exhaustive): every connected graph on 1-5 residues "
            "(31: all trees, rings 3-5, every branched / fused shape) x atlas numbering and a seeded renumbering x 4 residue-name labellings (all A; seeded over A,B; 2 x seeded over A-D) "
            f"x {len(C11_LINK_KINDS)} link sets ({', '.join(C11_LINK_KINDS)}; 'rich' = bond + 3 angles (2 versions) + 3 dihedral terms on the same atoms (versions) + improper + pairs + "
            "exclusions + position / distance restraints, guards on 8 of them) through .json (residue ids implicit / spelled out, nodes and edges in file order / shuffled) and, for "
            f"paths, also -seq.  MIX (seeded): {families.get('mix', {}).get('worlds', 0)} force fields of three generated blocks P, Q, R (2-6 random entries from the catalogue each, "
            "random guards / groups / comments / versions, up to 3 virtual sites) + A, B on a random shape with random residue names, link set and sequence input"
            ".  gen_coords is run on every file without a missing link except where a generated block has type-2 improper targets or two different targets on the same atoms "
            "(its template optimiser gives up only after 12 rounds, minutes per world) and for chains of more than 12 residues"
            f".  Sections seen in built molecules: {', '.join(sorted(sections_seen))}.  Per family - {fam}")


def run_c11(ctx, res):
    d = _scratch()
    try:
        jobs = []
        for links in C11_LINKS:
            graphs = c11_constraint_graphs(ctx) if links.startswith("constraint-") else c11_graphs(ctx)
            for graph in graphs:
                jobs.append(dict(dir=d, id=len(jobs), links=links, graph=graph, seed=_seed_of("c11", ctx.seed, len(jobs)), run_gen_coords=True))
        nfixed = len(jobs)
        if ctx.thorough:
            jobs += c11_thorough_jobs(ctx, d, first_id=len(jobs))
        else:       # the witness worlds of classes that otherwise only the thorough families reach (the thorough tier enumerates them there)
            for w in c11_witness_worlds():
                jobs.append(c11_generated_job(ctx, d, len(jobs), **w))
        nwitness = len(jobs) - nfixed if not ctx.thorough else 0
        out = _pool_map(c11_world, jobs, chunksize=1 if not ctx.thorough else 8)
    finally:
        shutil.rmtree(d, ignore_errors=True)
    classes, stats = {}, {"missing_links": 0, "atoms": 0, "interactions": 0, "guarded": 0, "complete": 0}
    families, sections_seen, smallest = {}, set(), {}
    for job, result in zip(jobs, out):
        nt, bads = result[0], result[1]
        res.evaluations += 1
        res.nontrivial += int(bool(nt))
        fam = families.setdefault(job.get("family", "fixed"), {"worlds": 0, "complete": 0, "guarded": 0})
        fam["worlds"] += 1
        if len(result) > 2:
            for k in ("atoms", "interactions", "guarded"):
                stats[k] += result[2][k]
            stats["missing_links"] += int(result[2]["missing_links"] > 0)
            stats["complete"] += int(result[2]["missing_links"] == 0)
            fam["complete"] += int(result[2]["missing_links"] == 0)
            fam["guarded"] += int(result[2]["guarded"] > 0)
            sections_seen |= set(result[2].get("sections", ()))
        desc = {"links": job["links"], "force_field": "blocks A-E + links '" + job["links"] + "'", "sequence_kind": job["graph"][0],
                "residues": list(job["graph"][1]), "edges": [list(e) for e in job["graph"][2]]}
        if job.get("files"):
            desc.update({"force_field": job["what"], "input_files": {fname: text for fname, text in job["files"]}, "json_options": job.get("json")})
        if not bads and nt and len(res.samples) < 3 and job["links"] == "guarded" and len(job["graph"][1]) >= 4:
            res.samples.append(desc)
        for bad in bads:
            classes[bad[0]] = classes.get(bad[0], 0) + 1
            if ctx.thorough:        # one Violation per class: the smallest violating input of the class
                size = (len(desc["residues"]), sum(len(x) for x in desc.get("input_files", {}).values()))
                if bad[0] not in smallest or size < smallest[bad[0]][0]:
                    smallest[bad[0]] = (size, Violation("c11-itp-roundtrip", _short(f"{bad[1]}  [{json.dumps(desc)}]", 900), inputs=desc, detail=bad[1], replayed=True, finding_key=bad[0]))
            elif len(res.violations) < 25 and bad[0] not in {v.finding_key for v in res.violations}:
                res.violations.append(Violation("c11-itp-roundtrip", _short(f"{bad[1]}  [{json.dumps(desc)}]", 900), inputs=desc, detail=bad[1], replayed=True, finding_key=bad[0]))
    res.violations += [v for _size, v in smallest.values()][:25]
    res.bound = (f"{len(jobs)} worlds = " + (f"{nwitness} witness worlds + " if nwitness else "") + f"{len(C11_LINKS)} force fields: 5 blocks of 2-6 atoms covering every moleculetype section the topology reader registers and the writer emits "
                 "(bonds, constraints, angles, proper/improper dihedrals, exclusions, pairs, pairs_nb, virtual_sites2/3/4/n, position_, distance_, dihedral_, orientation_, angle_ and "
                 "angle_z restraints, cmap), #ifdef- and #ifndef-guarded entries in most of them, masses present and absent, nrexcl 1-3; link sets: plain, guarded angles/dihedrals/constraints, "
                 "partial (links missing for block C), guarded backbone bond, and four sets in which the junction A-A / B-B / A-B / every junction is ONLY a constraint while the others are bonds "
                 "x residue graphs (chains of 1-6 via -seq, branched graphs of 3-5 via a .json sequence file; constraint-only junction first / middle / last / repeated / absent): "
                 f"gen_params -> file -> Topology.from_gmx_topfile; {stats['atoms']} atoms and {stats['interactions']} interactions compared ({stats['guarded']} guarded); "
                 f"{stats['complete']} worlds without a missing link (residue graph compared, gen_coords run on the file), {stats['missing_links']} with missing links"
                 + (c11_thorough_bound_text(len(jobs) - nfixed, families, sections_seen) if ctx.thorough else
                    f".  WITNESS WORLDS ({nwitness}; members of the SWEEP / EDGE families the thorough tier enumerates, one per input class observed there, each a generated 5-atom block X "
                    "asked for with -seq X:1): one bond guarded by #ifdef AND #ifndef; virtual_sitesn funct 3 with two atom-weight pairs; virtual_sites2 funct 2")
                 + (f".  Violation classes seen (worlds): {classes}" if classes else ""))
    res.rule = ("the built molecule is captured by a pass-through wrapper around ApplyModifications.run_molecule inside gen_params; atoms compared in index order, interactions as a multiset of "
                "(section, atoms, parameters numerically, guard); non-trivial iff >= 2 residues"
                " or, in a one-residue world with a generated block (section sweeps of the thorough tier, witness worlds), the section under test is present in the built molecule"
                " (or gen_params refused the input)"
                + ("; generated worlds are de-duplicated on (input files, residue graph, sequence-file options) before they are run" if ctx.thorough else ""))
    res.exhaustive = True
    res.assumptions.append("bounded: vermouth's itp writer/reader are exercised, not proved; a link counts as missing iff a requested edge has no bond or constraint between its residues")


UNITS = [BUnit("c17-schedules", run_c17), BUnit("c18-selections", run_c18), BUnit("c15-templates", run_c15), BUnit("c11-itp-roundtrip", run_c11)]

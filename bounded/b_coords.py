"""Tier B for C03 / C04 / C05 / C07: executable contracts on the REAL program function
polyply.src.gen_coords.gen_coords, driven the way bin/polyply drives it (keyword set of the CLI, Path objects,
-box as three 0-d arrays) on generated input FILES (.top + included .itp, .gro, .bld, grid) in a scratch
directory.  Oracles are written from the property statements in /verif/properties.jsonl; what is read from the
running program is only what the statements name as observable (the written .gro, the Topology after
BuildSystem / Backmap, the engine's interaction matrix, calls to NonBondEngine.add_positions and
RandomWalk.update_positions).  Bounded stand-in: never counted as proved."""
import itertools
import os
import random
import shutil
import signal
import tempfile
import traceback
from pathlib import Path

import numpy as np

from vlib.realcode import load
from vlib.framework import BUnit, Violation

os.environ.setdefault("TQDM_DISABLE", "1")


def _one_blas_thread():
    """pool initializer.  16 workers x 16 OpenBLAS threads each make the tiny L-BFGS problems of the template generator
    ~20x slower (measured 0.9 s vs 0.04 s per world); the thread count of the already loaded libraries is set to 1
    (what threadpoolctl would do; it is not installed).  Harness hygiene only: results do not depend on it."""
    import ctypes
    load("polyply.src.gen_coords")
    try:
        libs = {l.split()[-1] for l in open("/proc/self/maps") if "openblas" in l and l.rstrip().endswith(".so")}
    except OSError:
        return
    for path in libs:
        try:
            lib = ctypes.CDLL(path)
        except OSError:
            continue
        for sym in ("scipy_openblas_set_num_threads", "scipy_openblas_set_num_threads64_", "openblas_set_num_threads", "openblas_set_num_threads64_"):
            if hasattr(lib, sym):
                getattr(lib, sym)(1)


AMU = 1.6605410          # from the statement of C03 (amu/nm^3 -> kg/m^3)
EPS = 1e-6

# --------------------------------------------------------------------------------------------------------------
# world description -> input files, and the expectation derived from the description (never from the code)
# --------------------------------------------------------------------------------------------------------------

ATYPES = {"P4": (72.0, 0.47, 4.5), "C1": (72.0, 0.47, 3.5), "SC": (45.0, 0.41, 2.0), "VS": (0.0, 0.0, 0.0)}

# residue kinds: atoms (name, type, explicit mass in [atoms] or None), intra bonds, virtual sites, connecting atoms
RKIND = {
    "S": dict(atoms=[("A", "C1", None)], bonds=[], vs=[], cin=0, cout=0),
    "W": dict(atoms=[("W", "P4", None)], bonds=[], vs=[], cin=0, cout=0),
    "D": dict(atoms=[("B1", "C1", None), ("B2", "SC", 50.0)], bonds=[(0, 1, 0.30)], vs=[], cin=0, cout=1),
    # virtual_sitesn site that is also held by a bond (polyply draws no edge for a virtual-site section itself)
    "V": dict(atoms=[("V1", "SC", None), ("V2", "SC", 45.0), ("VS", "VS", 0.0)], bonds=[(0, 1, 0.30), (0, 2, 0.15)],
              vs=[(2, (0, 1))], cin=0, cout=1),
    # the Martini way (DEX / CEL / P3HT of polyply's own library tests): the site occurs in no bond or constraint
    "U": dict(atoms=[("U1", "SC", None), ("U2", "SC", 45.0), ("US", "VS", 0.0)], bonds=[(0, 1, 0.30)],
              vs=[(2, (0, 1))], cin=0, cout=1),
    # Martini virtual site written with an ordinary bead type: EXPLICIT mass 0.0 in [ atoms ], the atomtype has mass 45
    "Z": dict(atoms=[("Z1", "SC", None), ("Z2", "SC", 45.0), ("ZS", "SC", 0.0)], bonds=[(0, 1, 0.30), (0, 2, 0.15)],
              vs=[(2, (0, 1))], cin=0, cout=1),
    # a massless bonded dummy atom of a massive type next to an atom without mass column
    "Q": dict(atoms=[("Q1", "C1", None), ("Q2", "P4", 0.0)], bonds=[(0, 1, 0.25)], vs=[], cin=0, cout=0),
    # a second one-bead solvent (smaller bead)
    "T": dict(atoms=[("N", "SC", None)], bonds=[], vs=[], cin=0, cout=0),
}


def chain_type(name, res):
    """res: list of (resname, kind)"""
    return {"name": name, "res": [list(r) for r in res], "edges": [[i, i + 1] for i in range(len(res) - 1)]}


def ring_type(name, n, resname="RA", kind="S"):
    t = chain_type(name, [(resname, kind)] * n)
    t["edges"].append([n - 1, 0])
    return t


def branched_type(name):
    t = chain_type(name, [("RA", "S")] * 7)
    t["edges"] = [[0, 1], [1, 2], [1, 3], [3, 4], [3, 5], [5, 6]]
    return t


TYPES = {
    "W": chain_type("W", [("W", "W")]),
    "PA": chain_type("PA", [("RA", "S"), ("RA", "S"), ("RA", "S"), ("RB", "S")]),
    "PD": chain_type("PD", [("RD", "D")] * 3),
    "PV": chain_type("PV", [("RV", "V"), ("RV", "V"), ("RS", "S")]),
    "PU": chain_type("PU", [("RU", "U"), ("RU", "U"), ("RS", "S")]),
    "PZ": chain_type("PZ", [("RZ", "Z"), ("RZ", "Z"), ("RS", "S")]),
    "MZ": chain_type("MZ", [("RA", "S"), ("RZ", "Z"), ("RD", "D"), ("RQ", "Q")]),
    "PM3": chain_type("PM3", [("RA", "S"), ("RB", "S"), ("RA", "S")]),
    "C8": chain_type("C8", [("RA", "S")] * 8),
    "BR": branched_type("BR"),
    "R6": ring_type("R6", 6),
    "MX": chain_type("MX", [("RA", "S"), ("RD", "D"), ("RA", "S"), ("RV", "V"), ("RA", "S"), ("RD", "D")]),
}
TYPES["RM3"] = dict(chain_type("RM3", [("RA", "S"), ("RB", "S"), ("RA", "S")]), edges=[[0, 1], [1, 2], [2, 0]])
TYPES["RM4"] = dict(chain_type("RM4", [("RA", "S"), ("RB", "S"), ("RA", "S"), ("RB", "S")]), edges=[[0, 1], [1, 2], [2, 3], [3, 0]])
for _n in range(3, 9):
    TYPES[f"RG{_n}"] = ring_type(f"RG{_n}", _n)
for _n in range(5, 11):
    TYPES[f"CH{_n}"] = chain_type(f"CH{_n}", [("RA", "S")] * _n)

# molecule types whose residues ALL carry different names: -res <names> then expresses every subset of the residues of a
# molecule as 'named for rebuilding' (the coordinate files themselves are positional: a prefix of the residues not named)
TYPES["N"] = chain_type("N", [("N", "T")])
_L5 = [("LA", "S"), ("LB", "D"), ("LC", "S"), ("LD", "V"), ("LE", "S")]
for _n in range(2, 6):
    TYPES[f"L{_n}"] = chain_type(f"L{_n}", _L5[:_n])
TYPES["B5"] = dict(chain_type("B5", [("BA", "S"), ("BB", "S"), ("BC", "D"), ("BD", "S"), ("BE", "S")]), edges=[[0, 1], [1, 2], [1, 3], [3, 4]])
TYPES["Y4"] = dict(chain_type("Y4", [("YA", "S"), ("YB", "S"), ("YC", "D"), ("YD", "S")]), edges=[[0, 1], [0, 2], [0, 3]])
TYPES["G5"] = dict(chain_type("G5", [("GA", "S"), ("GB", "S"), ("GC", "S"), ("GD", "S"), ("GE", "S")]), edges=[[0, 1], [1, 2], [2, 3], [3, 4], [4, 0]])
TYPES["G4"] = dict(chain_type("G4", [("GA", "S"), ("GB", "D"), ("GC", "S"), ("GD", "S")]), edges=[[0, 1], [1, 2], [2, 3], [3, 0]])


def type_atoms(t):
    """[(resid, resname, atomname, atype, mass_in_atoms_or_None)] and the residue blocks (lists of atom indices)"""
    atoms, blocks = [], []
    for ri, (resname, kind) in enumerate(t["res"]):
        blk = []
        for (an, at, m) in RKIND[kind]["atoms"]:
            blk.append(len(atoms))
            atoms.append((ri + 1, resname, an, at, m))
        blocks.append(blk)
    return atoms, blocks


def itp_text(t):
    atoms, blocks = type_atoms(t)
    out = ["[ moleculetype ]", f"{t['name']} 1", "[ atoms ]"]
    for i, (resid, resname, an, at, m) in enumerate(atoms):
        out.append(f"{i+1} {at} {resid} {resname} {an} {i+1} 0.0" + (f" {m}" if m is not None else ""))
    bonds, vs = [], []
    for ri, (resname, kind) in enumerate(t["res"]):
        k = RKIND[kind]
        for (a, b, l) in k["bonds"]:
            bonds.append((blocks[ri][a] + 1, blocks[ri][b] + 1, l))
        for (s, cons) in k["vs"]:
            vs.append((blocks[ri][s] + 1, [blocks[ri][c] + 1 for c in cons]))
    for (i, j) in t["edges"]:
        a = blocks[i][RKIND[t["res"][i][1]]["cout"]] + 1
        b = blocks[j][RKIND[t["res"][j][1]]["cin"]] + 1
        bonds.append((a, b, 0.45))
    if bonds:
        out.append("[ bonds ]")
        out += [f"{a} {b} 1 {l} 5000" for a, b, l in bonds]
    if vs:
        out.append("[ virtual_sitesn ]")
        out += [f"{s} 1 " + " ".join(map(str, cons)) for s, cons in vs]
    return "\n".join(out) + "\n\n"


def write_top(d, mollist):
    """mollist: [(typename, count), ...] in [molecules] order (a type may occur more than once)"""
    ff = ["[ defaults ]", "1 2 yes 1.0 1.0", "", "[ atomtypes ]"]
    for at, (m, s, e) in ATYPES.items():
        ff.append(f"{at} {m} 0.0 {'V' if m == 0 else 'A'} {s} {e}")
    (d / "ff.itp").write_text("\n".join(ff) + "\n")
    used = []
    for tn, _ in mollist:
        if tn not in used:
            used.append(tn)
    (d / "mols.itp").write_text("".join(itp_text(TYPES[tn]) for tn in used))
    top = ['#include "ff.itp"', '#include "mols.itp"', "", "[ system ]", "bounded world", "", "[ molecules ]"]
    top += [f"{tn} {c}" for tn, c in mollist]
    (d / "sys.top").write_text("\n".join(top) + "\n")
    return d / "sys.top"


def expand(mollist):
    """the expanded [molecules] section: one dict per molecule instance, in topology order"""
    mols = []
    for tn, c in mollist:
        t = TYPES[tn]
        atoms, blocks = type_atoms(t)
        for _ in range(c):
            mols.append({"type": tn, "atoms": atoms, "blocks": blocks, "res": t["res"], "edges": [tuple(e) for e in t["edges"]]})
    return mols


def total_mass(mols):
    return sum((m if m is not None else ATYPES[at][0]) for mol in mols for (_, _, _, at, m) in mol["atoms"])


def gro_text(title, rows, box):
    """rows: (resid, resname, atomname, xyz)"""
    out = [title, f"{len(rows)}"]
    for i, (resid, resname, an, p) in enumerate(rows):
        out.append("%5d%-5s%5s%5d%8.3f%8.3f%8.3f" % (resid, resname, an, (i + 1) % 100000, p[0], p[1], p[2]))
    out.append(" ".join(repr(float(b)) for b in box))
    return "\n".join(out) + "\n"


def parse_gro(path):
    lines = Path(path).read_text().split("\n")
    n = int(lines[1])
    rows = []
    for l in lines[2:2 + n]:
        rows.append((int(l[0:5]), l[5:10].strip(), l[10:15].strip(), int(l[15:20]),
                     (float(l[20:28]), float(l[28:36]), float(l[36:44]))))
    box = [float(x) for x in lines[2 + n].split()]
    return rows, box, len([l for l in lines[3 + n:] if l.strip()])


def layout(mols, rng, dx=0.5):
    """own generator of supplied coordinates: every molecule on its own lattice row (0.5 nm apart along x, rows 0.6 nm
    apart), residue atoms a few hundredths of nm around the centre, all values with three decimals"""
    centres, atoms = [], []
    offs = [(-0.10, 0.03, 0.00), (0.10, -0.03, 0.02), (0.02, 0.06, -0.05)]
    for mi, mol in enumerate(mols):
        cs, as_ = [], []
        for ri, blk in enumerate(mol["blocks"]):
            c = np.array([0.45 + dx * ri, 0.45 + 0.6 * (mi % 5), 0.45 + 0.6 * (mi // 5)]) + np.array([rng.uniform(-0.03, 0.03) for _ in range(3)])
            c = np.round(c, 3)
            cs.append(c)
            if len(blk) == 1:
                as_.append([c.copy()])
            else:
                as_.append([np.round(c + np.array(offs[k]) + np.array([rng.uniform(-0.02, 0.02) for _ in range(3)]), 3) for k in range(len(blk))])
        centres.append(cs)
        atoms.append(as_)
    return centres, atoms


def split_plan(mols, skip_res, k):
    """which residues the coordinate file covers: residues whose name is in skip_res take no coordinates; of the others
    the first k (topology order) are in the file.  returns per molecule a list of 'given' / 'gen'"""
    plan, left = [], k
    for mol in mols:
        p = []
        for (resname, _) in mol["res"]:
            if resname in skip_res or left <= 0:
                p.append("gen")
            else:
                p.append("given")
                left -= 1
        plan.append(p)
    return plan


def n_coverable(mols, skip_res):
    return sum(1 for mol in mols for (rn, _) in mol["res"] if rn not in skip_res)


def write_coords(d, mols, plan, mode, box, centres, atoms, fname):
    rows = []
    for mi, mol in enumerate(mols):
        for ri, blk in enumerate(mol["blocks"]):
            if plan[mi][ri] != "given":
                continue
            if mode == "mc":
                rows.append((ri + 1, mol["res"][ri][0], "CG", centres[mi][ri]))
            else:
                for k, ai in enumerate(blk):
                    a = mol["atoms"][ai]
                    rows.append((a[0], a[1], a[2], atoms[mi][ri][k]))
    (d / fname).write_text(gro_text("supplied", rows, box))
    return d / fname


# --------------------------------------------------------------------------------------------------------------
# instrumentation: rebinding in-process, always restored
# --------------------------------------------------------------------------------------------------------------

class NotFinished(Exception):
    pass


class _Timeout(Exception):
    pass


class Probe:
    """records what the statements name as observable; scripts failed placement attempts"""

    def __init__(self, schedule=(), seed=0, give_up_after=1):
        self.schedule = set(schedule)
        self.seed = seed
        self.events = 0
        self.in_update = False
        self.force = False
        self.forced = []            # (kind, mol_idx, node) of attempts made to fail
        self.placed = {}            # (mol_idx, node) -> (point, start flag) of the last add_positions still standing
        self.parent = {}            # (mol_idx, node) -> residue it was grown from
        self.ee = []                # (mol_idxs, samples)
        self.build = None
        self.atoms = None
        self.failed_molecules = 0
        self.give_up_after = give_up_after
        self.saved = []

    def _set(self, obj, name, new):
        had = name in vars(obj)
        self.saved.append((obj, name, had, vars(obj).get(name)))
        setattr(obj, name, new)

    def restore(self):
        for obj, name, had, old in reversed(self.saved):
            if had:
                setattr(obj, name, old)
            else:
                delattr(obj, name)
        self.saved = []

    def install(self):
        P = self
        nbe = load("polyply.src.nonbond_engine")
        rw = load("polyply.src.random_walk")
        bs = load("polyply.src.build_system")
        bm = load("polyply.src.backmap")
        pers = load("polyply.src.persistence")
        o_add, o_rem = nbe.NonBondEngine.add_positions, nbe.NonBondEngine.remove_positions
        o_upd, o_ovl = rw.RandomWalk.update_positions, rw.RandomWalk._is_overlap
        o_hrw, o_run = bs.BuildSystem._handle_random_walk, bs.BuildSystem.run_system
        o_bm = bm.Backmap.run_system
        o_ee = pers.generate_end_end_distances

        def add_positions(eng, point, mol_idx, node_key, start=True):
            r = o_add(eng, point, mol_idx, node_key, start=start)
            P.placed[(mol_idx, node_key)] = (np.array(point, float), bool(start))
            if start:
                P.parent.pop((mol_idx, node_key), None)
            return r

        def remove_positions(eng, mol_idx, node_keys):
            node_keys = list(node_keys)
            r = o_rem(eng, mol_idx, node_keys)
            for k in node_keys:
                P.placed.pop((mol_idx, k), None)
                P.parent.pop((mol_idx, k), None)
            return r

        def update_positions(walk, vector_bundle, current_node, prev_node):
            ev = P.events
            P.events += 1
            P.in_update, P.force = True, ev in P.schedule
            try:
                ok = o_upd(walk, vector_bundle, current_node, prev_node)
            finally:
                forced = P.force
                P.in_update, P.force = False, False
            if forced:
                P.forced.append(("step", walk.mol_idx, current_node, bool(ok)))
            if ok:
                P.parent[(walk.mol_idx, current_node)] = prev_node
            return ok

        def _is_overlap(walk, point, node, nrexcl=1):
            if P.in_update:
                return True if P.force else o_ovl(walk, point, node, nrexcl)
            ev = P.events           # the check of the start point of a molecule attempt
            P.events += 1
            if ev in P.schedule:
                P.forced.append(("start", walk.mol_idx, node, False))
                return True
            return o_ovl(walk, point, node, nrexcl)

        def _handle_random_walk(b, molecule, mol_idx, vector_sphere):
            ok, m = o_hrw(b, molecule, mol_idx, vector_sphere)
            if not ok:
                P.failed_molecules += 1
                if P.failed_molecules >= P.give_up_after:
                    raise NotFinished(f"molecule {mol_idx}: no placement within maxiter attempts")
            return ok, m

        def run_system(b, molecules):
            r = o_run(b, molecules)
            P.snap_build(b)
            return r

        def bm_run_system(b, system):
            r = o_bm(b, system)
            P.atoms = [[np.array(mol.molecule.nodes[a].get("position", [np.nan] * 3), float) for a in mol.molecule.nodes]
                       for mol in system.molecules]
            return r

        def generate_end_end_distances(specs, avg_step_length, max_path_length, box, limit_prob=1e-5, seed=None):
            # the program reseeds numpy from OS entropy here (seed=None); scripted: the world's seed
            s = o_ee(specs, avg_step_length, max_path_length, box, limit_prob, seed=P.seed if seed is None else seed)
            P.ee.append(([int(i) for i in specs.mol_idxs], [float(x) for x in s]))
            return s

        self._set(nbe.NonBondEngine, "add_positions", add_positions)
        self._set(nbe.NonBondEngine, "remove_positions", remove_positions)
        self._set(rw.RandomWalk, "update_positions", update_positions)
        self._set(rw.RandomWalk, "_is_overlap", _is_overlap)
        self._set(bs.BuildSystem, "_handle_random_walk", _handle_random_walk)
        self._set(bs.BuildSystem, "run_system", run_system)
        self._set(bm.Backmap, "run_system", bm_run_system)
        self._set(pers, "generate_end_end_distances", generate_end_end_distances)

    def snap_build(self, b):
        eng = b.nonbond_matrix
        mols = []
        for mol in b.topology.molecules:
            nodes = []
            for n in mol.nodes:
                dct = mol.nodes[n]
                nodes.append({"key": n, "resid": dct.get("resid"), "resname": dct.get("resname"),
                              "pos": np.array(dct["position"], float) if "position" in dct else None})
            mols.append({"name": mol.mol_name, "nodes": nodes})
        self.build = {"box": np.array([float(x) for x in b.box]), "grid": np.array(b.box_grid, float),
                      "inter": dict(eng.interaction_matrix), "atypes": [str(a) for a in eng.atypes],
                      "n2g": dict(eng.nodes_to_gndx), "mols": mols}


def _alarm(signum, frame):
    raise _Timeout()


def cli_kwargs(d, **over):
    """the keyword set bin/polyply hands to gen_coords (argparse defaults), then the options of the world"""
    kw = dict(name="molname", toppath=d / "sys.top", outpath=d / "out.gro", coordpath=None, coordpath_meta=None, build=[],
              lib=None, build_res=[], ignore=[], cycles=[], cycle_tol=0.0, split=[], ligands=[], grid_spacing=0.2, grid=None,
              maxiter=800, skip_filter=False, start=[], density=None, box=None, maxiter_random=100, step_fudge=1.0,
              max_force=5 * 10 ** 4.0, nrewind=5, bfudge=0.4)
    kw.update(over)
    if kw["box"] is not None:       # argparse: type=lambda s: np.array(s, dtype=float), nargs=3
        kw["box"] = [np.array(repr(float(x)), dtype=float) for x in kw["box"]]
    return kw


def run_gen_coords(d, kw, seed, schedule=(), timeout=90.0):
    """one call of the real gen_coords; returns (status, probe, detail). status: ok | unfinished | error"""
    gc = load("polyply.src.gen_coords")
    from vermouth.file_writer import DeferredFileWriter
    probe = Probe(schedule=schedule, seed=seed)
    random.seed(seed)
    np.random.seed(seed % (2 ** 32))
    old = signal.signal(signal.SIGALRM, _alarm)
    signal.setitimer(signal.ITIMER_REAL, timeout)
    probe.install()
    try:
        gc.gen_coords(**kw)
        return "ok", probe, ""
    except (NotFinished, _Timeout) as e:
        return "unfinished", probe, f"{type(e).__name__}: {e}"
    except Exception as e:      # noqa: BLE001
        tb = traceback.extract_tb(e.__traceback__)
        tb = [f for f in tb if os.path.basename(f.filename) != "b_coords.py"]
        where = "; ".join(f"{os.path.basename(f.filename)}:{f.lineno} {f.name}" for f in tb[-3:])
        return "error", probe, f"{type(e).__name__}: {str(e)[:200]} @ {where}"
    finally:
        signal.setitimer(signal.ITIMER_REAL, 0)
        signal.signal(signal.SIGALRM, old)
        probe.restore()
        w = DeferredFileWriter()
        while w.open_files:
            tmp, _, _ = w.open_files.popleft()
            try:
                os.remove(tmp)
            except OSError:
                pass


# --------------------------------------------------------------------------------------------------------------
# oracles (from the statements)
# --------------------------------------------------------------------------------------------------------------

def minimg(v, box):
    return v - np.round(v / box) * box


def check_structure(mols, out_path, box_expect):
    """C03: exactly the atoms of the expanded [molecules] section in topology order, finite, and the box.
    box_expect: ('exact', [x,y,z]) or ('density', mass, density)"""
    bad = []
    if not Path(out_path).exists():
        return [("c03-no-output", "gen_coords returned but wrote no output structure", "")], None
    rows, box, extra = parse_gro(out_path)
    want = [(a[0], a[1], a[2]) for mol in mols for a in mol["atoms"]]
    got = [(r[0], r[1], r[2]) for r in rows]
    if got != want:
        i = next((i for i, (g, w) in enumerate(zip(got, want)) if g != w), min(len(got), len(want)))
        bad.append(("c03-atom-list", f"output lists {len(got)} atoms, topology has {len(want)}; first difference at atom {i}",
                    f"want {want[i:i+2]} got {got[i:i+2]}"))
    if extra:
        bad.append(("c03-atom-list", f"{extra} lines after the box line", ""))
    for i, r in enumerate(rows):
        if not all(np.isfinite(r[4])):
            bad.append(("c03-nonfinite", f"atom {i+1} {r[1]}{r[0]}:{r[2]} has coordinates {r[4]}", ""))
            break
    if box_expect[0] == "exact":
        if len(box) != 3 or not np.allclose(box, box_expect[1], rtol=0, atol=1e-9):
            bad.append(("c03-box", f"box line {box}, expected {list(box_expect[1])}", ""))
    else:
        vol = box_expect[1] * AMU / box_expect[2]
        if len(box) != 3 or not (box[0] == box[1] == box[2]) or abs(box[0] ** 3 - vol) > 1e-4 * vol:
            bad.append(("c03-box-density", f"box line {box}; cubic box of volume mass*1.6605410/density = {vol:.6f} has edge {vol ** (1/3):.6f}", ""))
    return bad, rows


def size_of(build, m, key):
    t = build["atypes"][build["n2g"][(m, key)]]
    return float(build["inter"][frozenset([t])][0])


def check_supplied(mols, plan, mode, centres, atoms, rows, probe, ignored=()):
    """C04 clauses on the written structure and on the captured atom positions"""
    bad = []
    idx = 0
    for mi, mol in enumerate(mols):
        for ri, blk in enumerate(mol["blocks"]):
            got_gro = [np.array(rows[idx + ai][4]) for ai in blk]
            got_mem = [probe.atoms[mi][ai] for ai in blk] if probe.atoms is not None else None
            tag = f"molecule {mi} ({mol['type']}) residue {ri+1}{mol['res'][ri][0]}"
            if plan[mi][ri] == "given" and mode == "c":
                for k in range(len(blk)):
                    if not np.array_equal(got_gro[k], atoms[mi][ri][k]):
                        key = "c04-ignored-moved" if mol["type"] in ignored else "c04-given-atom-changed"
                        bad.append((key, f"{tag}: supplied atom {mol['atoms'][blk[k]][2]} not preserved",
                                    f"supplied {atoms[mi][ri][k].tolist()} output {got_gro[k].tolist()}"))
                        break
            elif plan[mi][ri] == "given" and mode == "mc":
                c = centres[mi][ri]
                cg = np.mean(got_gro, axis=0)
                if not np.all(np.abs(cg - c) <= 6e-4):
                    bad.append(("c04-centre-not-kept", f"{tag}: centre of the written atoms is not the supplied centre",
                                f"supplied {c.tolist()} written centre {cg.tolist()}"))
                elif got_mem is not None and not np.all(np.abs(np.mean(got_mem, axis=0) - c) <= EPS):
                    bad.append(("c04-centre-not-kept", f"{tag}: centre of geometry of the backmapped atoms is not the supplied centre (1e-6)",
                                f"supplied {c.tolist()} centre {np.mean(got_mem, axis=0).tolist()}"))
        idx += len(mol["atoms"])
    # residue level: supplied residues are never (re)generated, the others are
    for mi, mol in enumerate(mols):
        for ri in range(len(mol["blocks"])):
            was_generated = (mi, ri) in probe.placed
            if plan[mi][ri] == "given" and was_generated:
                bad.append(("c04-supplied-regenerated", f"molecule {mi} ({mol['type']}) residue {ri+1}: supplied, but a position was generated for it", ""))
            if plan[mi][ri] == "gen" and not was_generated and mol["type"] not in ignored:
                bad.append(("c04-missing-not-generated", f"molecule {mi} ({mol['type']}) residue {ri+1}: missing / named for rebuilding, but no position was generated", ""))
    if probe.build is not None:
        for mi, mol in enumerate(mols):
            for ri in range(len(mol["blocks"])):
                if plan[mi][ri] != "given":
                    continue
                want = centres[mi][ri] if mode == "mc" else np.mean(atoms[mi][ri], axis=0)
                got = probe.build["mols"][mi]["nodes"][ri]["pos"]
                if got is None or not np.all(np.abs(got - want) <= EPS):
                    bad.append(("c04-supplied-residue-moved", f"molecule {mi} ({mol['type']}) residue {ri+1}: residue position after building differs from the supplied one",
                                f"supplied {np.asarray(want).tolist()} after build {None if got is None else got.tolist()}"))
    return bad[:6]


def check_three_way(mols, plan, centres, atoms, rows, probe):
    """C04 with -c AND -mc (both files are positional prefixes of the residues not named with -res): per residue
    'given' = atoms in the -c file only, 'centre' = centre in the -mc file only, 'both' = atoms in -c and a centre in -mc,
    'gen' = in neither.  From the statement: atoms whose coordinates are given keep exactly those coordinates ('given' and
    'both': the clause on centres speaks of residues given ONLY as centres); 'centre' residues are backmapped around exactly
    the centre; only 'gen' residues are generated."""
    bad = []
    idx = 0
    # input classes of their own (both files are prefixes, so an 'atoms only' residue always lies past the end of the -mc file)
    K_BOTH, K_PAST = "c04-c-and-mc-atoms-rebuilt-around-mc-centre", "c04-c-and-mc-atoms-past-end-of-mc-file-regenerated"
    for mi, mol in enumerate(mols):
        for ri, blk in enumerate(mol["blocks"]):
            got_gro = [np.array(rows[idx + ai][4]) for ai in blk]
            got_mem = [probe.atoms[mi][ai] for ai in blk] if probe.atoms is not None else None
            tag = f"molecule {mi} ({mol['type']}) residue {ri+1}{mol['res'][ri][0]}"
            what = plan[mi][ri]
            if what in ("given", "both"):
                for k in range(len(blk)):
                    if not np.array_equal(got_gro[k], atoms[mi][ri][k]):
                        bad.append((K_PAST if what == "given" else K_BOTH, f"{tag}: atom {mol['atoms'][blk[k]][2]} supplied in the -c file "
                                    + ("(the -mc file ends before this residue)" if what == "given" else "(the centre of its residue is also in the -mc file)") + " not preserved",
                                    f"supplied {atoms[mi][ri][k].tolist()} output {got_gro[k].tolist()}"))
                        break
            elif what == "centre":
                c = centres[mi][ri]
                cg = np.mean(got_gro, axis=0)
                if not np.all(np.abs(cg - c) <= 6e-4):
                    bad.append(("c04-centre-not-kept", f"{tag}: centre of the written atoms is not the supplied centre", f"supplied {c.tolist()} written centre {cg.tolist()}"))
                elif got_mem is not None and not np.all(np.abs(np.mean(got_mem, axis=0) - c) <= EPS):
                    bad.append(("c04-centre-not-kept", f"{tag}: centre of geometry of the backmapped atoms is not the supplied centre (1e-6)",
                                f"supplied {c.tolist()} centre {np.mean(got_mem, axis=0).tolist()}"))
            was_generated = (mi, ri) in probe.placed
            if what != "gen" and was_generated:
                bad.append((K_PAST if what == "given" else "c04-supplied-regenerated", f"{tag}: supplied ({what}), but a position was generated for it", ""))
            if what == "gen" and not was_generated:
                bad.append(("c04-missing-not-generated", f"{tag}: in neither file, but no position was generated", ""))
            if what != "gen" and probe.build is not None:
                # the residue position the others are built around: the centre of the supplied atoms, or the supplied centre
                wants = [np.mean(atoms[mi][ri], axis=0)] if what == "given" else [centres[mi][ri]] if what == "centre" else [np.mean(atoms[mi][ri], axis=0), centres[mi][ri]]
                got = probe.build["mols"][mi]["nodes"][ri]["pos"]
                if got is None or not any(np.all(np.abs(got - wnt) <= EPS) for wnt in wants):
                    bad.append((K_PAST if what == "given" else "c04-supplied-residue-moved", f"{tag}: residue position after building differs from the supplied one",
                                f"supplied {[np.asarray(x).tolist() for x in wants]} after build {None if got is None else got.tolist()}"))
        idx += len(mol["atoms"])
    return bad[:6]


def expected_grid_ok(p, grid_rows, spacing, box):
    if grid_rows is not None:
        return bool(np.any(np.all(np.abs(grid_rows - p) <= 1e-12, axis=1)))
    q = p / spacing
    return bool(np.all(np.abs(q - np.round(q)) <= 1e-9) and np.all(p >= 0) and np.all(p < box))


def check_walk(mols, plan, probe, step_fudge, grid_rows, spacing):
    """C05 clauses, recomputed from the captured residue positions"""
    bad = []
    b = probe.build
    box = b["box"]
    pos = {}
    for mi, mol in enumerate(mols):
        for ri in range(len(mol["blocks"])):
            nd = b["mols"][mi]["nodes"][ri]
            if nd["pos"] is not None and np.all(np.isfinite(nd["pos"])):
                pos[(mi, nd["key"])] = nd["pos"]
    crossed = 0
    for (mi, key), (point, start) in sorted(probe.placed.items()):
        if (mi, key) not in pos:
            bad.append(("c05-generated-without-position", f"molecule {mi} residue {key}: generated but has no finite position", ""))
            continue
        p = pos[(mi, key)]
        tag = f"molecule {mi} ({mols[mi]['type']}) residue {key}"
        if not (np.all(p >= 0) and np.all(p < box)):
            bad.append(("c05-outside-box", f"{tag} at {p.tolist()} is outside the box {box.tolist()}", ""))
        par = probe.parent.get((mi, key))
        if par is None:
            if "given" in plan[mi]:
                bad.append(("c05-detached-from-supplied", f"{tag}: the molecule has supplied residues, yet this residue was not grown from any residue "
                            f"(placed on a start point at {p.tolist()})", ""))
            elif not expected_grid_ok(p, grid_rows, spacing, box):
                bad.append(("c05-start-off-grid", f"{tag}: first residue at {p.tolist()} is not a point of the start grid", ""))
        else:
            edges = mols[mi]["edges"]
            if (par, key) not in edges and (key, par) not in edges:
                bad.append(("c05-grown-from-non-neighbour", f"{tag} was grown from residue {par}, which is not bonded to it", ""))
            if (mi, par) not in pos:
                bad.append(("c05-parent-unpositioned", f"{tag}: grown from residue {par}, which has no position", ""))
                continue
            raw = p - pos[(mi, par)]
            dist = float(np.linalg.norm(minimg(raw, box)))
            want = step_fudge * 0.5 * (size_of(b, mi, key) + size_of(b, mi, par))
            if abs(np.linalg.norm(raw) - dist) > 1e-9:
                crossed += 1
            if abs(dist - want) > EPS:
                bad.append(("c05-step-length", f"{tag}: minimum-image distance {dist:.6f} to the residue it was grown from ({par}), step length is {want:.6f}", ""))
        for (mj, k2), q in pos.items():
            if (mj, k2) != (mi, key):
                dd = float(np.linalg.norm(minimg(p - q, box)))
                if dd < 0.1 - 1e-9:
                    bad.append(("c05-closer-than-0.1", f"{tag} is {dd:.4f} nm from molecule {mj} residue {k2}", ""))
                    break
    return bad[:6], crossed


# ---- restraints (C07): geometric meaning written from the statement

def geom_ok(kind, inout, p, c, prm):
    dlt = np.abs(np.asarray(p) - np.asarray(c))
    t = 1e-9
    if kind == "sphere":
        r = float(np.linalg.norm(dlt))
        return r <= prm[0] + t if inout == "in" else r >= prm[0] - t
    if kind == "rectangle":
        inside = [dlt[i] <= prm[i] + t for i in range(3)]
        strictly = [dlt[i] < prm[i] - t for i in range(3)]
        return all(inside) if inout == "in" else not all(strictly)
    if kind == "cylinder":
        rho = float(np.linalg.norm(dlt[:2]))
        if inout == "in":
            return rho <= prm[0] + t and dlt[2] <= prm[1] + t
        return rho >= prm[0] - t or dlt[2] >= prm[1] - t
    raise ValueError(kind)


def selected(rs, mols, mi, ri):
    """does the build-file directive rs select residue ri of molecule mi (half-open ranges, C18)"""
    mol = mols[mi]
    return (mol["type"] == rs["mol"] and rs["mfrom"] <= mi < rs["mto"] and mol["res"][ri][0] == rs["resname"]
            and rs["rfrom"] <= ri + 1 < rs["rto"])


def check_restraints(mols, probe, restraints, cycles, cycle_tol):
    bad, active = [], 0
    b = probe.build
    box = b["box"]

    def P(mi, ri):
        return b["mols"][mi]["nodes"][ri]["pos"]

    for mi, mol in enumerate(mols):
        n = len(mol["blocks"])
        sizes = [size_of(b, mi, ri) for ri in range(n)]
        avg_pair = float(np.mean([0.5 * (sizes[i] + sizes[j]) for (i, j) in mol["edges"]])) if mol["edges"] else sizes[0]
        for ri in range(n):
            if (mi, ri) not in probe.placed:
                continue
            p = P(mi, ri)
            tag = f"molecule {mi} ({mol['type']}) residue {ri+1}"
            for rs in restraints:
                if rs["kind"] in ("sphere", "cylinder", "rectangle") and selected(rs, mols, mi, ri):
                    active += 1
                    if not geom_ok(rs["kind"], rs["inout"], p, rs["c"], rs["prm"]):
                        bad.append((f"c07-{rs['kind']}-{rs['inout']}", f"{tag} at {np.round(p, 4).tolist()} violates [{rs['kind']}] {rs['inout']} centre {rs['c']} parameters {rs['prm']}", ""))
                if rs["kind"] == "rw" and selected(rs, mols, mi, ri) and (mi, ri) in probe.parent:
                    active += 1
                    v = minimg(p - P(mi, probe.parent[(mi, ri)]), box)
                    nrm = np.asarray(rs["normal"], float)
                    dot = float(np.dot(nrm, v))
                    ang = float(np.degrees(np.arccos(np.clip(dot / (np.linalg.norm(nrm) * np.linalg.norm(v)), -1, 1))))
                    if np.sign(dot) != np.sign(rs["angle"]) or ang > abs(rs["angle"]) + 1e-7:
                        wrapped = np.linalg.norm(v - (p - P(mi, probe.parent[(mi, ri)]))) > 1e-9
                        bad.append(("c07-direction-across-periodic-face" if wrapped else "c07-direction", f"{tag}: step vector {np.round(v, 4).tolist()} has angle {ang:.3f} to the normal {rs['normal']}, "
                                    f"reference angle {rs['angle']}", ""))
        pairs = []
        for rs in restraints:
            if rs["kind"] == "dist" and mol["type"] == rs["mol"] and rs["mfrom"] <= mi < rs["mto"]:
                pairs.append((rs["a"], rs["b"], rs["d"], rs["tol"], "explicit"))
        if mol["type"] in cycles:
            grown = {frozenset((k, v)) for (m2, k), v in probe.parent.items() if m2 == mi}
            closing = [e for e in mol["edges"] if frozenset(e) not in grown]
            if len(closing) != 1:
                bad.append(("c07-ring-no-closing-edge", f"molecule {mi} ({mol['type']}): ring of {n}, edges not used for growing: {closing}", ""))
            else:
                pairs.append((closing[0][0], closing[0][1], 0.0, cycle_tol, "ring closing edge"))
        for (idxs, samples) in probe.ee:
            if mi in idxs:
                s = samples[idxs.index(mi)]
                contour = float(sum(0.5 * (sizes[i] + sizes[i + 1]) for i in range(n - 1)))
                one = contour / (n - 1)
                active += 1
                if not (one - 1e-9 <= s <= contour + 1e-9):
                    bad.append(("c07-sampled-distance-range", f"molecule {mi} ({mol['type']}): sampled end-to-end distance {s:.4f} not in [one step {one:.4f}, contour {contour:.4f}]", ""))
                pairs.append((0, n - 1, s, 0.0, "sampled end-to-end"))
        for (a, c, dd, tol, what) in pairs:
            if (mi, a) not in probe.placed and (mi, c) not in probe.placed:
                continue
            active += 1
            dist = float(np.linalg.norm(minimg(P(mi, a) - P(mi, c), box)))
            if not (dd - tol - 1e-9 <= dist <= dd + tol + avg_pair + 1e-9):
                bad.append((f"c07-distance-{what.split()[0]}", f"molecule {mi} ({mol['type']}): {what} pair ({a},{c}) d={dd:.4f} tol={tol}: distance {dist:.4f} "
                            f"outside [{dd - tol:.4f}, {dd + tol + avg_pair:.4f}]", ""))
    return bad[:6], active


def bld_text(restraints, extra=""):
    out = []
    for rs in restraints:
        out += ["[ molecule ]", f"{rs['mol']} {rs['mfrom']} {rs['mto']}"]
        if rs["kind"] in ("sphere", "cylinder", "rectangle"):
            out += [f"[ {rs['kind']} ]", f"{rs['resname']} {rs['rfrom']} {rs['rto']} {rs['inout']} " + " ".join(map(str, rs["c"])) + " " + " ".join(map(str, rs["prm"]))]
        elif rs["kind"] == "rw":
            out += ["[ rw_restriction ]", f"{rs['resname']} {rs['rfrom']} {rs['rto']} " + " ".join(map(str, rs["normal"])) + f" {rs['angle']}"]
        elif rs["kind"] == "dist":
            out += ["[ distance_restraints ]", f"{rs['a']} {rs['b']} {rs['d']} {rs['tol']}"]
        elif rs["kind"] == "pers":
            out += ["[ persistence_length ]", f"WCM {rs['lp']} {rs['a']} {rs['b']}"]
    return "\n".join(out) + "\n" + extra


# --------------------------------------------------------------------------------------------------------------
# the worker: one world = one gen_coords call
# --------------------------------------------------------------------------------------------------------------

def eval_world(w):
    """w: JSON-able world; returns dict(status, bad=[(key, what, detail)], nontrivial, info)"""
    d = Path(tempfile.mkdtemp(dir="/var/tmp", prefix="bcoords."))
    try:
        return _eval_world(w, d)
    except Exception as e:      # noqa: BLE001 - harness error, never silently green
        return {"status": "harness-error", "bad": [("harness-error", f"{type(e).__name__}: {e}", traceback.format_exc()[-600:])],
                "nontrivial": False, "info": {}}
    finally:
        shutil.rmtree(d, ignore_errors=True)


def _eval_world(w, d):
    rng = random.Random(w["seed"] * 7919 + 13)
    mollist = [tuple(x) for x in w["molecules"]]
    mols = expand(mollist)
    write_top(d, mollist)
    over = {}
    info = {}
    # ---- box / density
    mass = total_mass(mols)
    if w.get("box") is not None:
        over["box"] = w["box"]
        req_box = [float(x) for x in w["box"]]
    if w.get("dens") is not None:
        over["density"] = float(w["dens"])
        edge = (mass * AMU / w["dens"]) ** (1 / 3.)
        req_box = [edge] * 3
    # ---- supplied coordinates
    skip = list(w.get("res", []))
    plan = [["gen"] * len(m["blocks"]) for m in mols]
    mode = None
    centres = atoms = None
    struct_box = None
    co = w.get("coords")
    if co:
        mode, k = co["mode"], co["k"]
        centres, atoms = layout(mols, rng, float(co.get("dx", 0.5)))
        struct_box = [float(x) for x in co["box"]]
        if mode in ("c", "mc"):
            plan = split_plan(mols, skip, k)
            p = write_coords(d, mols, plan, mode, struct_box, centres, atoms, "in.gro")
            over["coordpath" if mode == "c" else "coordpath_meta"] = p
        else:   # both files (C03: same residues, structural checks only; C04 thorough: prefixes k of -c and kmc of -mc)
            plan = split_plan(mols, skip, k)
            plan_mc = split_plan(mols, skip, co["kmc"]) if "kmc" in co else plan
            over["coordpath"] = write_coords(d, mols, plan, "c", struct_box, centres, atoms, "in.gro")
            over["coordpath_meta"] = write_coords(d, mols, plan_mc, "mc", struct_box, centres, atoms, "in_meta.gro")
            if "kmc" in co:
                plan = [[{(True, True): "both", (True, False): "given", (False, True): "centre", (False, False): "gen"}[(a == "given", b == "given")]
                         for a, b in zip(pa, pb)] for pa, pb in zip(plan, plan_mc)]
        if skip:
            over["build_res"] = skip
    if w.get("ign"):
        over["ignore"] = list(w["ign"])
    eff_box = struct_box if struct_box is not None else req_box
    # ---- grid
    grid_rows = None
    if w.get("grid"):
        g = random.Random(w["seed"] + 101)
        pts = [[round(g.uniform(0.15, eff_box[i] - 0.15), 3) for i in range(3)] for _ in range(w["grid"])]
        (d / "grid.dat").write_text("\n".join(" ".join(repr(x) for x in p) for p in pts) + "\n")
        grid_rows = np.array(pts, float)
        over["grid"] = str(d / "grid.dat")
    if w.get("grid_pts"):       # explicit start points (-grid file with exactly these rows), e.g. next to a periodic face
        pts = [[float(x) for x in p] for p in w["grid_pts"]]
        (d / "grid.dat").write_text("\n".join(" ".join(repr(x) for x in p) for p in pts) + "\n")
        grid_rows = np.array(pts, float)
        over["grid"] = str(d / "grid.dat")
    if w.get("gs"):
        over["grid_spacing"] = float(w["gs"])
    # ---- build file
    restraints = w.get("restraints", [])
    if restraints or w.get("bld_extra"):
        (d / "opts.bld").write_text(bld_text(restraints, w.get("bld_extra", "")))
        over["build"] = [d / "opts.bld"]
    for k_src, k_dst in (("start", "start"), ("cycles", "cycles"), ("cycle_tol", "cycle_tol"), ("sf", "step_fudge"), ("mf", "max_force"),
                         ("nrewind", "nrewind"), ("maxiter", "maxiter")):
        if w.get(k_src) is not None:
            over[k_dst] = w[k_src]
    over.setdefault("maxiter", 60)
    kw = cli_kwargs(d, **over)
    status, probe, detail = run_gen_coords(d, kw, w["seed"], schedule=w.get("schedule", ()))
    info.update(status_detail=detail, forced=len(probe.forced), events=probe.events)
    bad = []
    nontrivial = False
    unit = w["unit"]
    if status == "unfinished":
        return {"status": status, "bad": [], "nontrivial": False, "info": info}
    if status == "error":
        key = "gen-coords-error"
        if "disconnected parts" in detail and any(k == "U" for mol in mols for (_, k) in mol["res"]):
            key = "unbonded-virtual-site-refused"
        elif w.get("ign") and detail.startswith("KeyError"):
            key = "F2-ignore-indexing"
        elif w.get("ign") and {t for t, _ in mollist} <= set(w["ign"]):
            # every molecule is ignored: nothing is left to build and gen_coords refuses the input (ValueError from an empty interaction
            # table).  C04 speaks about the OTHER molecules of an accepted run; a refused run writes nothing and moves nothing, so this
            # world is outside the statement's quantifier: not evaluated (counted trivial), never a violation.
            return {"status": status, "bad": [], "nontrivial": False, "info": info}
        elif w.get("ign"):
            key = "ignore-error"
        bad.append((key, f"gen_coords raised {detail}", ""))
        return {"status": status, "bad": bad, "nontrivial": True, "info": info}
    # ---- the structure (every unit checks it: a world whose output is not the topology is not evaluated further)
    if struct_box is not None:
        bexp = ("exact", struct_box)
    elif w.get("box") is not None:
        bexp = ("exact", req_box)
    else:
        bexp = ("density", mass, float(w["dens"]))
    sbad, rows = check_structure(mols, d / "out.gro", bexp)
    if unit == "c03":
        bad += sbad
        nontrivial = len(mollist) > 1 or bool(co) or bool(restraints) or bool(w.get("grid")) or bool(w.get("start"))
    elif sbad:
        bad += [(k + "@" + unit, a, b_) for (k, a, b_) in sbad[:1]]
    if rows is None or any(k.startswith("c03-atom-list") for k, _, _ in sbad):
        return {"status": status, "bad": bad, "nontrivial": nontrivial, "info": info}
    n_given = sum(p.count("given") for p in plan)
    n_gen = sum(p.count("gen") for p in plan)
    if unit == "c04" and co and "kmc" in co:
        bad += check_three_way(mols, plan, centres, atoms, rows, probe)
        kinds = {x for p in plan for x in p}
        nontrivial = len(kinds) >= 2 and kinds != {"both", "given"}
        info["partial_chain"] = any(len(set(p)) > 1 for p in plan)
    elif unit == "c04":
        bad += check_supplied(mols, plan, mode if mode in ("c", "mc") else None, centres, atoms, rows, probe, ignored=w.get("ign", ()))
        nontrivial = n_given > 0 and n_gen > 0
        if w.get("schedule"):
            nontrivial = nontrivial and len(probe.forced) > 0
        if w.get("start_at"):      # -start: the spec names a residue of a partially supplied molecule (else it cannot matter for C04)
            nontrivial = nontrivial and any("given" in plan[mi] and "gen" in plan[mi] for mi, _ in w["start_at"])
            info["start_classes"] = sorted({("c" if plan[mi][ri] == "gen" else "b" if ri == 0 else "a") for mi, ri in w["start_at"]})
        info["partial_chain"] = any(0 < p.count("given") < len(p) for p in plan)
    if unit == "c05":
        if mode in ("c", "mc"):
            bad += [x for x in check_supplied(mols, plan, mode, centres, atoms, rows, probe) if x[0] in ("c04-supplied-regenerated", "c04-missing-not-generated")]
        wbad, crossed = check_walk(mols, plan, probe, float(w.get("sf") or 1.0), grid_rows, float(w.get("gs") or 0.2))
        bad += wbad
        info["crossed"] = crossed
        nontrivial = crossed > 0 or len(mols) > 1
    if unit == "c07":
        wbad, _ = check_walk(mols, plan, probe, 1.0, grid_rows, float(w.get("gs") or 0.2))
        bad += [x for x in wbad if x[0] in ("c05-step-length", "c05-outside-box", "c05-closer-than-0.1")]
        rbad, active = check_restraints(mols, probe, restraints, w.get("cycles") or [], float(w.get("cycle_tol") or 0.0))
        bad += rbad
        info["active"] = active
        nontrivial = active > 0
    return {"status": status, "bad": bad, "nontrivial": nontrivial, "info": info}


# --------------------------------------------------------------------------------------------------------------
# driver shared by the four units
# --------------------------------------------------------------------------------------------------------------

def describe(w):
    keep = {k: v for k, v in w.items() if v not in (None, [], ()) and k != "unit"}
    return keep


def cli_line(w):
    """the command line a user would type for this world (files as written by write_top / write_coords / bld_text)"""
    s = "polyply gen_coords -p sys.top -o out.gro"
    if w.get("box") is not None:
        s += " -box " + " ".join(str(x) for x in w["box"])
    if w.get("dens") is not None:
        s += f" -dens {w['dens']}"
    co = w.get("coords")
    if co:
        s += {"c": " -c in.gro", "mc": " -mc in.gro", "c+mc": " -c in.gro -mc in_meta.gro"}[co["mode"]] + f" (first {co['k']} non-skipped residues, box {co['box']})"
        if "kmc" in co:
            s += f" (in_meta.gro: first {co['kmc']} non-skipped residues)"
    for opt, key in (("-res", "res"), ("-ign", "ign"), ("-start", "start"), ("-cycles", "cycles")):
        if w.get(key):
            s += f" {opt} " + " ".join(w[key])
    for opt, key in (("-cycle_tol", "cycle_tol"), ("-sf", "sf"), ("-mf", "mf"), ("-nr", "nrewind"), ("-gs", "gs"), ("-mi", "maxiter")):
        if w.get(key) is not None:
            s += f" {opt} {w[key]}"
    if w.get("grid"):
        s += f" -grid grid.dat({w['grid']} points)"
    if w.get("grid_pts"):
        s += f" -grid grid.dat(rows {w['grid_pts']})"
    if w.get("restraints") or w.get("bld_extra"):
        s += " -b opts.bld{" + bld_text(w.get("restraints", []), w.get("bld_extra", "")).replace("\n", " / ") + "}"
    s += "  [molecules] " + " ".join(f"{t} {c}" for t, c in w["molecules"]) + f"  seed {w['seed']}"
    if w.get("schedule"):
        s += f"  placement events forced to fail: {sorted(w['schedule'])}"
    return s


def run_worlds(unit_name, worlds, res):
    import multiprocessing as mp
    with mp.Pool(min(16, os.cpu_count() or 1), initializer=_one_blas_thread) as pool:
        out = pool.map(eval_world, worlds, chunksize=4)
    unfinished = 0
    by_key = {}
    seen = set()
    for w, r in zip(worlds, out):
        if r["status"] == "unfinished":
            unfinished += 1
            continue
        res.evaluations += 1
        sig = repr(sorted((k, repr(v)) for k, v in w.items()))
        if r["nontrivial"] and sig not in seen:
            res.nontrivial += 1
            seen.add(sig)
            if len(res.samples) < 4 and (len(res.samples) < 2 or res.evaluations % 37 == 0):
                res.samples.append({"world": describe(w), "cli": cli_line(w), "info": {k: v for k, v in r["info"].items() if k != "status_detail"}})
        first = {}
        for (key, what, detail) in r["bad"]:
            first.setdefault(key, (w, what, detail))
        for key, item in first.items():        # one entry per world and class of failure
            by_key.setdefault(key, []).append(item)
    for key, lst in sorted(by_key.items()):
        if len(res.violations) >= 25:
            break
        lst.sort(key=lambda x: (sum(c for _, c in x[0]["molecules"]), len(repr(x[0]))))
        w, what, detail = lst[0]
        res.violations.append(Violation(unit_name, f"{what}  [{len(lst)} world(s) with this failure; smallest: {cli_line(w)}]",
                                        inputs=describe(w), detail=detail or what, replayed=True, finding_key=key))
    res.bound = (res.bound or "") + f"  | NOT EVALUATED (no placement found / time limit): {unfinished} of {len(worlds)} worlds"
    res.assumptions.append(f"{unfinished} of {len(worlds)} worlds not evaluated: gen_coords found no placement within -mi attempts (deterministic) or 90 s wall (safety net) (not counted, not a violation)")
    res.assumptions.append("gro reader/writer of vermouth trusted to the extent that the written file is parsed by an independent fixed-column reader")
    return unfinished, by_key


def seeds_for(ctx, n):
    return [ctx.seed * 1000 + i for i in range(n)]


# --------------------------------------------------------------------------------------------------------------
# C03
# --------------------------------------------------------------------------------------------------------------

def first_resname(mollist):
    return TYPES[mollist[0][0]]["res"][0][0]


def c03_options(mollist):
    """option sets that make sense for this topology"""
    mols = expand(mollist)
    ntot = sum(len(m["blocks"]) for m in mols)
    n0 = len(mols[0]["blocks"])
    t0 = mollist[0][0]
    r0 = first_resname(mollist)
    sbox = [4.2, 4.4, 4.6]
    bases = [{"box": [4.0, 4.0, 4.0]}, {"box": [3.6, 4.4, 5.2]}, {"dens": 40.0}]
    coords = [None, {"mode": "c", "k": max(1, ntot // 2), "box": sbox}, {"mode": "mc", "k": max(1, ntot // 2), "box": sbox},
              {"mode": "c", "k": ntot, "box": sbox}, {"mode": "c+mc", "k": n0, "box": sbox}]
    blds = [None, "sphere", "volumes"]
    grids = [None, 25]
    rid = max(i + 1 for i, (rn, _) in enumerate(TYPES[t0]["res"]) if rn == r0 and i < 2)     # an existing residue of that name
    starts = [None, [f"{t0}-{r0}#{rid}"], [f"{t0}#0-{r0}#1"]]
    out = []
    for base, co, bld, grid, start in itertools.product(bases, coords, blds, grids, starts):
        ress = [None] if co is None or co["mode"] == "c+mc" else [None, [r0]]
        for rs in ress:
            o = dict(base)
            o.update(coords=co, grid=grid, start=start, res=rs or [])
            if bld == "sphere":
                c = [2.0, 2.0, 2.0]
                o["restraints"] = [{"kind": "sphere", "mol": t0, "mfrom": 0, "mto": 1, "resname": r0, "rfrom": 1, "rto": 9, "inout": "in", "c": c, "prm": [1.7]}]
                if co is not None or "dens" in base:
                    continue        # the sphere is written for the requested boxes only
            elif bld == "volumes":
                o["bld_extra"] = f"[ volumes ]\n{r0} 0.5\n"
            out.append(o)
    return out


def run_c03(ctx, res):
    names = ["W", "PA", "PD", "PV"]
    topologies = []
    for k in (1, 2, 3):
        for order in itertools.permutations(names, k):
            for counts in itertools.product((1, 2, 3), repeat=k):
                if sum(counts) <= 6:
                    topologies.append([[t, c] for t, c in zip(order, counts)])
    repeated = [[["PA", 1], ["W", 2], ["PA", 1]], [["W", 1], ["PV", 1], ["W", 2]], [["PD", 1], ["PD", 2]], [["W", 1], ["PA", 1], ["W", 1], ["PA", 1]],
                [["BR", 1], ["W", 2]], [["R6", 1], ["MX", 1]], [["PU", 1]], [["W", 2], ["PU", 1]], [["PU", 2], ["PA", 1]],
                [["PZ", 1], ["W", 2]], [["MZ", 1], ["PZ", 1]], [["PA", 1], ["MZ", 2]]]
    topologies += repeated
    full_on = [[["PA", 2], ["W", 3]], [["W", 2], ["PV", 1], ["PD", 1]], [["PD", 1]]]
    nseeds = 2 if not ctx.thorough else 6
    seeds = seeds_for(ctx, nseeds)
    worlds = []
    nopt = 0
    for ml in full_on:
        opts = c03_options(ml)
        nopt = max(nopt, len(opts))
        for i, o in enumerate(opts):
            for s in (seeds if ctx.thorough else seeds[:1]):
                worlds.append(dict(o, unit="c03", molecules=ml, seed=s + i % 3))
    per_top = 2 if not ctx.thorough else 8
    for ti, ml in enumerate(topologies):
        opts = c03_options(ml)
        for j in range(per_top):
            o = opts[(ti * 17 + j * 101) % len(opts)]
            worlds.append(dict(o, unit="c03", molecules=ml, seed=seeds[(ti + j) % nseeds]))
    dens_tops = [[["PZ", 1]], [["PZ", 3]], [["W", 2], ["PZ", 1]], [["PZ", 1], ["PD", 2], ["W", 1]], [["MZ", 1]], [["MZ", 2], ["PV", 1]],
                 [["PD", 1], ["MZ", 1], ["PZ", 1]], [["PV", 2]], [["PU", 1], ["PZ", 1]], [["MX", 1], ["MZ", 1]]]
    n_dens = 0
    for ml in dens_tops:
        t0, r0 = ml[0][0], first_resname(ml)
        for dens in (25.0, 40.0, 80.0):
            for extra in ({}, {"grid": 25}, {"start": [f"{t0}#0-{r0}#1"]}, {"bld_extra": f"[ volumes ]\n{r0} 0.5\n"}):
                for s in seeds[:2]:
                    worlds.append(dict(extra, unit="c03", molecules=ml, dens=dens, seed=s))
                    n_dens += 1
    res.bound = (f"topologies: every ordered choice of 1-3 distinct molecule types from {names} (W: one bead; PA: 4 one-bead residues RA,RA,RA,RB; PD: 3 two-atom "
                 f"residues, one atom with its mass in [atoms]; PV: 2 three-atom residues with a virtual_sitesn site (also bonded) + 1 bead) x every count vector in {{1,2,3}}^k "
                 f"with <= 6 molecules ({len(topologies) - len(repeated)} topologies) + {len(repeated)} with a repeated type / branched / ring / mixed-size molecules / PU = virtual site that occurs in no bond (Martini style), each under "
                 f"{per_top} option sets taken round-robin from the option product; on {len(full_on)} topologies the COMPLETE product (up to {nopt} sets): "
                 "{-box cubic, -box non-cubic, -dens} x {no structure, -c half (may cut a chain), -mc half, -c all, -c and -mc} x {-b none, sphere restraint, volumes} "
                 "x {-res none / first residue name} x {-grid none / 25 points} x {-start none / by name / by molecule index}; "
                 f"+ {n_dens} worlds with the box from -dens ALONE (no -box, no structure) on {len(dens_tops)} topologies whose [ atoms ] state masses for some atoms only, "
                 "including an explicit 0.0 on virtual sites / dummy atoms whose atomtype has a non-zero mass (PZ, MZ) and on sites of a massless type (PV, PU): "
                 "densities {25, 40, 80} x {plain, -grid, -start, -b volumes} x 2 seeds; "
                 f"{nseeds} seeds (seeded, not exhaustive over placements); {len(worlds)} gen_coords calls")
    res.rule = ("world = (topology, option set, seed), written as sys.top + ff.itp + mols.itp (+ in.gro, opts.bld, grid.dat); non-trivial iff distinct and it has "
                ">= 2 [molecules] lines or any of -c/-mc/-b/-grid/-start")
    res.exhaustive = True
    run_worlds("c03-output-structure", worlds, res)


# --------------------------------------------------------------------------------------------------------------
# C04
# --------------------------------------------------------------------------------------------------------------

C04_SYSTEMS = [
    [["PA", 1], ["W", 2]],
    [["PD", 2]],
    [["W", 1], ["PV", 1], ["PA", 1]],
    [["PA", 2]],
]
C04_BOX = [4.0, 3.8, 3.6]


def res_subsets(mollist, maxn=2):
    names = []
    for t, _ in mollist:
        for rn, _ in TYPES[t]["res"]:
            if rn not in names:
                names.append(rn)
    out = [[]]
    for n in range(1, maxn + 1):
        out += [list(c) for c in itertools.combinations(names, n)]
    return out


def _type_names(tn):
    return list(dict.fromkeys(rn for rn, _ in TYPES[tn]["res"]))


def _subsets(items):
    items = list(items)
    for n in range(len(items) + 1):
        for c in itertools.combinations(items, n):
            yield list(c)


# ---- thorough tier only: the deeper families (the quick tier reaches this code only through c04_witness_worlds below)
C04_DEEP_ONE = [[["L2", 2]], [["L3", 2]], [["L4", 1]], [["L4", 2]], [["L5", 1]], [["L5", 2]], [["B5", 1]], [["B5", 2]], [["Y4", 1]], [["Y4", 2]],
                [["G5", 1]], [["G5", 2]], [["G4", 2]], [["MX", 1]]]
C04_DEEP_MULTI = [[["B5", 1], ["W", 2]], [["W", 1], ["G5", 1], ["N", 2]], [["N", 1], ["L4", 1], ["W", 1], ["B5", 1]], [["L3", 1], ["N", 2], ["Y4", 1], ["G4", 1]],
                  [["W", 2], ["L5", 1], ["N", 1]], [["PD", 1], ["Y4", 1], ["W", 1], ["PV", 1]], [["G4", 1], ["W", 1], ["L2", 2], ["N", 1]]]
C04_DEEP_BOTH = [[["L5", 1]], [["L4", 2]], [["B5", 1], ["W", 2]], [["W", 1], ["G5", 1], ["N", 1]], [["PD", 2]], [["N", 1], ["L3", 1], ["Y4", 1]], [["G4", 1], ["PV", 1]]]
C04_DEEP_IGN = [("W", "PA", "PD"), ("W", "N", "PA"), ("N", "B5", "W"), ("G5", "W", "PV"), ("Y4", "N", "L3"), ("N", "B5", "PD", "W"), ("W", "L4", "G4", "N")]
C04_DEEP_IGN_REPEATED = [([["W", 1], ["PA", 1], ["W", 2]], ["W"]), ([["PA", 1], ["W", 1], ["PA", 1]], ["PA"]), ([["PA", 1], ["W", 1], ["PA", 1]], ["W"]),
                         ([["N", 1], ["B5", 1], ["N", 1], ["W", 1], ["B5", 1]], ["N"]), ([["N", 1], ["B5", 1], ["N", 1], ["W", 1], ["B5", 1]], ["B5"]),
                         ([["N", 1], ["B5", 1], ["N", 1], ["W", 1], ["B5", 1]], ["N", "W"]), ([["L3", 1], ["W", 2], ["L3", 1], ["W", 1]], ["W"]),
                         ([["L3", 1], ["W", 2], ["L3", 1], ["W", 1]], ["L3"])]
SOLVENTS = ("W", "N")


def c04_split_worlds(ml, seeds, focus_all, offset=0):
    """every residue-name set for -res that is (every subset of the names of ONE molecule type) x (for each other type: none / all of
    its names), x {-c, -mc} x every prefix length k >= 1 of the residues not named"""
    types = list(dict.fromkeys(t for t, _ in ml))
    mols = expand(ml)
    skips = []
    for focus in types:
        others = [t for t in types if t != focus]
        for sub in (_subsets(_type_names(focus)) if focus_all or len(_type_names(focus)) > 1 else [[]]):
            for pick in _subsets(others):
                sk = sorted(set(sub) | {n for t in pick for n in _type_names(t)})
                if sk not in skips:
                    skips.append(sk)
    out = []
    for si, skip in enumerate(skips):
        ncov = n_coverable(mols, skip)
        for mode in ("c", "mc"):
            for k in range(1, ncov + 1):
                for j, s in enumerate(seeds):
                    out.append(dict(unit="c04", molecules=ml, seed=s + (si + k + offset) % 7 * 100, res=skip, coords={"mode": mode, "k": k, "box": C04_BOX}))
    return out


def c04_both_worlds(ml, seeds):
    """-c AND -mc: every pair of prefix lengths (k of in.gro, kmc of in_meta.gro), every set of <= 1 residue names for -res (all subsets for one-type systems)"""
    mols = expand(ml)
    names = list(dict.fromkeys(n for t, _ in ml for n in _type_names(t)))
    skips = list(_subsets(names)) if len(ml) == 1 and ml[0][1] == 1 else [[]] + [[n] for n in names]
    out = []
    for skip in skips:
        ncov = n_coverable(mols, skip)
        for k in range(1, ncov + 1):
            for kmc in range(1, ncov + 1):
                for s in seeds:
                    out.append(dict(unit="c04", molecules=ml, seed=s, res=skip, coords={"mode": "c+mc", "k": k, "kmc": kmc, "box": C04_BOX}))
    return out


# ---- witness worlds (both tiers): the minimal members of family (c) of the thorough tier on which the input classes of their own
# '-c AND -mc' were observed, one per class.  They are ordinary members of the enumeration: picked out of c04_both_worlds and
# evaluated by eval_world / check_three_way like every other world (family (c) of the thorough tier enumerates every pair of prefix
# lengths on larger systems, e.g. PD 2).
C04_WITNESS_SYSTEM = [["PD", 1]]        # three two-atom residues of one name
C04_WITNESS_PREFIXES = [(1, 1),         # -c: residue 1, -mc: centre of residue 1         (atoms and centre for the same residue)
                        (2, 1)]         # -c: residues 1-2, -mc: centre of residue 1      (atoms past the end of the -mc file)


def c04_witness_worlds(seeds):
    return [w for w in c04_both_worlds(C04_WITNESS_SYSTEM, seeds[:1])
            if not w["res"] and (w["coords"]["k"], w["coords"]["kmc"]) in C04_WITNESS_PREFIXES]


# ---- -start naming a residue of a PARTIALLY SUPPLIED molecule (both tiers).  The statement does not exempt the residue the user asks
# the building to start from: if its coordinates are supplied they are kept, and the generated residues are still exactly the missing /
# named ones.  The worlds are ordinary splits (c04_split_worlds) crossed with one -start spec in the format of
# polyply.src.annotate_ligands.parse_residue_spec, '<molname>-<resname>#<resid>' (every molecule of that name) or
# '<molname>#<molidx>-<resname>#<resid>' (one molecule); which residue the spec names is written down here, from the description.
C04_START_CHAINS = ["PA", "L4", "CH5", "L5", "CH6", "MX", "CH7", "C8"]          # 4-8 residues, 1/2/3-atom residues in L4 L5 MX
C04_START_BRANCHED = ["Y4", "B5", "BR"]                                          # star of 4, branched 5 and 7
C04_START_RINGS = ["G4", "RG4", "G5", "RG5", "R6", "RG7", "RG8"]                 # rings of 4-8
C04_START_MULTI = [[["L5", 2]], [["PA", 2]], [["W", 1], ["B5", 1], ["W", 1]], [["CH6", 1], ["N", 2]], [["W", 2], ["G5", 1], ["L4", 1]], [["N", 1], ["RG5", 2]]]
C04_START_NAMED = ["L5", "B5", "G5"]                                             # -res <one name>: the supplied residues are not a prefix of the molecule
# quick tier: (system, -res, prefix length k); the molecule that is cut has >= 2 supplied and >= 2 missing residues
C04_START_QUICK = [([["CH6", 1]], [], 4), ([["BR", 1]], [], 4), ([["RG5", 1]], [], 3), ([["L5", 1]], [], 3), ([["L5", 1]], ["LA"], 3),
                   ([["W", 1], ["L4", 2]], [], 7)]
C04_START_CLASSES = {"a": "supplied, not the first residue of its molecule", "b": "the first residue of its molecule (supplied)", "c": "has to be built"}


def start_spec(mols, mi, ri, form):
    """the -start text naming residue ri of molecule mi, and the (molecule, residue) pairs that text names"""
    t, rn = mols[mi]["type"], mols[mi]["res"][ri][0]
    if form == "name":
        return f"{t}-{rn}#{ri + 1}", [[mj, ri] for mj, m in enumerate(mols) if m["type"] == t]
    return f"{t}#{mi}-{rn}#{ri + 1}", [[mi, ri]]


def start_class(plan, mi, ri):
    if plan[mi][ri] == "gen":
        return "c"
    return "b" if ri == 0 else "a"


def c04_start_worlds(ml, seeds, configs=None, full=True, both_forms=True, count=None, offset=0):
    """configs: [(names for -res, prefix length k)], None = every prefix length k >= 1 without -res.  Per config x {-c, -mc}:
    full: every partially supplied molecule x EVERY residue of it (x both spec forms, or the two forms alternating);
    not full (quick tier): one residue of each class a / b / c in the last partially supplied molecule, the two forms alternating"""
    mols = expand(ml)
    if configs is None:
        configs = [([], k) for k in range(1, n_coverable(mols, []) + 1)]
    count = {} if count is None else count
    out = []
    for (skip, k) in configs:
        plan = split_plan(mols, skip, k)
        targets = [mi for mi, p in enumerate(plan) if "given" in p and "gen" in p]
        if not full:
            targets = targets[-1:]
        for mo, mode in enumerate(("c", "mc")):
            for mi in targets:
                n = len(plan[mi])
                if full and both_forms:
                    picks = [(ri, f) for ri in range(n) for f in ("name", "idx")]
                elif full:
                    picks = [(ri, ("name", "idx")[(ri + k + mo) % 2]) for ri in range(n)]
                else:
                    by = {c: [ri for ri in range(n) if start_class(plan, mi, ri) == c] for c in "abc"}
                    picks = [(by[c][-1 if (mo == 0) == (c == "a") else 0], ("name", "idx")[(mo + ci) % 2]) for ci, c in enumerate("abc") if by[c]]
                for (ri, form) in picks:
                    text, at = start_spec(mols, mi, ri, form)
                    cls = start_class(plan, mi, ri)
                    count[cls] = count.get(cls, 0) + 1
                    s = seeds[(k + ri + mo + (form == "idx") + offset) % len(seeds)]
                    out.append(dict(unit="c04", molecules=ml, seed=s, res=list(skip), coords={"mode": mode, "k": k, "box": C04_BOX}, start=[text], start_at=at))
    return out


def c04_start_family(ctx, seeds):
    count = {}
    worlds = []
    if not ctx.thorough:
        for ml, skip, k in C04_START_QUICK:
            worlds += c04_start_worlds(ml, seeds, [(skip, k)], full=False, count=count)
        return worlds, count
    for i, ml in enumerate([[[t, 1]] for t in C04_START_CHAINS + C04_START_BRANCHED + C04_START_RINGS] + C04_START_MULTI):
        worlds += c04_start_worlds(ml, seeds, None, count=count, offset=i)
    for i, t in enumerate(C04_START_NAMED):
        ml = [[t, 1]]
        n = len(TYPES[t]["res"])
        worlds += c04_start_worlds(ml, seeds, [([nm], k) for nm in _type_names(t) for k in range(1, n)], both_forms=False, count=count, offset=i)
    return worlds, count


def c04_ign_worlds(ml, ign, seeds, modes=("c", "mc"), extra=None):
    """-ign <ign>: the ignored molecules are supplied completely (the files are positional, so every residue before the last ignored
    molecule is supplied too or named with -res); every set of the other molecule types named for rebuilding, every prefix length
    from 'through the last ignored molecule' to 'everything not named'"""
    mols = expand(ml)
    free = [t for t in dict.fromkeys(t for t, _ in ml) if t not in ign]
    out = []
    for gi, pick in enumerate(_subsets(free)):
        skip = sorted({n for t in pick for n in _type_names(t)})
        seq = [mol["type"] for mol in mols for (rn, _) in mol["res"] if rn not in skip]
        kmin = max(i for i, t in enumerate(seq) if t in ign) + 1
        for k in range(kmin, len(seq) + 1):
            for mode in modes:
                for s in seeds:
                    out.append(dict(extra or {}, unit="c04", molecules=ml, seed=s + (gi + k) % 5 * 100, ign=list(ign), res=skip, coords={"mode": mode, "k": k, "box": C04_BOX}))
    return out


def c04_schedules(L2, L3, streak, period_len):
    """failure schedules over the placement events 0, 1, 2, ...: nothing fails; every set of <= 2 events among the first L2; every set of
    3 among the first L3; the first n events all fail (n <= streak); every p-th event fails (p = 2, 3, 4; phase 0..p-1) up to period_len"""
    sc = [()] + [(i,) for i in range(L2)] + list(itertools.combinations(range(L2), 2)) + list(itertools.combinations(range(L3), 3))
    sc += [tuple(range(n)) for n in range(4, streak + 1)]
    for p in (2, 3, 4):
        for ph in range(p):
            sc.append(tuple(range(ph, period_len, p)))
    return list(dict.fromkeys(sc))


def c04_deep_worlds(ctx, seeds):
    count = {}
    worlds = []
    for ml in C04_DEEP_ONE:
        ws = c04_split_worlds(ml, seeds[:4], True)
        count["split-one"] = count.get("split-one", 0) + len(ws)
        worlds += ws
    for i, ml in enumerate(C04_DEEP_MULTI):
        ws = c04_split_worlds(ml, seeds[i % 4:i % 4 + 1], False, offset=i)
        count["split-multi"] = count.get("split-multi", 0) + len(ws)
        worlds += ws
    for ml in C04_DEEP_BOTH:
        ws = c04_both_worlds(ml, seeds[:2])
        count["both"] = count.get("both", 0) + len(ws)
        worlds += ws
    n_lists = 0
    for base in C04_DEEP_IGN:
        cnts = {t: (2 if t in SOLVENTS else 1) for t in base}
        for oi, order in enumerate(itertools.permutations(base)):
            ml = [[t, cnts[t]] for t in order]
            n_lists += 1
            for ii, ign in enumerate(list(_subsets(base))[1:]):
                modes = ("c", "mc") if len(base) == 3 else (("c", "mc")[(oi + ii) % 2],)
                ws = c04_ign_worlds(ml, ign, seeds[(oi + ii) % 3:(oi + ii) % 3 + (2 if len(base) == 3 else 1)], modes)
                count["ign"] = count.get("ign", 0) + len(ws)
                worlds += ws
    for ml, ign in C04_DEEP_IGN_REPEATED:
        n_lists += 1
        ws = c04_ign_worlds(ml, ign, seeds[:3])
        count["ign"] = count.get("ign", 0) + len(ws)
        worlds += ws
    count["ign-lists"] = n_lists
    # ---- scripted failures
    sched_systems = [
        dict(molecules=[["C8", 1]], coords={"mode": "c", "k": 2, "box": C04_BOX}, nrewind=2),
        dict(molecules=[["C8", 1]], coords={"mode": "mc", "k": 3, "box": C04_BOX}, nrewind=5),
        dict(molecules=[["C8", 2]], coords={"mode": "c", "k": 9, "box": C04_BOX}, nrewind=3),
        dict(molecules=[["CH10", 1]], coords={"mode": "c", "k": 1, "box": C04_BOX}, nrewind=4),
        dict(molecules=[["PA", 2]], coords={"mode": "c", "k": 5, "box": C04_BOX}, nrewind=5),
        dict(molecules=[["PA", 1], ["W", 2]], coords={"mode": "c", "k": 2, "box": C04_BOX}, nrewind=1),
        dict(molecules=[["W", 2], ["PA", 1], ["N", 2]], coords={"mode": "mc", "k": 4, "box": C04_BOX}, nrewind=2),
        dict(molecules=[["PD", 2]], coords={"mode": "mc", "k": 1, "box": C04_BOX}, nrewind=2),
        dict(molecules=[["PV", 1], ["PA", 1]], coords={"mode": "c", "k": 2, "box": C04_BOX}, res=["RS"], nrewind=5),
        dict(molecules=[["MX", 1]], coords={"mode": "c", "k": 2, "box": C04_BOX}, res=["RD"], nrewind=2),
        dict(molecules=[["BR", 1]], coords={"mode": "c", "k": 2, "box": C04_BOX}, nrewind=2),
        dict(molecules=[["B5", 2]], coords={"mode": "c", "k": 4, "box": C04_BOX}, res=["BB", "BE"], nrewind=1),
        dict(molecules=[["Y4", 2], ["W", 1]], coords={"mode": "mc", "k": 3, "box": C04_BOX}, res=["YA"], nrewind=2),
        dict(molecules=[["R6", 1], ["N", 1]], coords={"mode": "c", "k": 3, "box": C04_BOX}, nrewind=3),
        dict(molecules=[["G5", 2]], coords={"mode": "c", "k": 4, "box": C04_BOX}, res=["GB", "GD"], nrewind=2),
        dict(molecules=[["L5", 2]], coords={"mode": "mc", "k": 6, "box": C04_BOX}, res=["LC"], nrewind=2),
        dict(molecules=[["W", 2], ["C8", 1], ["PA", 1]], coords={"mode": "c", "k": 4, "box": C04_BOX}, ign=["W"], nrewind=2),
        dict(molecules=[["PA", 1], ["N", 1], ["C8", 1]], coords={"mode": "c", "k": 2, "box": C04_BOX}, res=["RA", "RB"], ign=["N"], nrewind=3),
        dict(molecules=[["L4", 1], ["W", 1], ["B5", 1]], coords={"mode": "mc", "k": 5, "box": C04_BOX}, res=["LB"], nrewind=2),
    ]
    scheds = c04_schedules(12, 9, 12, 24)
    for sw in sched_systems:
        for sc in scheds:
            for s in seeds[:3]:
                worlds.append(dict(sw, unit="c04", seed=s, schedule=list(sc), res=sw.get("res", [])))
    count["sched"] = len(sched_systems) * len(scheds) * 3
    count["sched-systems"] = len(sched_systems)
    count["scheds"] = len(scheds)
    return worlds, count


def run_c04(ctx, res):
    nseeds = 2 if not ctx.thorough else 8
    seeds = seeds_for(ctx, nseeds)
    worlds = []
    n_split = n_ign = n_sched = 0
    for ml in C04_SYSTEMS:
        mols = expand(ml)
        for skip in res_subsets(ml):
            ncov = n_coverable(mols, skip)
            for mode in ("c", "mc"):
                for k in range(1, ncov + 1):
                    for s in seeds:
                        worlds.append(dict(unit="c04", molecules=ml, seed=s, res=skip, coords={"mode": mode, "k": k, "box": C04_BOX}))
                        n_split += 1
    # ---- ignored molecule type at every position of [molecules]; what precedes it is supplied or named for rebuilding
    ign_systems = [[["W", 2], ["PA", 1]], [["PA", 1], ["W", 2]], [["PA", 1], ["W", 1], ["PD", 1]], [["PD", 1], ["PA", 1], ["W", 2]], [["W", 1], ["PD", 1], ["PA", 1]]]
    for ml in ign_systems:
        mols = expand(ml)
        for pos, (t, c) in enumerate(ml):
            if t != "W":
                continue
            before = [TYPES[tt]["res"] for tt, _ in ml[:pos]]
            n_before = sum(len(TYPES[tt]["res"]) * cc for tt, cc in ml[:pos])
            # (a) everything before the ignored molecules is supplied too
            worlds.append(dict(unit="c04", molecules=ml, seed=seeds[0], ign=["W"], res=[], coords={"mode": "c", "k": n_before + c, "box": C04_BOX}))
            n_ign += 1
            # (b) everything before it is named for rebuilding, the file holds only the ignored molecules
            if pos > 0:
                names = sorted({rn for rl in before for rn, _ in rl})
                worlds.append(dict(unit="c04", molecules=ml, seed=seeds[0], ign=["W"], res=names, coords={"mode": "c", "k": c, "box": C04_BOX}))
                n_ign += 1
    # ---- scripted failures: every set of <= 2 failing events among the first L placement events
    L = 6 if not ctx.thorough else 8
    sched_worlds = [
        dict(molecules=[["C8", 1]], coords={"mode": "c", "k": 2, "box": C04_BOX}, nrewind=2),
        dict(molecules=[["C8", 1]], coords={"mode": "mc", "k": 3, "box": C04_BOX}, nrewind=5),
        dict(molecules=[["PA", 2]], coords={"mode": "c", "k": 5, "box": C04_BOX}, nrewind=5),
        dict(molecules=[["PA", 1], ["W", 2]], coords={"mode": "c", "k": 2, "box": C04_BOX}, nrewind=1),
        dict(molecules=[["PD", 2]], coords={"mode": "mc", "k": 1, "box": C04_BOX}, nrewind=2),
        dict(molecules=[["PV", 1], ["PA", 1]], coords={"mode": "c", "k": 2, "box": C04_BOX}, res=["RS"], nrewind=5),
        dict(molecules=[["MX", 1]], coords={"mode": "c", "k": 2, "box": C04_BOX}, res=["RD"], nrewind=2),
    ]
    scheds = [()] + [(i,) for i in range(L)] + list(itertools.combinations(range(L), 2))
    for sw in sched_worlds:
        for sc in scheds:
            for s in seeds[:1] if not ctx.thorough else seeds[:2]:
                worlds.append(dict(sw, unit="c04", seed=s, schedule=list(sc), res=sw.get("res", [])))
                n_sched += 1
    # ---- -c AND -mc: the witness worlds of the classes observed in the thorough tier (family (c) there)
    witness = c04_witness_worlds(seeds)
    worlds += witness
    # ---- -start naming a residue of a partially supplied molecule
    start_worlds, stc = c04_start_family(ctx, seeds)
    worlds += start_worlds
    res.bound = (f"systems {C04_SYSTEMS} (<= 4 molecules, <= 4 residues each): EVERY split the file formats can express = every set of <= 2 residue names given to -res x "
                 f"{{-c (all atoms), -mc (centres)}} x every prefix length k >= 1 of the remaining residues in topology order (whole molecules and cut chains), {nseeds} seeds "
                 f"= {n_split} worlds; -ign W with W at every position of {len(ign_systems)} [molecules] lists, what precedes it supplied or named with -res = {n_ign} worlds; "
                 f"scripted failures: on {len(sched_worlds)} partially supplied systems (incl. 8-residue chain, -nr 1/2/5) every set of <= 2 failing events among the first {L} placement "
                 f"events (event = start-point check or RandomWalk.update_positions call; a failing update runs the real loop with _is_overlap forced True) = {n_sched} worlds. "
                 "-c together with -mc is not a split (the second file re-reads from the first residue) and is otherwise exercised in C03 only; "
                 f"{len(witness)} witness worlds of it: [molecules] {C04_WITNESS_SYSTEM}, prefix lengths (k of -c, kmc of -mc) = {C04_WITNESS_PREFIXES}, no -res, 1 seed "
                 "(the thorough tier enumerates every pair of prefix lengths)")
    st_classes = ", ".join(f"({c}) {C04_START_CLASSES[c]}: {stc.get(c, 0)}" for c in "abc")
    if not ctx.thorough:
        res.bound += (f"; START RESIDUE AMONG THE SUPPLIED ONES: splits (system, -res, k) = {C04_START_QUICK} (chain / branched / ring / 1-2-3-atom residues / second copy behind a solvent; "
                      "the cut molecule keeps >= 2 supplied and >= 2 missing residues) x {-c, -mc} x one -start spec per class of named residue, spec forms '<molname>-<resname>#<resid>' and "
                      f"'<molname>#<molidx>-<resname>#<resid>' alternating = {len(start_worlds)} worlds; named residue {st_classes}")
    res.rule = ("non-trivial iff distinct, finished, and the split has >= 1 supplied and >= 1 generated residue (for scripted worlds additionally >= 1 forced failure was reached)"
                "; with -c AND -mc: non-trivial iff >= 2 of {atoms only, atoms and centre, centre only, neither} occur and not only the first two"
                "; with -start additionally: the spec names a residue of a molecule that has >= 1 supplied and >= 1 generated residue")
    if ctx.thorough:
        deep_worlds, dc = c04_deep_worlds(ctx, seeds)
        worlds += deep_worlds
        res.bound += (f"  || THOROUGH, in addition ({len(deep_worlds)} worlds): molecule types of 2-5 residues whose residues all have different names (linear L2..L5 with 1/2/3-atom residues, "
                      "branched B5 and star Y4, rings G5/G4; one-bead solvents W and N), so that -res expresses EVERY subset of the residues of a molecule as named for rebuilding: "
                      f"(a) one-type systems {C04_DEEP_ONE}: every subset of the residue names x {{-c, -mc}} x every prefix length k >= 1 of the residues not named x 4 seeds = {dc['split-one']}; "
                      f"(b) 3-4 type systems {C04_DEEP_MULTI}: (every subset of the names of one type) x (each other type: none / all of its names) x {{-c, -mc}} x every prefix length = {dc['split-multi']}; "
                      f"(c) given / centre-only / missing in ONE run = -c AND -mc with independent prefix lengths (k, kmc), every pair, on {C04_DEEP_BOTH} x -res of <= 1 name (every subset for L5) x 2 seeds = {dc['both']}; "
                      f"(d) -ign: type sets {C04_DEEP_IGN} in EVERY order of [molecules] (solvents x2) x every non-empty subset of the types ignored x every subset of the other types named with -res x "
                      f"every prefix length from 'through the last ignored molecule' to 'all residues not named' x -c / -mc, + {len(C04_DEEP_IGN_REPEATED)} lists in which the ignored type occurs on several "
                      f"[molecules] lines = {dc['ign-lists']} lists, {dc['ign']} worlds; "
                      f"(e) scripted failures on {dc['sched-systems']} partially supplied systems (chains of 8/10, branched, star, rings, solvents around, -ign, -res of inner residues, -c and -mc, -nr 1..5) x "
                      f"{dc['scheds']} schedules (none; every set of <= 2 failing events among the first 12; every 3 among the first 9; the first n = 4..12 events all fail; every 2nd/3rd/4th event fails, "
                      f"each phase, up to event 24) x 3 seeds = {dc['sched']}; "
                      f"(f) START RESIDUE AMONG THE SUPPLIED ONES ({len(start_worlds)} worlds): one-molecule systems of chains {C04_START_CHAINS}, branched {C04_START_BRANCHED}, rings {C04_START_RINGS} "
                      f"(4-8 residues) and {C04_START_MULTI}: every prefix length k >= 1 x {{-c, -mc}} x every molecule left partially supplied x -start naming EVERY residue of it x both spec forms "
                      "('<molname>-<resname>#<resid>' = every molecule of that name, '<molname>#<molidx>-<resname>#<resid>'), seeds rotating; "
                      f"+ {C04_START_NAMED} with -res <each single residue name> (supplied residues not a prefix of the molecule) x every k x {{-c, -mc}} x every residue, forms alternating; "
                      f"named residue {st_classes}")
    res.exhaustive = True
    run_worlds("c04-supplied-preserved", worlds, res)
    res.assumptions.append("supplied coordinates come from an own lattice generator (3 decimals), inside the box of the input structure")


# --------------------------------------------------------------------------------------------------------------
# C05
# --------------------------------------------------------------------------------------------------------------

def run_c05(ctx, res):
    nseeds = 2 if not ctx.thorough else 10
    seeds = seeds_for(ctx, nseeds)
    systems = [[["C8", 2]], [["BR", 1], ["W", 2]], [["R6", 1], ["MX", 1]], [["MX", 2], ["W", 1]], [["PV", 1], ["PD", 1], ["C8", 1]]]
    boxes = [[3.0, 3.0, 3.0], [2.4, 3.0, 3.6], [1.7, 1.7, 1.7]]
    grids = [{}, {"gs": 0.5}, {"grid": 40}]
    sfs = [0.8, 1.0]
    mfs = [5 * 10 ** 4.0, 1e3, 1e300]
    worlds = []
    for ml, box, g, sf, mf in itertools.product(systems, boxes, grids, sfs, mfs):
        for s in seeds:
            worlds.append(dict(g, unit="c05", molecules=ml, box=box, sf=sf, mf=mf, seed=s))
    n_free = len(worlds)
    # partially supplied molecules: generated residues grow from supplied ones
    part = []
    for ml, k, rs in (([["C8", 1], ["W", 1]], 3, []), ([["PA", 2]], 5, []), ([["MX", 1]], 2, []), ([["PA", 1], ["W", 2]], 4, ["RA"]), ([["PA", 1]], 1, ["RA"]),
                      ([["PV", 1], ["PA", 1]], 3, ["RV"]), ([["BR", 1]], 4, [])):
        for mode in ("c", "mc"):
            for sf in sfs:
                for s in seeds:
                    part.append(dict(unit="c05", molecules=ml, coords={"mode": mode, "k": k, "box": [3.6, 3.4, 3.2]}, res=rs, sf=sf, seed=s))
    worlds += part
    # the first residue chosen with -start (by molecule name, by molecule index)
    started = []
    for ml, st in (([["C8", 2]], ["C8-RA#4"]), ([["BR", 1], ["W", 2]], ["BR#0-RA#4"]), ([["MX", 1], ["C8", 1]], ["MX-RV#4", "C8#1-RA#8"])):
        for box in boxes:
            for sf in sfs:
                for s in seeds:
                    started.append(dict(unit="c05", molecules=ml, box=box, sf=sf, start=st, seed=s))
    worlds += started
    # small rings: the residue that closes a ring of 3 / 4 is grown next to a positioned bonded neighbour other than the residue
    # it is grown from; several molecules, short steps, residue size 0.47 (template) and 0.40 ([ volumes ])
    rseeds = seeds_for(ctx, 6 if not ctx.thorough else 16)
    rings = []
    for rt in ("RG3", "RG4"):
        for cnt in (6, 10):
            for sf in (0.6, 0.8):
                for bx, g in (([6.0, 5.0, 7.0], {"grid": 40}), ([3.0, 3.0, 3.0], {})):
                    for vol in (None, 0.4):
                        for s in rseeds:
                            w = dict(g, unit="c05", molecules=[[rt, cnt]], box=bx, sf=sf, seed=s)
                            if vol:
                                w["bld_extra"] = f"[ volumes ]\nRA {vol}\n"
                            rings.append(w)
    worlds += rings
    # a rebuilt residue between two supplied ones (chain A-B-A, rings A-B-A and A-B-A-B, -res RB): the supplied neighbours are laid
    # out one step apart, so the sphere of directions around the parent passes through the other neighbour
    between = []
    for mt in ("PM3", "RM3", "RM4"):
        ncov = sum(1 for rn, _ in TYPES[mt]["res"] if rn != "RB")
        for cnt in (4, 6):
            for sf in (0.6, 0.8):
                for mode in ("c", "mc"):
                    for s in rseeds:
                        between.append(dict(unit="c05", molecules=[[mt, cnt]], res=["RB"], sf=sf, seed=s,
                                            coords={"mode": mode, "k": ncov * cnt, "box": [3.6, 3.8, 3.2], "dx": round(0.47 * sf / 2, 3)}))
    worlds += between
    res.bound = (f"systems {systems} (linear, branched BR, ring R6 grown as a tree, mixed residue sizes MX/PV/PD, solvent) x boxes {boxes} x start grid {{default 0.2, -gs 0.5, "
                 f"user file of 40 points}} x -sf {sfs} x -mf {mfs} (1e300: only the 0.1 nm floor guards) x {nseeds} seeds = {n_free} worlds (complete product); "
                 f"+ {len(part)} worlds with partially supplied molecules (-c / -mc prefixes, -res on first / inner residues) in a non-cubic box "
                 f"+ {len(started)} worlds with -start on an inner residue (by molecule name / index) in the three boxes "
                 f"+ {len(rings)} small-ring worlds: {{6, 10}} rings of {{3, 4}} residues x -sf {{0.6, 0.8}} x {{box 6x5x7 with a 40-point grid file, box 3x3x3}} x residue size "
                 f"{{template 0.47, [ volumes ] 0.40}} x {len(rseeds)} seeds "
                 f"+ {len(between)} worlds where the rebuilt residue (-res RB) has two supplied bonded neighbours one step apart: {{chain A-B-A, ring A-B-A, ring A-B-A-B}} x "
                 f"{{4, 6}} molecules x -sf {{0.6, 0.8}} x {{-c, -mc}} x {len(rseeds)} seeds")
    res.rule = ("non-trivial iff distinct, finished, and (>= 1 generated residue lies across a periodic face from the residue it was grown from, or the system has >= 2 molecules); "
                "positions are the residue positions on the Topology after BuildSystem.run_system, the growth parent is the prev_node of the accepted "
                "RandomWalk.update_positions call, sizes are read from the engine's interaction matrix")
    res.exhaustive = True
    run_worlds("c05-steps-box-overlap", worlds, res)
    res.assumptions.append("the clause on the soft-sphere force at acceptance time is covered by the C16 engine-history unit, not here")


# --------------------------------------------------------------------------------------------------------------
# C07
# --------------------------------------------------------------------------------------------------------------

def run_c07(ctx, res):
    nseeds = 3 if not ctx.thorough else 12
    seeds = seeds_for(ctx, nseeds)
    worlds = []
    box = [4.0, 4.0, 4.0]
    nbox = [3.6, 4.0, 4.4]
    c = [1.9, 2.0, 2.1]
    geoms = [("sphere", "in", [0.95]), ("sphere", "out", [1.2]), ("cylinder", "in", [0.8, 0.9]), ("cylinder", "out", [1.0, 1.1]),
             ("rectangle", "in", [0.8, 0.9, 1.0]), ("rectangle", "out", [1.0, 1.1, 1.2])]
    n_geom = n_rw = n_dist = n_pers = n_cyc = 0
    for (kind, io, prm) in geoms:
        for (rf, rt) in ((1, 7), (3, 6)):
            for (mf_, mt_) in ((0, 2), (1, 2)):
                for bx in (box, nbox):
                    for s in seeds[:2] if not ctx.thorough else seeds:
                        rs = {"kind": kind, "mol": "CH6", "mfrom": mf_, "mto": mt_, "resname": "RA", "rfrom": rf, "rto": rt, "inout": io, "c": c, "prm": prm}
                        worlds.append(dict(unit="c07", molecules=[["CH6", 2]], box=bx, restraints=[rs], seed=s, maxiter=400, gs=0.25))
                        n_geom += 1
    for normal in ([0.0, 0.0, 1.0], [1.0, 1.0, 0.0]):
        for ang in (60.0, 30.0, -120.0):
            for (rf, rt) in ((1, 8), (3, 6)):
                for bx in (box, [1.9, 1.9, 1.9]):
                    for s in seeds:
                        rs = {"kind": "rw", "mol": "CH7", "mfrom": 0, "mto": 1, "resname": "RA", "rfrom": rf, "rto": rt, "normal": normal, "angle": ang}
                        worlds.append(dict(unit="c07", molecules=[["CH7", 1], ["W", 2]], box=bx, restraints=[rs], seed=s))
                        n_rw += 1
    for (n, a, b_) in ((7, 0, 6), (7, 1, 5), (6, 5, 0), (9, 0, 8)):
        for dd in (0.8, 1.5):
            for tol in (0.05, 0.3):
                for s in seeds:
                    rs = {"kind": "dist", "mol": f"CH{n}", "mfrom": 0, "mto": 2, "a": a, "b": b_, "d": dd, "tol": tol}
                    worlds.append(dict(unit="c07", molecules=[[f"CH{n}", 2]], box=box, restraints=[rs], seed=s))
                    n_dist += 1
    for n in range(5, 11):
        for lp in (0.6, 1.5, 4.0):
            for cnt in (1, 2):
                for s in seeds:
                    rs = {"kind": "pers", "mol": f"CH{n}", "mfrom": 0, "mto": cnt, "lp": lp, "a": 0, "b": n - 1}
                    worlds.append(dict(unit="c07", molecules=[[f"CH{n}", cnt]], box=[5.0, 5.0, 5.0], restraints=[rs], seed=s))
                    n_pers += 1
    for n in range(3, 9):
        for tol in (0.0, 0.1, 0.3):
            for ml in ([[f"RG{n}", 1]], [["W", 1], [f"RG{n}", 2]]):
                for s in seeds:
                    worlds.append(dict(unit="c07", molecules=ml, box=box, cycles=[f"RG{n}"], cycle_tol=tol, seed=s, maxiter=400))
                    n_cyc += 1
    if ctx.thorough:        # pairs of kinds
        for (kind, io, prm) in geoms:
            for s in seeds:
                r1 = {"kind": kind, "mol": "CH7", "mfrom": 0, "mto": 1, "resname": "RA", "rfrom": 1, "rto": 8, "inout": io, "c": c, "prm": [p * 1.4 for p in prm]}
                r2 = {"kind": "dist", "mol": "CH7", "mfrom": 0, "mto": 1, "a": 0, "b": 6, "d": 1.0, "tol": 0.2}
                r3 = {"kind": "rw", "mol": "CH7", "mfrom": 0, "mto": 1, "resname": "RA", "rfrom": 2, "rto": 8, "normal": [0.0, 0.0, 1.0], "angle": 80.0}
                worlds.append(dict(unit="c07", molecules=[["CH7", 1]], box=box, restraints=[r1, r2], seed=s, maxiter=400))
                worlds.append(dict(unit="c07", molecules=[["CH7", 1]], box=box, restraints=[r1, r3], seed=s, maxiter=400))
    # ---- (a) restraint regions at a periodic face: one chain of 10 started 0.1-0.15 nm from a face of the 4 nm box (explicit -grid rows), so that
    # trial steps cross that face; 'out' regions touch the OPPOSITE face (the image of a crossing step lands in them), 'in' regions reach past
    # the face next to the start (the step stays in the region, its stored image does not).  All 10 residues are selected.
    def at_face(axis, side, v):
        """[2,2,2] with coordinate `axis` replaced by v measured from the lower (side=0) or from the upper face (side=1)"""
        q = [2.0, 2.0, 2.0]
        q[axis] = v if side == 0 else round(4.0 - v, 6)
        return q

    def prm_along(kind, axis, along, across):
        if kind == "sphere":
            return [along]
        if kind == "cylinder":      # radius in xy, half-height in z
            return [across, along] if axis == 2 else [along, across]
        return [along if i == axis else across for i in range(3)]

    n_face = n_multi = 0
    faces = [(0, 1), (0, 0), (2, 1), (1, 0), (1, 1), (2, 0)]       # (axis, side the chain starts at)
    face_seeds = seeds[:2] if not ctx.thorough else seeds
    for fi, (axis, side) in enumerate(faces if ctx.thorough else faces[:3]):
        second = at_face(axis, side, 0.15)
        second[(axis + 1) % 3] += 0.4
        start_pts = [at_face(axis, side, 0.1), second]      # two rows: a one-row -grid file is read as a 1-D array and refused by the walk
        for kind in ("sphere", "cylinder", "rectangle"):
            # out: region of half-width 1.0 (sphere/cylinder: radius) centred ON / 0.5 nm inside the opposite face, wide (5 nm) across
            c_out = at_face(axis, 1 - side, 0.0 if kind != "rectangle" else 0.5)
            p_out = prm_along(kind, axis, 1.0 if kind != "rectangle" else 0.5, 5.0)
            # in: region centred 0.2 nm (rectangle 0.5) inside the face next to the start, reaching 1.0 / 0.5 nm past it
            c_in = at_face(axis, side, 0.2 if kind != "rectangle" else 0.5)
            p_in = prm_along(kind, axis, 1.2 if kind != "rectangle" else 1.0, 1.3)
            for (io, cc, pp) in (("out", c_out, p_out), ("in", c_in, p_in)):
                if not ctx.thorough and (fi + ("sphere", "cylinder", "rectangle").index(kind) + (io == "in")) % 2 and fi > 0:
                    continue        # quick: all 6 kinds on the first face, every other one on the next two
                for s in face_seeds:
                    rs = {"kind": kind, "mol": "CH10", "mfrom": 0, "mto": 1, "resname": "RA", "rfrom": 1, "rto": 11, "inout": io, "c": cc, "prm": pp}
                    worlds.append(dict(unit="c07", molecules=[["CH10", 1]], box=box, restraints=[rs], seed=s, maxiter=400, grid_pts=start_pts))
                    n_face += 1
    # ---- (b) several distance restraints on one molecule: 2-3 restraints sharing the anchor residue 0 with nested paths, every declaration order
    def dist(a, b_, dd, tol, mto=1):
        return {"kind": "dist", "mol": "CH10", "mfrom": 0, "mto": mto, "a": a, "b": b_, "d": dd, "tol": tol}

    nested = [[(0, 4, 1.5, 0.1), (0, 8, 0.9, 0.1)],                      # stretch the first half, fold back
              [(0, 3, 0.6, 0.1), (0, 9, 1.8, 0.2)],                      # compact start, extended end
              [(4, 0, 1.4, 0.1), (0, 9, 1.0, 0.2)],                      # anchor written second
              [(0, 3, 1.1, 0.1), (0, 6, 1.6, 0.2), (0, 9, 0.8, 0.2)]]    # three nested
    multi_seeds = seeds[:2] if not ctx.thorough else seeds
    for si, group in enumerate(nested):
        orders = list(itertools.permutations(group))
        if not ctx.thorough and len(orders) > 2:
            orders = [orders[0], orders[-1], orders[2]]
        for order in orders:
            for mto in ((1,) if not ctx.thorough else (1, 2)):
                for s in multi_seeds:
                    worlds.append(dict(unit="c07", molecules=[["CH10", mto]], box=[5.0, 5.0, 5.0], restraints=[dist(*r, mto=mto) for r in order], seed=s, maxiter=400))
                    n_multi += 1
    for order in itertools.permutations(nested[0]):     # ... plus one geometric restraint on the same molecule
        for (kind, io, cc, pp) in (("sphere", "in", [2.5, 2.5, 2.5], [1.6]), ("rectangle", "out", [2.5, 2.5, 2.5], [0.6, 0.6, 5.0])):
            for s in multi_seeds:
                g = {"kind": kind, "mol": "CH10", "mfrom": 0, "mto": 1, "resname": "RA", "rfrom": 1, "rto": 11, "inout": io, "c": cc, "prm": pp}
                worlds.append(dict(unit="c07", molecules=[["CH10", 1]], box=[5.0, 5.0, 5.0], restraints=[dist(*r) for r in order] + [g], seed=s, maxiter=400))
                n_multi += 1
    res.bound = (f"one restraint kind per build file: {{sphere, cylinder, rectangle}} x {{in, out}} x residue ranges {{all, 3..5}} x molecule ranges {{both, second only}} x 2 boxes on "
                 f"2 chains of 6 ({n_geom} worlds); rw_restriction: 2 normals x angles {{60, 30, -120}} x 2 residue ranges x {{4 nm box, 1.9 nm box (steps wrap)}} on a chain of 7 + solvent "
                 f"({n_rw}); distance_restraints: pairs (0,6),(1,5) of 7, (5,0) of 6, (0,8) of 9 x d {{0.8, 1.5}} x tol {{0.05, 0.3}} on 2 molecules ({n_dist}); persistence_length WCM: "
                 f"chains of 5..10 x lp {{0.6, 1.5, 4.0}} x 1-2 molecules per batch ({n_pers}); -cycles: rings of 3..8 x -cycle_tol {{0, 0.1, 0.3}} x {{1 ring, solvent + 2 rings}} ({n_cyc}); "
                 f"{nseeds} seeds each (geometric: 2); thorough adds pairs of kinds; "
                 f"restraint regions at a periodic face: 1 chain of 10 started 0.1-0.15 nm from a face of the 4 nm box (-grid file with two such rows; faces "
                 f"{'+x -x +z -y +y -z' if ctx.thorough else '+x, and half of the kinds at -x +z'}) x {{sphere, cylinder, rectangle}} x {{out region touching the opposite face, "
                 f"in region reaching 0.5-1 nm past the face at the start}} x {len(face_seeds)} seeds, all residues selected, checked on the stored (wrapped) positions ({n_face}); "
                 f"several distance restraints on one molecule: chain of 10, restraints sharing residue 0 with nested paths {{(0,4)+(0,8), (0,3)+(0,9), (4,0)+(0,9), "
                 f"(0,3)+(0,6)+(0,9)}} in {'every declaration order' if ctx.thorough else 'both declaration orders (3 of the 6 for the triple)'}"
                 f"{' x 1-2 molecules' if ctx.thorough else ''}, plus (0,4)+(0,8) in both orders with a sphere-in / rectangle-out restraint on all residues, "
                 f"x {len(multi_seeds)} seeds ({n_multi}); every declared restraint of a world is checked")
    res.rule = ("non-trivial iff distinct, finished, and >= 1 generated residue / residue pair is subject to a declared restraint (counted per world: 'active' > 0); the end-to-end "
                "sample of generate_end_end_distances is recorded (and its numpy reseeding scripted to the world's seed)")
    res.exhaustive = True
    run_worlds("c07-restraints", worlds, res)
    res.assumptions.append("restrained chains have uniform residue sizes, so 'one average residue-pair size' is unambiguous (read from the engine's interaction matrix)")


UNITS = [BUnit("c03-output-structure", run_c03), BUnit("c04-supplied-preserved", run_c04),
         BUnit("c05-steps-box-overlap", run_c05), BUnit("c07-restraints", run_c07)]

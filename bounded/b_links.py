"""Tier B for C02 (links are applied exactly where their definition matches) and C10 (every residue-graph edge is
realised by a bond or reported as missing).  Bounded stand-ins: executable contracts on the REAL readers / processors
over an exhaustively enumerated space of force-field files x residue graphs.  Never counted as proved.

Oracles are written from the statements in properties.jsonl:

  link_instances(links, residue graph, generated molecule)
      for every link definition (in the order of definition) and every injective assignment of the link's residues
      (= distinct `order` values) to residues of the graph, the link is APPLIED iff
        1. the induced residue subgraph equals the link's residue pattern (same adjacency, same edge labels),
        2. the residue names satisfy every resname given for an atom of that residue (single name or choice),
        3. the relative order holds for the resids (numeric orders: resid differences; > >> < : sign; * : different),
        4. every link atom identifies exactly one atom of its residue by its attributes (atomname / name choice,
           resname, extra attribute) -- the attributes are those of the residue's block,
        5. no [non-edges] entry is an existing edge of the generated molecule, and
        6. if [patterns] exist, at least one pattern holds for the identified atoms (block attributes).
      result = {(type, atoms, version) -> parameters} (later DEFINED link wins for equal keys), the bond edges
      (consecutive atoms of bonds/angles/constraints/dihedrals and [edges] entries) and the replaced attributes
      (atype, charge): an atom carries a link's replacement iff an APPLIED instance identifies it, otherwise it is the
      verbatim copy of its block atom -- in particular where clause 5 or 6 rejects the instance.
  Clause 5 speaks about the generated molecule, therefore the contract is checked as a consistency condition of the
  generated molecule M:  M == blocks + instances(links, graph, edges(M)).  If no consistent molecule exists at all
  (a link that forbids an edge it creates itself) the world is ill-posed and is not judged.
  In addition (independent of any reading of 5/6): two link definitions whose instances never define the same
  (type, atoms, version) and never replace the same attribute must give the same molecule in both definition orders.
  "The link defined last wins" is per (type, atoms, version): a link that carries several interaction TYPES on one atom
  tuple (bond + constraint, angle + virtual site ...) and a later link that gives one of them again -> exactly the later
  link's interaction for that type, the other type keeps the earlier link's (multi_type_family, linear chains with mixed names,
  .ff and dangling-.itp syntax, several file orders).
"""
import itertools
import json
import os
import random
import shutil
import tempfile
from pathlib import Path

import networkx as nx

from vlib.realcode import load
from vlib.framework import BUnit, Violation

# ----------------------------------------------------------------------------------------------------------------
# the two block types (2 atoms X, Y each).  A: different atom types; B: equal atom types (so that an atom given only
# by its type is ambiguous in B)
# ----------------------------------------------------------------------------------------------------------------
BLOCKS = {
    "A": {"atoms": [("X", "tx"), ("Y", "ty")], "bond": ("1", "0.10", "100")},
    "B": {"atoms": [("X", "tq"), ("Y", "tq")], "bond": ("1", "0.20", "200")},
}
BLOCK_CHARGE = 0.0                      # every block atom is written with charge 0.0
ORDERS = [1, 2, -1, ">", ">>", "<", "*"]
EDGE_TYPES = ("bonds", "angles", "dihedrals", "constraints", "cmap")   # interactions whose consecutive atoms are bonded


def prefix(order):
    if isinstance(order, int):
        return ("+" if order > 0 else "-") * abs(order)
    return order


# ----------------------------------------------------------------------------------------------------------------
# link model (what the generator writes and what the oracle reads; the code under test only sees the files)
# ----------------------------------------------------------------------------------------------------------------
def atom(order, name, resname=None, extra=None, replace=None, names=None):
    """names: tuple of alternative atom names (a choice) -- the node key then is <prefix>Q"""
    base = name if names is None else "Q" + name
    return {"key": prefix(order) + base, "order": order, "names": tuple(names) if names else (name,),
            "resname": resname, "extra": dict(extra or {}), "replace": dict(replace or {})}


def link(atoms, inters, edges=(), non_edges=(), patterns=(), link_resname=None, tag=""):
    """inters: (type, [atom keys], params, version|None); edges: (key, key, label|None);
    non_edges: (from key, to order, to name, to extra); patterns: list of list of (key, attrs)"""
    if link_resname is not None:
        for a in atoms:
            a["resname"] = link_resname
    return {"atoms": atoms, "inters": [(t, list(k), tuple(p), v) for t, k, p, v in inters], "edges": list(edges),
            "non_edges": list(non_edges), "patterns": [list(p) for p in patterns], "link_resname": link_resname, "tag": tag}


def choice_text(r):
    return r if isinstance(r, str) else "|".join(r)


def render_link(lk):
    out = ["[ link ]"]
    if lk["link_resname"] is not None:
        out.append('resname "%s"' % choice_text(lk["link_resname"]))
    out.append("[ atoms ]")
    inline = {}
    for a in lk["atoms"]:
        attrs = {}
        if a["resname"] is not None and lk["link_resname"] is None:
            attrs["resname"] = choice_text(a["resname"])
        if len(a["names"]) > 1:
            attrs["atomname"] = "|".join(a["names"])
        attrs.update(a["extra"])
        if a["replace"]:
            attrs["replace"] = a["replace"]
        if len(a["names"]) > 1:
            inline[a["key"]] = json.dumps(attrs)        # an explicit atom name must be given where the atom is first used
        else:
            out.append("%s %s" % (a["key"], json.dumps(attrs)))
    by_type = {}
    for t, keys, params, version in lk["inters"]:
        by_type.setdefault(t, []).append((keys, params, version))
    for t, lst in by_type.items():
        out.append("[ %s ]" % t)
        for keys, params, version in lst:
            line = " ".join(k + ((" " + inline.pop(k)) if k in inline else "") for k in keys) + " " + " ".join(params)
            if version is not None:
                line += " " + json.dumps({"version": version})
            out.append(line)
    if lk["edges"]:
        out.append("[ edges ]")
        for a, b, label in lk["edges"]:
            out.append("%s %s" % (a, b) + (" " + json.dumps({"linktype": label}) if label else ""))
    if lk["non_edges"]:
        out.append("[ non-edges ]")
        for frm, order, name, extra in lk["non_edges"]:
            out.append("%s %s%s" % (frm, prefix(order) + name, (" " + json.dumps(extra)) if extra else ""))
    if lk["patterns"]:
        out.append("[ patterns ]")
        for pat in lk["patterns"]:
            out.append(" ".join(k + ((" " + json.dumps({x: choice_text(v) for x, v in at.items()})) if at else "") for k, at in pat))
    return "\n".join(out) + "\n"


def render_ff_blocks():
    out = []
    for name, b in BLOCKS.items():
        out += ["[ moleculetype ]", "%s 1" % name, "[ atoms ]"]
        for i, (an, at) in enumerate(b["atoms"]):
            out.append("%d %s 1 %s %s %d 0.0 10.0" % (i + 1, at, name, an, i + 1))
        out += ["[ bonds ]", "X Y " + " ".join(b["bond"]), ""]
    return "\n".join(out) + "\n"


def render_itp(name, dangling):
    """polyply-style monomer: dangling = list of (type, [1-based atom indices, > 2 means next residues], params)"""
    b = BLOCKS[name]
    out = ["[ moleculetype ]", "%s 1" % name, "[ atoms ]"]
    for i, (an, at) in enumerate(b["atoms"]):
        out.append("%d %s 1 %s %s %d 0.0 10.0" % (i + 1, at, name, an, i + 1))
    by_type = {"bonds": [("1 2 " + " ".join(b["bond"]))]}
    for t, idx, params in dangling:
        by_type.setdefault(t, []).append(" ".join(str(i) for i in idx) + " " + " ".join(params))
    for t, lines in by_type.items():
        out.append("[ %s ]" % t)
        out += lines
    return "\n".join(out) + "\n"


def dangling_as_links(name, dangling):
    """the equivalent next-residue links of the dangling interactions of monomer `name` (from the statement):
    index i (1-based) is atom (i-1) % n of the residue (i-1) // n further along the chain, same residue name"""
    n = len(BLOCKS[name]["atoms"])
    links, prev = [], None
    for t, idx, params in dangling:
        if prev is not None and prev[0] == tuple(idx):
            lk = prev[1]                                   # the same atoms listed again: a further version, same link
        else:
            atoms, seen = [], set()
            for i in idx:
                o, nm = (i - 1) // n, BLOCKS[name]["atoms"][(i - 1) % n][0]
                a = atom(o, nm, resname=name)
                if a["key"] not in seen:
                    seen.add(a["key"])
                    atoms.append(a)
            lk = link(atoms, [], tag="dangling %s %s" % (name, idx))
            lk["dangling"] = True
            links.append(lk)
            prev = (tuple(idx), lk)
        keys = [prefix((i - 1) // n) + BLOCKS[name]["atoms"][(i - 1) % n][0] for i in idx]
        lk["inters"].append((t, keys, tuple(params), None))
    return links


# ----------------------------------------------------------------------------------------------------------------
# residue-graph worlds
# ----------------------------------------------------------------------------------------------------------------
def graph_worlds(max_nodes, seed, labelled=False, disconnected=False):
    """every (connected) graph of the networkx atlas with 1..max_nodes nodes x resname assignments over {A,B} x
    {resids 1..n in node order, one seeded shuffled assignment}; labelled: additionally one residue edge carries
    linktype 'c' (each edge in turn) or all do"""
    rng = random.Random(seed)
    worlds = []
    for g in nx.graph_atlas_g():
        n = g.number_of_nodes()
        if n < 1 or n > max_nodes:
            continue
        if nx.is_connected(g) == disconnected:
            continue
        edges = sorted(tuple(sorted(e)) for e in g.edges)
        perm = list(range(1, n + 1))
        while n > 1 and perm == list(range(1, n + 1)):
            rng.shuffle(perm)
        resid_variants = [list(range(1, n + 1))] + ([perm] if n > 1 else [])
        label_variants = [()]
        if labelled:
            label_variants = [(e,) for e in edges] + ([tuple(edges)] if len(edges) > 1 else [])
        for names in itertools.product("AB", repeat=n):
            for resids in resid_variants:
                for lab in label_variants:
                    worlds.append({"n": n, "edges": edges, "names": list(names), "resids": list(resids),
                                   "labels": {e: "c" for e in lab}})
    return worlds


def path_worlds(lengths):
    worlds = []
    for n in lengths:
        for names in (["A"] * n, ["B"] * n, ["A"] * (n - 2) + ["B", "A"], ["A", "B"] * (n // 2) + ["A"] * (n % 2)):
            worlds.append({"n": n, "edges": [(i, i + 1) for i in range(n - 1)], "names": list(names),
                           "resids": list(range(1, n + 1)), "labels": {}})
    return worlds


def world_json(w):
    g = nx.Graph()
    for i in range(w["n"]):
        g.add_node(i, resname=w["names"][i], resid=w["resids"][i])
    for e in w["edges"]:
        lab = w["labels"].get(tuple(e))
        if lab:
            g.add_edge(*e, linktype=lab)
        else:
            g.add_edge(*e)
    return nx.node_link_data(g)        # the format the installed networkx (and hence polyply's parse_json) reads


def world_text(w):
    return {"residues": ["%d:%s" % (r, n) for r, n in zip(w["resids"], w["names"])],
            "edges": [[w["resids"][a], w["resids"][b]] + ([w["labels"][(a, b)]] if (a, b) in w["labels"] else []) for a, b in w["edges"]]}


# ----------------------------------------------------------------------------------------------------------------
# the oracle
# ----------------------------------------------------------------------------------------------------------------
def order_kind(o):
    if isinstance(o, int):
        return "n", o
    if o[0] == ">":
        return "s", len(o)
    if o[0] == "<":
        return "s", -len(o)
    return "*", len(o)


def sign(x):
    return (x > 0) - (x < 0)


def order_holds(o1, r1, o2, r2):
    """relative order of two DIFFERENT order values (the comparison matrix of the .ff format)"""
    (k1, v1), (k2, v2) = order_kind(o1), order_kind(o2)
    if k1 == "n" and k2 == "n":
        return (v2 - v1) == (r2 - r1)
    if k1 == "s" and k2 == "s":
        return sign(r2 - r1) == sign(v2 - v1)
    if k1 == "n" and k2 == "s":
        return v1 != 0 or sign(r2 - r1) == sign(v2)
    if k1 == "s" and k2 == "n":
        return v2 != 0 or sign(r1 - r2) == sign(v1)
    if k1 == "*" and k2 == "*":
        return r1 != r2
    if (k1 == "n" and v1 == 0) or (k2 == "n" and v2 == 0):
        return r1 != r2
    return True


def resname_ok(spec, name):
    return spec is None or (name == spec if isinstance(spec, str) else name in spec)


def block_atom_matches(resname, an, at, names, rspec, extra):
    if an not in names or not resname_ok(rspec, resname):
        return False
    for k, v in extra.items():
        have = {"atype": at, "atomname": an, "resname": resname}.get(k)
        if have != v:
            return False
    return True


def link_edges(lk):
    es = []
    for t, keys, _, _ in lk["inters"]:
        if t in EDGE_TYPES or lk.get("edges_from_all"):     # edges_from_all is NOT the contract (names a divergence, see explain)
            es += [(a, b, None) for a, b in zip(keys[:-1], keys[1:])]
    labelled = {frozenset((a, b)): lab for a, b, lab in lk["edges"]}
    out = {}
    for a, b, lab in es + list(lk["edges"]):
        k = frozenset((a, b))
        out[k] = labelled.get(k, lab)
    return out                                               # {frozenset(atom keys): label}


def link_pattern(lk):
    order_of = {a["key"]: a["order"] for a in lk["atoms"]}
    orders = []
    for a in lk["atoms"]:
        if a["order"] not in orders:
            orders.append(a["order"])
    pat = {}
    for k, lab in link_edges(lk).items():
        a, b = tuple(k)
        oa, ob = order_of[a], order_of[b]
        if oa != ob:
            pat.setdefault(frozenset((oa, ob)), set()).add(lab)
    return orders, pat


def static_candidates(lk, w):
    """assignments passing clauses 1-4; also returns the number of assignments that pass 1 and fail one of 2-4"""
    orders, pat = link_pattern(lk)
    n = w["n"]
    gedge = {frozenset(e): w["labels"].get(tuple(e)) for e in w["edges"]}
    cands, rejected = [], 0
    for assign in itertools.permutations(range(n), len(orders)):
        f = dict(zip(orders, assign))
        ok = True
        for oa, ob in itertools.combinations(orders, 2):
            ge = frozenset((f[oa], f[ob]))
            pe = frozenset((oa, ob))
            if (ge in gedge) != (pe in pat):
                ok = False
                break
            if ge in gedge:
                labs = pat[pe]
                lab = next(iter(labs)) if len(labs) == 1 else None    # several atom edges: only a common label counts
                if lab != gedge[ge]:
                    ok = False
                    break
        if not ok:
            continue
        good = all(order_holds(oa, w["resids"][f[oa]], ob, w["resids"][f[ob]]) for oa, ob in itertools.combinations(orders, 2))
        match = {}
        if good:
            for a in lk["atoms"]:
                res = f[a["order"]]
                rn = w["names"][res]
                hits = [an for an, at in BLOCKS[rn]["atoms"] if block_atom_matches(rn, an, at, a["names"], a["resname"], a["extra"])]
                if len(hits) != 1:
                    good = False
                    break
                match[a["key"]] = (w["resids"][res], hits[0])
        if not good:
            rejected += 1
            continue
        cands.append({"f": f, "match": match})
    return cands, rejected


def atom_info(w):
    info = {}
    for i in range(w["n"]):
        for an, at in BLOCKS[w["names"][i]]["atoms"]:
            info[(w["resids"][i], an)] = {"atomname": an, "atype": at, "resname": w["names"][i], "charge": BLOCK_CHARGE}
    return info


def vetoed(lk, cand, w, info, medges, shifted=False):
    """clauses 5 and 6 against the edge set `medges` of a generated molecule; `info` = attributes the vetoes look at.
    shifted=True is NOT the contract: it counts the non-edge's order from the residue of the `from` atom (used only to
    name a divergence)"""
    for frm, order, name, extra in lk["non_edges"]:
        a = cand["match"][frm]
        ref = w["resids"][cand["f"][0]] if 0 in cand["f"] else a[0]
        target = (a[0] if shifted else ref) + order          # the residue `order` further along from the reference residue
        for e in medges:
            if a in e:
                (b,) = tuple(e - {a}) or (a,)
                if b[0] == target and info[b]["atomname"] == name and resname_ok(lk["link_resname"], info[b]["resname"]) \
                        and all(info[b].get(k) == v for k, v in extra.items()):
                    return True
    if lk["patterns"]:
        for pat in lk["patterns"]:
            if all(all(resname_ok(v, info[cand["match"][k]][x]) if x == "resname" else info[cand["match"][k]].get(x) == v
                       for x, v in at.items()) for k, at in pat):
                break
        else:
            return True
    return False


def build(links, w, applied):
    """molecule content from blocks + applied instances [(link index, candidate)] in definition order"""
    info = atom_info(w)
    inter, edges, repl, alt, last = {}, set(), {}, {}, {}
    for i in range(w["n"]):
        r, rn = w["resids"][i], w["names"][i]
        inter[("bonds", ((r, "X"), (r, "Y")), 1)] = [tuple(BLOCKS[rn]["bond"])]
        edges.add(frozenset(((r, "X"), (r, "Y"))))
    for ci, (li, cand) in enumerate(sorted(applied, key=lambda x: x[0])):
        lk = links[li]
        m = cand["match"]
        dup = {}
        for t, keys, params, version in lk["inters"]:
            atoms = tuple(m[k] for k in keys)
            if lk.get("dangling"):
                # the same atoms listed k times in a monomer file are k versions, all kept
                n_before = dup.get((t, atoms), 0)
                v = ("d%d" % n_before) if n_before else 1
                dup[(t, atoms)] = n_before + 1
            else:
                v = 1 if version is None else version
            key = (t, atoms, v)
            if key in last and last[key][0] == li and last[key][1] != ci:
                alt[key].add(tuple(params))       # two instances of ONE link define the same atoms: the statement does not say which wins
            else:
                alt[key] = {tuple(params)}
            inter[key] = [tuple(params)]
            last[key] = (li, ci)
        for k in link_edges(lk):
            a, b = tuple(k)
            edges.add(frozenset((m[a], m[b])))
        for a in lk["atoms"]:
            for k, v in a["replace"].items():
                repl[(m[a["key"]], k)] = v
    attrs = {}
    for ident, d in info.items():
        attrs[ident] = {"resname": d["resname"], "atype": repl.get((ident, "atype"), d["atype"]),
                        "charge": repl.get((ident, "charge"), d["charge"])}
    return {"inter": inter, "edges": edges, "attrs": attrs, "alt": alt}


def normalise(inter, drop_version):
    out = {}
    for (t, atoms, v), plist in inter.items():
        key = (t, atoms) if drop_version else (t, atoms, v)
        out.setdefault(key, [])
        out[key] += [tuple(p) for p in plist]
    return {k: sorted(v) for k, v in out.items()}


def expected_for(links, w, medges):
    info = atom_info(w)
    applied, n_rejected, veto_cands = [], 0, []
    for li, lk in enumerate(links):
        cands, rej = static_candidates(lk, w)
        n_rejected += rej
        for c in cands:
            if lk["non_edges"] or lk["patterns"]:
                veto_cands.append((li, c))
            if vetoed(lk, c, w, info, medges):
                n_rejected += 1
            else:
                applied.append((li, c))
    return build(links, w, applied), len(applied), n_rejected, veto_cands


def expected_sequential(links, w, shifted=False):
    """NOT the contract -- names a known divergence: vetoes evaluated link by link in definition order against the
    molecule as modified by the links defined earlier (their edges and replaced attributes)"""
    state = {k: dict(v) for k, v in atom_info(w).items()}
    edges = {frozenset(((r, "X"), (r, "Y"))) for r in w["resids"]}
    applied = []
    for li, lk in enumerate(links):
        cands, _ = static_candidates(lk, w)
        ok = [c for c in cands if not vetoed(lk, c, w, state, edges, shifted)]
        for c in ok:
            applied.append((li, c))
            for k in link_edges(lk):
                a, b = tuple(k)
                edges.add(frozenset((c["match"][a], c["match"][b])))
            for a in lk["atoms"]:
                state[c["match"][a["key"]]].update(a["replace"])
    return build(links, w, applied)


def explain(links, w, act, drop_version, spec):
    """finding key of a divergence: the first known deviation that reproduces the generated molecule exactly,
    otherwise the generic key"""
    named = [lk for lk in links if any(a["resname"] is not None for a in lk["atoms"])]
    alts = []
    if len(named) < len(links):
        alts.append(("c02-link-without-resname-never-applied", lambda: expected_for(named, w, act["edges"])[0]))
    if any(order_kind(a["order"]) == ("n", a["order"]) and a["order"] != 0 and a["key"] == ne[0] for lk in links for ne in lk["non_edges"] for a in lk["atoms"]):
        alts.append(("c02-non-edge-order-counted-from-its-own-atom", lambda: expected_sequential(links, w, shifted=True)))
    if any(lk["non_edges"] or lk["patterns"] for lk in links):
        alts.append(("c02-vetoes-consult-evolving-molecule", lambda: expected_sequential(links, w)))
    if spec["syntax"] == "mixed" and ff_before_itp(spec):
        flat = [dict(lk, inters=[(t, k, p_, None) for t, k, p_, _ in lk["inters"]]) for lk in links]
        alts.append(("c02-explicit-version-rewritten-when-itp-read-after-ff", lambda: expected_for(flat, w, act["edges"])[0]))
    if spec["syntax"] == "mixed" and ff_before_itp(spec):
        # links already known to the force field when a monomer .itp is finalised: consecutive atoms of EVERY interaction
        # type (pairs, virtual sites, restraints ...) become bond edges of the link, hence part of its residue pattern
        toks = file_order(spec)
        last_itp = max(i for i, t in enumerate(toks) if t.startswith("itp"))
        early = {id(lk) for i, t in enumerate(toks) if t in ("ff", "ff2") and i < last_itp for lk in spec.get({"ff": "links", "ff2": "links2"}[t], [])}
        if any(id(lk) in early and t not in EDGE_TYPES for lk in links for t, _, _, _ in lk["inters"]):
            marked = [dict(lk, edges_from_all=True) if id(lk) in early else lk for lk in links]
            alts.append(("c02-ff-link-edges-from-every-interaction-type-when-itp-read-after", lambda: expected_for(marked, w, act["edges"])[0]))
    for key, fn in alts:
        if not diff(fn(), act, drop_version):
            return key
    return "c02-link-instances-mismatch"


def consistent_exists(links, w):
    """is there any molecule M with M == blocks + instances(links, graph, edges(M)) ?"""
    info = atom_info(w)
    always, maybe = [], []
    for li, lk in enumerate(links):
        cands, _ = static_candidates(lk, w)
        for c in cands:
            (maybe if lk["non_edges"] else always).append((li, c))
    if len(maybe) > 14:
        return True
    for r in range(len(maybe) + 1):
        for sub in itertools.combinations(maybe, r):
            chosen = [x for x in always if not vetoed(links[x[0]], x[1], w, info, set())] + list(sub)
            m = build(links, w, chosen)
            ok = True
            for li, c in maybe:
                v = vetoed(links[li], c, w, info, m["edges"])
                if v == ((li, c) in sub):
                    ok = False
                    break
            if ok:
                return True
    return False


# ----------------------------------------------------------------------------------------------------------------
# driving the real code
# ----------------------------------------------------------------------------------------------------------------
class Real:
    def __init__(self):
        self.ll = load("polyply.src.load_library")
        self.mm = load("polyply.src.meta_molecule")
        self.m2m = load("polyply.src.map_to_molecule")
        self.al = load("polyply.src.apply_links")
        self.gu = load("polyply.src.graph_utils")
        al = self.al
        if getattr(al.tqdm, "__name__", "") == "tqdm":          # silence the progress bar only (same iteration)
            al.tqdm = lambda it, *a, **k: it

    def read_ff(self, paths):
        return self.ll.load_ff_library("w", None, [Path(p) for p in paths])

    def generate(self, ff, json_path):
        meta = self.mm.MetaMolecule.from_sequence_file(ff, Path(json_path), "w")
        meta = self.m2m.MapToMolecule(ff).run_molecule(meta)
        meta = self.al.ApplyLinks().run_molecule(meta)
        return meta


def observe(meta):
    mol = meta.molecule
    ident = {n: (mol.nodes[n]["resid"], mol.nodes[n]["atomname"]) for n in mol.nodes}
    inter = {}
    for t, lst in mol.interactions.items():
        for it in lst:
            key = (t, tuple(ident[a] for a in it.atoms), it.meta.get("version", 1))
            inter.setdefault(key, []).append(tuple(it.parameters))
    edges = {frozenset((ident[a], ident[b])) for a, b in mol.edges}
    attrs = {ident[n]: {"resname": mol.nodes[n].get("resname"), "atype": mol.nodes[n].get("atype"), "charge": mol.nodes[n].get("charge")}
             for n in mol.nodes}
    return {"inter": inter, "edges": edges, "attrs": attrs}


def fmt_key(k):
    return "%s %s%s" % (k[0], " ".join("%d:%s" % a for a in k[1]), (" v%s" % k[2]) if len(k) > 2 else "")


def diff(exp, act, drop_version, missing="MISSING", extra="EXTRA", names=("expected", "got")):
    """both directions; returns list of texts"""
    out = []
    ei, ai = normalise(exp["inter"], drop_version), normalise(act["inter"], drop_version)
    choices = {}
    for (t, atoms, v), plist in exp["inter"].items():
        nk = (t, atoms) if drop_version else (t, atoms, v)
        if (t, atoms, v) in exp.get("alt", {}):
            choices.setdefault(nk, []).append(sorted(exp["alt"][(t, atoms, v)]))
        else:
            choices.setdefault(nk, [])
            choices[nk] += [[tuple(q)] for q in plist]
    for k in sorted(set(ei) | set(ai), key=str):
        if k not in ai:
            out.append("%s interaction %s %s" % (missing, fmt_key(k), ei[k]))
        elif k not in ei:
            out.append("%s interaction %s %s" % (extra, fmt_key(k), ai[k]))
        elif ei[k] != ai[k] and not any(sorted(c) == ai[k] for c in itertools.product(*choices[k])):
            out.append("WRONG parameters %s: %s %s %s %s" % (fmt_key(k), names[0], [c if len(c) > 1 else c[0] for c in choices[k]], names[1], ai[k]))
    for e in sorted(exp["edges"] - act["edges"], key=str):
        out.append("%s edge %s" % (missing, sorted(e)))
    for e in sorted(act["edges"] - exp["edges"], key=str):
        out.append("%s edge %s" % (extra, sorted(e)))
    for a in sorted(set(exp["attrs"]) | set(act["attrs"])):
        if exp["attrs"].get(a) != act["attrs"].get(a):
            out.append("ATTRIBUTES of %s: %s %s %s %s" % (a, names[0], exp["attrs"].get(a), names[1], act["attrs"].get(a)))
    return out


def write_world_files(scratch, worlds, name):
    paths = []
    for i, w in enumerate(worlds):
        p = os.path.join(scratch, "%s_%05d.json" % (name, i))
        with open(p, "w") as fh:
            json.dump(world_json(w), fh)
        paths.append(p)
    return paths


KNOWN_CLASSES = ("c02-link-without-resname-never-applied", "c02-vetoes-consult-evolving-molecule", "c02-definition-order-dependence",
                 "c02-explicit-version-rewritten-when-itp-read-after-ff", "c02-non-edge-order-counted-from-its-own-atom")
KEY_NOTES = {"c02-ff-link-edges-from-every-interaction-type-when-itp-read-after":
             "  {the generated molecule is reproduced exactly by: a .ff link that is already known when a monomer .itp is finalised gets bond edges "
             "from the consecutive atoms of EVERY interaction type (pairs, virtual sites, restraints), so its residue pattern -- and where it applies -- "
             "depends on the order in which the files are read}"}
_REAL = None


def real():
    global _REAL
    if _REAL is None:
        _REAL = Real()
    return _REAL


def file_order(spec):
    """the order in which the files of a non-"ff" world are given to the reader: tokens "itp" (every monomer .itp, in the
    order of BLOCKS), "itp:<name>" (one monomer .itp), "ff" (links.ff = spec["links"]), "ff2" (links2.ff = spec["links2"])"""
    if spec.get("file_order"):
        return list(spec["file_order"])
    return ["itp", "ff"] if spec.get("itp_first", True) else ["ff", "itp"]


def ff_before_itp(spec):
    """is some .ff link file read before some monomer .itp (the .itp's finalisation then sees those links)?"""
    toks = file_order(spec)
    ff = [i for i, t in enumerate(toks) if t.startswith("ff") and spec.get({"ff": "links", "ff2": "links2"}[t])]
    itp = [i for i, t in enumerate(toks) if t.startswith("itp")]
    return bool(ff and itp and min(ff) < max(itp))


def write_ff(dirname, spec, order=None):
    """spec: {"syntax": "ff"|"itp"|"mixed", "links": [...], "dangling": {"A": [...], "B": [...]}, "itp_first": bool,
              "links2": [...] (a second link file), "file_order": [tokens, see file_order]}
    returns the list of paths in the order they are given to the reader"""
    os.makedirs(dirname, exist_ok=True)
    links = spec.get("links", [])
    if order is not None:
        links = [links[i] for i in order]
    paths = []
    if spec["syntax"] == "ff":
        p = os.path.join(dirname, "world.ff")
        with open(p, "w") as fh:
            fh.write(render_ff_blocks())
            for lk in links:
                fh.write("\n" + render_link(lk))
        paths = [p]
    else:
        written = {}
        for name in BLOCKS:
            p = os.path.join(dirname, "%s.itp" % name)
            with open(p, "w") as fh:
                fh.write(render_itp(name, spec.get("dangling", {}).get(name, [])))
            written["itp:" + name] = [p]
        written["itp"] = [written["itp:" + name][0] for name in BLOCKS]
        for tok, fname, lks in (("ff", "links.ff", links), ("ff2", "links2.ff", spec.get("links2", []))):
            if lks:
                p = os.path.join(dirname, fname)
                with open(p, "w") as fh:
                    for lk in lks:
                        fh.write("\n" + render_link(lk))
                written[tok] = [p]
        for tok in file_order(spec):
            paths += written.get(tok, [])
    return paths


def spec_links(spec, order=None):
    """the link definitions of a world in their order of definition = the order in which the files are read and, inside
    a file, written (dangling ones as their equivalent links, where their monomer file is read)"""
    links = list(spec.get("links", []))
    if order is not None:
        links = [links[i] for i in order]
    if spec["syntax"] != "ff":
        defined = {"ff": links, "ff2": list(spec.get("links2", [])), "itp": []}
        for name in BLOCKS:
            defined["itp:" + name] = dangling_as_links(name, spec.get("dangling", {}).get(name, []))
            defined["itp"] = defined["itp"] + defined["itp:" + name]
        out = []
        for tok in file_order(spec):
            out += defined[tok]
        return out
    return links


def text_of(spec, order=None):
    links = spec.get("links", [])
    if order is not None:
        links = [links[i] for i in order]
    d = {"syntax": spec["syntax"], "links": [render_link(l) for l in links]}
    if spec["syntax"] != "ff":
        d["dangling"] = {k: [list(map(str, x)) for x in v] for k, v in spec.get("dangling", {}).items()}
        if spec.get("links2"):
            d["links2"] = [render_link(l) for l in spec["links2"]]
        if spec.get("file_order"):
            d["file_order"] = list(spec["file_order"])       # "itp" = A.itp, B.itp; "ff" = `links`; "ff2" = `links2`
        else:
            d["itp_first"] = spec.get("itp_first", True)
    return d


def collide(links, w):
    """do instances of DIFFERENT links define the same (type, atoms, version) or replace the same attribute?"""
    seen_i, seen_r = {}, {}
    for li, lk in enumerate(links):
        cands, _ = static_candidates(lk, w)
        for c in cands:
            m = c["match"]
            for t, keys, _, v in lk["inters"]:
                k = (t, tuple(m[x] for x in keys), v or 1)
                if seen_i.setdefault(k, li) != li:
                    return True
            for a in lk["atoms"]:
                for x in a["replace"]:
                    if seen_r.setdefault((m[a["key"]], x), li) != li:
                        return True
    return False


def c02_job(args):
    """one force field (possibly in both definition orders) x all its residue-graph worlds"""
    jid, spec, world_sets, scratch, both_orders, check_windows = args
    R = real()
    out = {"evaluations": 0, "nontrivial": 0, "illposed": 0, "violations": [], "samples": [], "counts": {},
           "overridden": 0, "partial": 0, "family_sample": None}
    drop_version = spec["syntax"] != "ff"
    orders = [None]
    if both_orders and len(spec.get("links", [])) == 2:
        orders = [(0, 1), (1, 0)]
    ffs = []
    for oi, order in enumerate(orders):
        d = os.path.join(scratch, "ff_%05d_%d" % (jid, oi))
        try:
            ffs.append(R.read_ff(write_ff(d, spec, order)))
        except Exception as e:                               # noqa: BLE001
            out["violations"].append(("c02-reader-crash", "reading the force field raised %s: %s" % (type(e).__name__, e),
                                      {"force_field": text_of(spec, order)}, ""))
            shutil.rmtree(d, ignore_errors=True)
            return out
        shutil.rmtree(d, ignore_errors=True)

    def note(key, what, inputs, detail):
        out["counts"][key] = out["counts"].get(key, 0) + 1
        if sum(1 for v in out["violations"] if v[0] == key) < 2:
            out["violations"].append((key, what, inputs, detail))

    for worlds, paths in world_sets:
        for w, path in zip(worlds, paths):
            acts = []
            for oi, order in enumerate(orders):
                links = spec_links(spec, order)
                out["evaluations"] += 1
                inputs = {"force_field": text_of(spec, order), "residue_graph": world_text(w)}
                try:
                    act = observe(R.generate(ffs[oi], path))
                except Exception as e:                       # noqa: BLE001
                    import traceback
                    tb = traceback.extract_tb(e.__traceback__)[-1]
                    note("c02-crash-%s-%s" % (type(e).__name__, tb.name), "link application raised %s: %s" % (type(e).__name__, e),
                         inputs, "%s:%d %s" % (tb.filename, tb.lineno, tb.name))
                    acts.append(None)
                    continue
                acts.append(act)
                exp, n_applied, n_rejected, _ = expected_for(links, w, act["edges"])
                if n_applied and n_rejected:
                    out["nontrivial"] += 1
                    if len(out["samples"]) < 1 and len(w["edges"]) >= 2:
                        out["samples"].append(dict(inputs, applied=n_applied, rejected=n_rejected))
                if spec.get("family") == "multi-type":
                    n_over, n_kept = override_profile(links, w)
                    out["overridden"] += bool(n_over)
                    if n_over and n_kept:
                        out["partial"] += 1
                        if out["family_sample"] is None and w["n"] >= 4:
                            out["family_sample"] = dict(inputs, family=spec["tag"], redefined_by_a_later_link=n_over, only_defined_by_the_first_link=n_kept)
                texts = diff(exp, act, drop_version)
                if texts:
                    if any(lk["non_edges"] for lk in links) and not consistent_exists(links, w):
                        out["illposed"] += 1
                    else:
                        key = explain(links, w, act, drop_version, spec)
                        note(key, "generated molecule differs from link_instances: " + "; ".join(texts[:4]) + KEY_NOTES.get(key, ""), inputs, "\n".join(texts))
                if check_windows and spec["syntax"] == "itp" and w["resids"] == list(range(1, w["n"] + 1)) and \
                        w["edges"] == [(i, i + 1) for i in range(w["n"] - 1)]:
                    bad = window_clause(spec, w, act)
                    if bad:
                        note("c02-dangling-window", bad, inputs, bad)
            if len(orders) == 2 and acts[0] is not None and acts[1] is not None:
                if not collide(spec_links(spec, None), w):
                    texts = diff(acts[0], acts[1], drop_version, "ONLY-IN-ORDER-1", "ONLY-IN-ORDER-2", ("order-1", "order-2"))
                    if texts:
                        note("c02-definition-order-dependence",
                             "two links that never define the same atoms+version give different molecules in the two definition orders: "
                             + "; ".join(texts[:4]),
                             {"force_field_order_1": text_of(spec, orders[0]), "force_field_order_2": text_of(spec, orders[1]),
                              "residue_graph": world_text(w)}, "\n".join(texts))
    return out


def window_clause(spec, w, act):
    """dangling interaction of monomer R spanning s further residues, on a linear chain in resid order: present for
    every window r..r+s of residues all named R, absent everywhere else (in particular at the chain end)"""
    n_at = 2
    for name, dang in spec.get("dangling", {}).items():
        for t, idx, params in dang:
            span = (max(idx) - 1) // n_at
            used = sorted({(i - 1) // n_at for i in idx})
            pat = {frozenset(((a - 1) // n_at, (b - 1) // n_at)) for a, b in zip(idx[:-1], idx[1:]) if (a - 1) // n_at != (b - 1) // n_at}
            if t not in EDGE_TYPES or pat != {frozenset((o, o + 1)) for o in range(span)}:
                continue                                   # the equivalent link is not a window of consecutive residues
            for r in range(1, w["n"] + 1):
                atoms = tuple((r + (i - 1) // n_at, BLOCKS[name]["atoms"][(i - 1) % n_at][0]) for i in idx)
                fits = r + span <= w["n"] and all(w["names"][r + o - 1] == name for o in used)
                present = any(k[0] == t and k[1] == atoms and tuple(params) in v for k, v in act["inter"].items())
                if fits and not present:
                    return "dangling %s %s of %s: window starting at residue %d fits inside the chain but is absent" % (t, idx, name, r)
                if not fits and present:
                    return "dangling %s %s of %s: present for the window starting at residue %d which does not fit" % (t, idx, name, r)
            for k in act["inter"]:
                if any(a[0] > w["n"] or a[0] < 1 for a in k[1]):
                    return "interaction on a residue outside the chain: %s" % (k,)
    return None


# ----------------------------------------------------------------------------------------------------------------
# the enumerated force fields
# ----------------------------------------------------------------------------------------------------------------
P = {"a": ("1", "0.31", "310"), "b": ("1", "0.32", "320"), "c": ("1", "0.33", "330"), "d": ("1", "0.34", "340"),
     "e": ("1", "0.35", "350"), "ang": ("1", "111", "11"), "ang2": ("1", "122", "22"), "dih": ("1", "180", "1", "2")}
AB = ("A", "B")


def core2():
    out = []
    for o in ORDERS:
        for n0, n1 in (("Y", "X"), ("X", "X")):
            for r0, r1 in (("A", "A"), ("A", "B"), (AB, "A"), (AB, AB), (None, "A"), (None, None)):
                a0, a1 = atom(0, n0, r0), atom(o, n1, r1)
                out.append(link([a0, a1], [("bonds", [a0["key"], a1["key"]], P["a"], None)], tag="core2 %s %s%s %s/%s" % (o, n0, n1, r0, r1)))
    return out


def core3(thorough):
    out = []
    rvars = [(AB, AB, AB), ("A", AB, "B")] + ([("A", "A", "A"), (AB, "B", None)] if thorough else [])
    for o1, o2 in itertools.permutations(ORDERS, 2):
        for shape in ("path01", "center0", "tri", "iso"):
            if shape in ("center0", "tri") and ORDERS.index(o1) > ORDERS.index(o2):
                continue
            for rv in (rvars if thorough or shape in ("path01", "center0") else rvars[1:2]):
                a0, a1, a2 = atom(0, "Y", rv[0]), atom(o1, "X", rv[1]), atom(o2, "X", rv[2])
                k0, k1, k2 = a0["key"], a1["key"], a2["key"]
                if shape == "path01":
                    lk = link([a0, a1, a2], [("angles", [k0, k1, k2], P["ang"], None)])
                elif shape == "center0":
                    lk = link([a0, a1, a2], [("angles", [k1, k0, k2], P["ang"], None)])
                elif shape == "tri":
                    lk = link([a0, a1, a2], [("angles", [k0, k1, k2], P["ang"], None)], edges=[(k0, k2, None)])
                else:
                    lk = link([a0, a1, a2], [("bonds", [k0, k1], P["a"], None)])
                lk["tag"] = "core3 %s %s,%s %s" % (shape, o1, o2, rv)
                out.append(lk)
    return out


def core4():
    out = []
    for o1, o2, o3 in itertools.permutations(ORDERS, 3):
        a = [atom(0, "Y", AB), atom(o1, "X", AB), atom(o2, "X", AB), atom(o3, "Y", AB)]
        k = [x["key"] for x in a]
        shape = (ORDERS.index(o1) + ORDERS.index(o2) + ORDERS.index(o3)) % 3
        if shape == 0:
            lk = link(a, [("dihedrals", k, P["dih"], None)])                                     # path
        elif shape == 1:
            lk = link(a, [("bonds", [k[0], k[1]], P["a"], None), ("bonds", [k[0], k[2]], P["b"], None),
                          ("bonds", [k[0], k[3]], P["c"], None)])                                 # star
        else:
            lk = link(a, [("dihedrals", k, P["dih"], None)], edges=[(k[3], k[0], None)])            # ring
        lk["tag"] = "core4 %s %s" % (shape, (o1, o2, o3))
        out.append(lk)
    return out


def features(thorough):
    """one optional feature at a time (and a few combinations) on base links"""
    out = []
    bases = [1, ">", -1, "*"] + ([2, "<", ">>"] if thorough else [])
    for o in bases:
        def mk(a0, a1, **kw):
            return link([a0, a1], [("bonds", [a0["key"], a1["key"]], P["a"], None)], **kw)
        # extra attribute: matches in one block type only / in none
        out.append(mk(atom(0, "Y", AB, extra={"atype": "ty"}), atom(o, "X", AB), tag="extra0 %s" % o))
        out.append(mk(atom(0, "Y", AB), atom(o, "X", AB, extra={"atype": "tq"}), tag="extra1 %s" % o))
        out.append(mk(atom(0, "Y", AB, extra={"atype": "zz"}), atom(o, "X", AB), tag="extra-none %s" % o))
        # atom given by a name choice: ambiguous (two atoms) unless the extra attribute singles one out
        out.append(mk(atom(0, "Y", AB), atom(o, "X", AB, names=("X", "Y")), tag="ambiguous %s" % o))
        out.append(mk(atom(0, "Y", AB), atom(o, "X", AB, names=("X", "Y"), extra={"atype": "tx"}), tag="choice+type %s" % o))
        out.append(mk(atom(0, "Y", AB), atom(o, "X", AB, names=("X", "Y"), extra={"atype": "tq"}), tag="choice+type-ambiguous %s" % o))
        # link-level resname line
        out.append(mk(atom(0, "Y"), atom(o, "X"), link_resname="A", tag="linkres A %s" % o))
        out.append(mk(atom(0, "Y"), atom(o, "X"), link_resname=AB, tag="linkres AB %s" % o))
        # replace
        out.append(mk(atom(0, "Y", AB, replace={"atype": "r0"}), atom(o, "X", AB), tag="replace0 %s" % o))
        out.append(mk(atom(0, "Y", "A"), atom(o, "X", AB, replace={"atype": "r1"}), tag="replace1 %s" % o))
        # [edges]: a further bond edge without interaction
        a0, a1, a2 = atom(0, "Y", AB), atom(o, "X", AB), atom(o, "Y", AB)
        out.append(link([a0, a1, a2], [("bonds", [a0["key"], a1["key"]], P["a"], None)], edges=[(a0["key"], a2["key"], None)], tag="edges %s" % o))
        a0, a1, a2 = atom(0, "Y", AB), atom(o, "X", AB), atom(0, "X", AB)
        out.append(link([a0, a1, a2], [], edges=[(a2["key"], a1["key"], None)], tag="edges-only %s" % o))
        # interaction that is not a bond edge: the residues are then NOT connected in the link's residue pattern
        out.append(link([atom(0, "Y", AB), atom(o, "X", AB)], [("pairs", [prefix(0) + "Y", prefix(o) + "X"], ("1",), None)], tag="pair-only %s" % o))
        # [patterns]
        out.append(mk(atom(0, "Y", AB), atom(o, "X", AB), patterns=[[("Y", {"resname": "B"}), (prefix(o) + "X", {})]], tag="pattern1 %s" % o))
        out.append(mk(atom(0, "Y", AB), atom(o, "X", AB), patterns=[[("Y", {"resname": "B"}), (prefix(o) + "X", {})],
                                                                    [("Y", {}), (prefix(o) + "X", {"atype": "tx"})]], tag="pattern2 %s" % o))
        out.append(mk(atom(0, "Y", AB), atom(o, "X", AB), patterns=[[("Y", {"resname": AB, "atype": "ty"})]], tag="pattern-choice %s" % o))
        out.append(mk(atom(0, "Y", AB), atom(o, "X", AB), patterns=[[("Y", {"atype": "zz"})]], tag="pattern-never %s" % o))
        # versions inside one link
        a0, a1 = atom(0, "Y", AB), atom(o, "X", AB)
        out.append(link([a0, a1], [("bonds", [a0["key"], a1["key"]], P["a"], 1), ("bonds", [a0["key"], a1["key"]], P["b"], 2)], tag="versions %s" % o))
    # [non-edges] (numeric orders): from an atom of the reference residue
    for o in (1, -1):
        a0, a1 = atom(0, "Y", AB), atom(o, "X", AB)
        k0, k1 = a0["key"], a1["key"]
        bond = [("bonds", [k0, k1], P["a"], None)]
        out.append(link([atom(0, "Y", AB), atom(o, "X", AB)], bond, non_edges=[("Y", o, "Y", {})], tag="nonedge other atom %s" % o))
        out.append(link([atom(0, "Y", AB), atom(o, "X", AB)], bond, non_edges=[("Y", -o, "X", {})], tag="nonedge other side %s" % o))
        out.append(link([atom(0, "Y", AB), atom(o, "X", AB)], bond, non_edges=[("Y", -o, "X", {"atype": "tx"})], tag="nonedge other side typed %s" % o))
        out.append(link([atom(0, "Y", AB), atom(o, "X", AB), atom(0, "X", AB)], bond, non_edges=[("X", 0, "Y", {})], tag="nonedge intra %s" % o))
        out.append(link([atom(0, "Y"), atom(o, "X")], bond, non_edges=[("Y", -o, "X", {})], link_resname="A", tag="nonedge linkres %s" % o))
    # two atoms of ONE link residue ask for different residue names: can never match
    out.append(link([atom(0, "Y", "A"), atom(0, "X", "B"), atom(1, "X", AB)], [("bonds", ["Y", "+X"], P["a"], None)], tag="resname conflict"))
    # [non-edges] whose `from` atom is not in the reference residue
    out.append(link([atom(0, "X", AB), atom(1, "X", AB)], [("bonds", ["X", "+X"], P["a"], None)], non_edges=[("+X", 2, "X", {})], tag="nonedge from +1 atom"))
    out.append(link([atom(0, "X", AB), atom(-1, "X", AB)], [("bonds", ["X", "-X"], P["a"], None)], non_edges=[("-X", -2, "X", {})], tag="nonedge from -1 atom"))
    # warning-style link (library idiom): one residue pair, no interaction, only a replacement unless bonded onwards
    out.append(link([atom(0, "Y", AB, replace={"atype": "end"}), atom(-1, "X", AB)], [("bonds", ["-X", "Y"], P["e"], None)],
                    non_edges=[("Y", 1, "X", {})], tag="chain-end marker"))
    # 3-residue feature links
    a0, a1, a2 = atom(0, "Y", AB), atom(1, "X", AB), atom(2, "X", AB)
    ang = [("angles", ["Y", "+X", "++X"], P["ang"], None)]
    out.append(link([atom(0, "Y", AB), atom(1, "X", AB), atom(2, "X", AB)], ang, patterns=[[("+X", {"resname": "B"})]], tag="3res pattern"))
    out.append(link([atom(0, "Y", AB), atom(1, "X", AB, replace={"atype": "mid"}), atom(2, "X", AB)], ang, tag="3res replace"))
    out.append(link([atom(0, "Y", AB), atom(1, "X", AB, extra={"atype": "tx"}), atom(2, "X", AB)], ang, tag="3res extra"))
    out.append(link([atom(0, "Y", AB), atom(1, "X", AB), atom(2, "X", AB)], ang + [("bonds", ["Y", "+X"], P["a"], None), ("bonds", ["+X", "++X"], P["b"], None)], tag="3res bonds+angle"))
    out.append(link([atom(0, "Y", AB), atom(1, "X", AB), atom(2, "X", AB)], ang, non_edges=[("Y", -1, "X", {})], tag="3res nonedge"))
    return out


def labelled_links():
    out = []
    for o in (1, ">", "*", -1):
        a0, a1 = atom(0, "Y", AB), atom(o, "X", AB)
        out.append(link([a0, a1], [("bonds", [a0["key"], a1["key"]], P["a"], None)], edges=[(a0["key"], a1["key"], "c")], tag="label c %s" % o))
        a0, a1 = atom(0, "Y", AB), atom(o, "X", AB)
        out.append(link([a0, a1], [("bonds", [a0["key"], a1["key"]], P["b"], None)], tag="no label %s" % o))
    a0, a1, a2 = atom(0, "Y", AB), atom(1, "X", AB), atom(2, "X", AB)
    out.append(link([a0, a1, a2], [("angles", ["Y", "+X", "++X"], P["ang"], None)], edges=[("Y", "+X", "c")], tag="3res one label"))
    a0, a1, a2 = atom(0, "Y", AB), atom(">", "X", AB), atom(">>", "X", AB)
    out.append(link([a0, a1, a2], [("angles", ["Y", ">X", ">>X"], P["ang"], None)], edges=[(">X", ">>X", "c")], tag="3res > one label"))
    return out


def pair_pool():
    def bond(n0, o, n1, r0, r1, p, v=None, **kw):
        a0, a1 = atom(0, n0, r0, **{k[:-1]: x for k, x in kw.items() if k.endswith("0")}), atom(o, n1, r1, **{k[:-1]: x for k, x in kw.items() if k.endswith("1")})
        return [a0, a1], [("bonds", [a0["key"], a1["key"]], P[p], v)]
    pool = []
    pool.append(link(*bond("Y", 1, "X", AB, AB, "a"), tag="p0 Y+X any"))
    pool.append(link(*bond("Y", 1, "X", "A", "A", "b"), tag="p1 Y+X A-A"))
    pool.append(link(*bond("Y", 1, "X", AB, AB, "c", 2), tag="p2 Y+X v2"))
    pool.append(link(*bond("X", 1, "X", AB, AB, "d"), non_edges=[("X", 1, "Y", {})], tag="p3 X+X unless X-+Y"))
    pool.append(link(*bond("X", 1, "Y", AB, AB, "e"), tag="p4 X+Y"))
    pool.append(link(*bond("Y", ">", "X", AB, "B", "d"), tag="p5 Y>X ->B"))
    pool.append(link([atom(0, "Y", AB), atom(1, "X", AB), atom(2, "X", AB)], [("angles", ["Y", "+X", "++X"], P["ang"], None)], tag="p6 angle"))
    pool.append(link(*bond("Y", 1, "Y", AB, AB, "b", replace0={"atype": "r7"}), tag="p7 Y+Y replace Y"))
    pool.append(link(*bond("X", 1, "X", AB, AB, "c"), patterns=[[("X", {}), ("+X", {})], ], tag="p8 X+X trivially patterned"))
    lk = link(*bond("X", -1, "Y", AB, AB, "e"), patterns=[[("-Y", {"atype": "ty"})]], tag="p9 X-Y if -Y has type ty")
    pool.append(lk)
    pool.append(link([atom(0, "Y", AB, replace={"atype": "end"})], [], non_edges=[("Y", 1, "X", {})], tag="p10 mark chain end"))
    pool.append(link(*bond("Y", "*", "X", "B", "B", "a"), tag="p11 Y*X B-B"))
    return pool


def replace_veto_family(thorough):
    """links that REPLACE atom attributes (atype and/or charge) and are vetoed on some residue windows only: by
    [ patterns ] (one or two alternatives looking at the residue name / atom type of the link's own or the neighbouring
    residue) and/or by [ non-edges ].  The attributes a veto looks at are never replaced by any link of the world
    (except in the `self` variant with numeric orders, where every atom is identified by at most one instance), so the
    block-attribute reading of clause 6 and any evolving-molecule reading coincide: the worlds are judged by the
    ordinary oracle (replacement present iff the instance is applied).
    returns [(links, world-set name)]"""
    out = []
    o_all = list(ORDERS) if thorough else [1, ">", -1, "*"]
    o_few = list(ORDERS) if thorough else [1, ">"]
    o_num = [1, -1, 2] if thorough else [1, -1]
    small = "plain" if thorough else "small"

    def two(o, rep0=None, rep1=None, p="a", **kw):
        a0, a1 = atom(0, "Y", AB, replace=rep0), atom(o, "X", AB, replace=rep1)
        return link([a0, a1], [("bonds", [a0["key"], a1["key"]], P[p], None)], **kw), a0["key"], a1["key"]

    for o in o_all:
        kx = prefix(o) + "X"
        # (a1) one pattern on the NEIGHBOUR's atom type: applies only in front of an A residue; re-types its own atom
        out.append(([two(o, rep0={"atype": "QX"}, patterns=[[(kx, {"atype": "tx"})]], tag="rp neighbour-type %s" % o)[0]], small))
        # (a2) two alternatives (own residue is B | neighbour atom has type tx): fails on the window A->B only
        out.append(([two(o, rep0={"atype": "QN"}, rep1={"charge": -0.5},
                         patterns=[[("Y", {"resname": "B"}), (kx, {})], [("Y", {}), (kx, {"atype": "tx"})]], tag="rp two alternatives %s" % o)[0]], small))
        # (a3) marker idiom: no interaction, one [ edges ] entry, atype AND charge replaced; alternatives on neighbour type / both names
        a0, a1 = atom(0, "Y", AB, replace={"atype": "QC", "charge": 0.25}), atom(o, "X", AB)
        out.append(([link([a0, a1], [], edges=[("Y", kx, None)], patterns=[[(kx, {"atype": "tx"})], [("Y", {"resname": "B"}), (kx, {"resname": "B"})]],
                          tag="rp marker edges-only %s" % o)], small))
    for o in o_few:
        kx = prefix(o) + "X"
        # (a4) both atoms replaced, a pattern that never holds: no replacement anywhere
        out.append(([two(o, rep0={"atype": "QX"}, rep1={"atype": "QZ", "charge": 1.0}, patterns=[[(kx, {"atype": "zz"})], [("Y", {"resname": "C"})]],
                         tag="rp never %s" % o)[0]], small))
        # (a5) name choice in a pattern + replace on the neighbour atom only
        out.append(([two(o, rep1={"atype": "QM"}, patterns=[[("Y", {"resname": AB, "atype": "ty"})]], tag="rp own-type choice %s" % o)[0]], small))
        # (b1) [ non-edges ] on an edge that exists inside the reference residue, restricted by the type of its far atom:
        #      vetoed iff the reference residue is A; replacements on two atoms
        a0, a1, a2 = atom(0, "Y", AB), atom(o, "X", AB, replace={"charge": 0.5}), atom(0, "X", AB, replace={"atype": "QE"})
        out.append(([link([a0, a1, a2], [("bonds", ["Y", kx], P["a"], None)], non_edges=[("X", 0, "Y", {"atype": "ty"})], tag="rn intra typed %s" % o)], small))
    for o in o_num:
        kx, ky = prefix(o) + "X", prefix(o) + "Y"
        # (a6) the pattern looks at the attribute the link itself replaces (numeric order: one instance per atom)
        out.append(([two(o, rep0={"atype": "QS"}, patterns=[[("Y", {"atype": "ty"})]], tag="rp self %s" % o)[0]], small))
        # (b2) the forbidden edge is made by a link defined EARLIER (only between two A residues); the later link bonds
        #      Y-Y, re-types its Y and is vetoed exactly on those windows
        first = link([atom(0, "Y", "A"), atom(o, "X", "A")], [("bonds", ["Y", kx], P["a"], None)], tag="bond Y%s A-A" % kx)
        a0, a1 = atom(0, "Y", AB, replace={"atype": "QE", "charge": -1.0}), atom(o, "Y", AB)
        out.append(([first, link([a0, a1], [("bonds", ["Y", ky], P["b"], None)], non_edges=[("Y", o, "X", {})], tag="rn unless Y-%s" % kx)], small))
        # (ab) [ non-edges ] AND [ patterns ] on one replacing link
        a0, a1, a2 = atom(0, "Y", AB, replace={"atype": "QE"}), atom(o, "Y", AB, replace={"charge": 0.75}), atom(o, "X", AB)
        out.append(([first, link([a0, a1, a2], [("bonds", ["Y", ky], P["b"], None)], non_edges=[("Y", o, "X", {})],
                                 patterns=[[(kx, {"atype": "tx"})], [("Y", {"resname": "B"}), (ky, {"resname": "B"})]], tag="rnp unless Y-%s" % kx)], small))
    # 3-residue links
    ang = [("angles", ["Y", "+X", "++X"], P["ang"], None)]
    out.append(([link([atom(0, "Y", AB, replace={"atype": "QA"}), atom(1, "X", AB, replace={"charge": 0.1}), atom(2, "X", AB)], ang,
                      patterns=[[("++X", {"atype": "tx"})]], tag="rp 3res last-type")], "plain"))
    out.append(([link([atom(0, "Y", AB, replace={"atype": "QH"}), atom(1, "X", AB), atom(2, "X", AB, replace={"charge": -0.25})], ang,
                      patterns=[[("+X", {"resname": "B"})], [("Y", {"atype": "ty"}), ("++X", {"atype": "tq"})]], tag="rp 3res two alternatives")], "plain"))
    out.append(([link([atom(0, "Y", AB), atom(1, "X", AB), atom(2, "X", AB, replace={"atype": "QT"}), atom(0, "X", AB)], ang,
                      non_edges=[("X", 0, "Y", {"atype": "tq"})], tag="rn 3res intra typed")], "plain"))
    if thorough:
        a = [atom(0, "Y", AB, replace={"atype": "QG"}), atom(">", "X", AB, replace={"charge": 0.2}), atom(">>", "X", AB)]
        out.append(([link(a, [("angles", ["Y", ">X", ">>X"], P["ang"], None)], patterns=[[(">>X", {"atype": "tx"})], [("Y", {"resname": "B"})]],
                          tag="rp 3res > two alternatives")], "plain"))
    return out


# ----------------------------------------------------------------------------------------------------------------
# family "same atoms, several interaction types, later redefinition"
# ----------------------------------------------------------------------------------------------------------------
# an atom tuple as (order, atom name) per position, and the 1-based indices of the same tuple in a monomer .itp
MT_TUPLES = {"YX": ([(0, "Y"), (1, "X")], (2, 3)),
             "YXY": ([(0, "Y"), (1, "X"), (1, "Y")], (2, 3, 4)),
             "YXX": ([(0, "Y"), (1, "X"), (2, "X")], (2, 3, 5)),
             "XYXY": ([(0, "X"), (0, "Y"), (1, "X"), (1, "Y")], (1, 2, 3, 4))}
# the interaction types that are written on ONE atom tuple (bond | constraint are the #ifdef FLEXIBLE alternatives)
MT_SETS = {"bc": ("YX", ("bonds", "constraints")),
           "bcp": ("YX", ("bonds", "constraints", "pairs")),
           "av": ("YXY", ("angles", "virtual_sites2")),
           "av3": ("YXX", ("angles", "virtual_sites2")),
           "dr": ("XYXY", ("dihedrals", "dihedral_restraints"))}


def mt_params(t, slot):
    """parameters that tell who defined the interaction: slot 1 = the first link (.ff link / dangling of A), 2 = dangling
    of B, 5 = the link defined later, 6 = a third link"""
    return {"bonds": ("1", "0.4%d" % slot, "4%d0" % slot), "constraints": ("1", "0.5%d" % slot), "pairs": ("1", "0.6%d" % slot, "6%d" % slot),
            "angles": ("1", "10%d" % slot, "1%d" % slot), "virtual_sites2": ("1", "0.%d" % slot),
            "dihedrals": ("1", "18%d" % slot, "%d" % slot, "2"), "dihedral_restraints": ("1", "9%d" % slot, "0", "%d" % slot)}[t]


def mt_link(tup, types, slot, resn, link_level=None, tag=""):
    """.ff link with one interaction of every type in `types` on the atom tuple `tup`; resn = residue-name spec per order"""
    pos, _ = MT_TUPLES[tup]
    atoms, keys = [], []
    for o, nm in pos:
        a = atom(o, nm, None if link_level is not None else resn[o])
        keys.append(a["key"])
        atoms.append(a)
    return link(atoms, [(t, keys, mt_params(t, slot), None) for t in types], link_resname=link_level, tag=tag)


def mt_dangling(tup, types, slot, between=()):
    """the same as dangling interactions of a monomer .itp; `between`: further dangling interactions listed between them"""
    idx = MT_TUPLES[tup][1]
    out = [(types[0], idx, mt_params(types[0], slot))] + list(between)
    return out + [(t, idx, mt_params(t, slot)) for t in types[1:]]


def mt_resn(tup, thorough):
    """residue-name restrictions of the later link (per order), so that it matches some residue windows only"""
    if tup == "YXX":
        forms = [(AB, "B", AB), ("A", AB, AB), (AB, AB, AB), ("B", "B", "B")]
    else:
        forms = [("B", "B"), ("A", "B"), ("A", "A"), (AB, AB), ("B", AB)]
    return forms if thorough else forms[:2]


def multi_type_family(thorough):
    """force fields in which a link carries two (three) interaction TYPES on one atom tuple and a link defined LATER
    (in the same file, in a second file, or in the .ff read after the monomer .itp) defines one / the other / all of these
    interactions again for some residue names.  returns [spec]"""
    out = []

    def spec(dangling, links, order, links2=(), tag=""):
        out.append({"syntax": "mixed", "dangling": dangling, "links": list(links), "links2": list(links2), "file_order": list(order),
                    "family": "multi-type", "tag": tag})

    def later(ms, kind, resn, slot=5):
        tup, types = MT_SETS[ms]
        redefined = types[:2] if kind == "both" else (types[kind],)
        return mt_link(tup, redefined, slot, resn, tag="later %s %s %s" % (ms, kind, resn))

    def generic(ms, link_level=False):
        tup, types = MT_SETS[ms]
        n = 1 + max(o for o, _ in MT_TUPLES[tup][0])
        return mt_link(tup, types, 1, (AB,) * n, link_level=AB if link_level else None, tag="first %s" % ms)

    def dang(ms, names="AB", between=()):
        tup, types = MT_SETS[ms]
        return {nm: mt_dangling(tup, types, 1 + "AB".index(nm), between) for nm in names}

    if not thorough:
        spec({}, [generic("bc", True), later("bc", 0, ("B", "B"))], ["ff", "itp"], tag="bc ff, bond again for B-B, same file, .itp read after")
        spec({}, [generic("bc")], ["ff", "itp", "ff2"], [later("bc", 1, ("A", "A"))], tag="bc ff, constraint again for A-A, second file")
        spec(dang("bc"), [mt_link("YX", ("bonds",), 5, None, link_level="A", tag="later bc 0 linkres A")], ["itp", "ff"], tag="bc dangling, bond again for A")
        spec(dang("bc"), [later("bc", "both", (AB, AB))], ["itp:A", "ff", "itp:B"], tag="bc dangling of A, both again for any, dangling of B")
        spec({}, [generic("bcp"), later("bcp", "both", ("A", "B"))], ["itp", "ff"], tag="bcp ff read after .itp, bond+constraint again for A->B")
        spec({}, [generic("av"), later("av", 0, ("B", AB))], ["ff", "itp"], tag="av ff, angle again for B->any")
        spec({}, [generic("av"), later("av", 1, ("B", AB))], ["ff", "itp"], tag="av ff, virtual site again for B->any, .itp read after (witness of K25)")
        spec(dang("av3"), [later("av3", 1, (AB, "B", AB))], ["itp", "ff"], tag="av3 dangling, second type again around B")
        spec({}, [mt_link("YX", ("bonds",), 1, (AB, AB), tag="first bond only"), later("bc", "both", ("B", "B"))], ["ff", "itp"],
             tag="single-type first, bc later for B-B")
        return out
    for ms, (tup, types) in MT_SETS.items():
        main = ms == "bc"
        forms = mt_resn(tup, True)
        for kind in (0, 1, "both"):
            for resn in (forms if main else forms[:2]):
                lt = later(ms, kind, resn)
                # first link as a .ff link
                spec({}, [generic(ms), lt], ["ff", "itp"], tag="%s ff same file, .itp after" % ms)
                spec({}, [generic(ms)], ["ff", "itp", "ff2"], [lt], tag="%s ff, .itp, later link in a second file" % ms)
                if main:
                    spec({}, [generic(ms), lt], ["itp", "ff"], tag="bc .itp, ff same file")
                    spec({}, [generic(ms)], ["ff", "ff2", "itp"], [lt], tag="bc ff, second file, .itp")
                    spec({}, [generic(ms, True), lt], ["ff", "itp"], tag="bc ff (link-level resname) same file, .itp after")
                # first link as dangling interactions of the monomers
                spec(dang(ms), [lt], ["itp", "ff"], tag="%s dangling, later link in .ff" % ms)
                if main:
                    spec(dang(ms), [lt], ["ff", "itp"], tag="bc .ff first, dangling defined last")
                    spec(dang(ms), [lt], ["itp:A", "ff", "itp:B"], tag="bc dangling A, .ff, dangling B")
                    spec(dang(ms, "A"), [lt], ["itp", "ff"], tag="bc dangling of A only, later link in .ff")
                    spec(dang(ms, "AB", between=[("angles", (1, 2, 3), P["ang"])]), [lt], ["itp", "ff"], tag="bc dangling with an angle listed between")
    for resn in mt_resn("YX", True)[:3]:
        # the single-type link first, the several-types link later
        spec({}, [mt_link("YX", ("bonds",), 1, (AB, AB), tag="first bond only"), later("bc", "both", resn)], ["ff", "itp"], tag="single-type first, bc later")
        spec({"A": [("constraints", (2, 3), mt_params("constraints", 1))], "B": [("constraints", (2, 3), mt_params("constraints", 2))]},
             [later("bcp", "both", resn)], ["itp", "ff"], tag="dangling constraint first, bc later")
        # three definitions: generic, specific (one type), generic again (the other type) in a second file
        spec({}, [generic("bc"), later("bc", 0, resn)], ["ff", "itp", "ff2"], [later("bc", 1, (AB, AB), slot=6)], tag="three links, .itp in between")
        spec(dang("bc"), [later("bc", 0, resn)], ["itp", "ff", "ff2"], [later("bc", "both", ("A", AB), slot=6)], tag="dangling + two later links")
    return out


def chain_worlds(thorough):
    """linear chains in resid order with mixed residue names: thorough every name assignment over {A,B} for 2..6
    residues, quick ten of them (every length)"""
    if thorough:
        seqs = ["".join(x) for n in range(2, 7) for x in itertools.product("AB", repeat=n)]
    else:
        seqs = ["AB", "BB", "AAB", "BBA", "ABBA", "AABB", "AABBB", "BABBA", "AABBBA", "BBBAAB"]
    return [{"n": len(q), "edges": [(i, i + 1) for i in range(len(q) - 1)], "names": list(q), "resids": list(range(1, len(q) + 1)), "labels": {}}
            for q in seqs]


def override_profile(links, w):
    """for the worlds of the multi-type family (no vetoes: every static candidate is applied):
    overridden = number of (type, atoms, version) defined by instances of more than one link definition,
    kept = number of those defined by one link only although the same link shares that atom tuple between several types"""
    owners, shared = {}, set()
    for li, lk in enumerate(links):
        cands, _ = static_candidates(lk, w)
        for c in cands:
            per_atoms = {}
            for t, keys, _, v in lk["inters"]:
                atoms = tuple(c["match"][k] for k in keys)
                owners.setdefault((t, atoms, v or 1), set()).add(li)
                per_atoms.setdefault(atoms, set()).add(t)
            shared |= {(t, atoms) for atoms, ts in per_atoms.items() if len(ts) > 1 for t in ts}
    overridden = sum(1 for k, o in owners.items() if len(o) > 1)
    kept = sum(1 for k, o in owners.items() if len(o) == 1 and (k[0], k[1]) in shared)
    return overridden, kept


ITP_DANGLING = [
    ("bond Y+X", [("bonds", (2, 3), P["a"])]),
    ("bond Y+Y", [("bonds", (2, 4), P["a"])]),
    ("bond X++X", [("bonds", (1, 5), P["a"])]),
    ("angle XY+X", [("angles", (1, 2, 3), P["ang"])]),
    ("angle Y+X++X", [("angles", (2, 3, 5), P["ang"])]),
    ("angle Y+X+Y", [("angles", (2, 3, 4), P["ang"])]),
    ("bond twice", [("bonds", (2, 3), P["a"]), ("bonds", (2, 3), P["b"])]),
    ("bond+angles", [("bonds", (2, 3), P["a"]), ("angles", (1, 2, 3), P["ang"]), ("angles", (2, 3, 5), P["ang2"])]),
    ("dihedral", [("bonds", (2, 3), P["a"]), ("dihedrals", (1, 2, 3, 4), P["dih"])]),
    ("dihedral 3res", [("dihedrals", (2, 3, 5, 7), P["dih"])]),
    ("constraint", [("constraints", (2, 3), ("1", "0.3"))]),
]


def c02_specs(thorough):
    """[(spec, world-set names, both_orders)]"""
    specs = []
    for lk in core2() + core3(thorough) + features(thorough):
        specs.append(({"syntax": "ff", "links": [lk]}, ("plain",), False))
    for i, lk in enumerate(core4()):
        if thorough or i % 6 == 0:
            specs.append(({"syntax": "ff", "links": [lk]}, ("plain",), False))
    for lk in labelled_links():
        specs.append(({"syntax": "ff", "links": [lk]}, ("label",), False))
    lab = labelled_links()
    specs.append(({"syntax": "ff", "links": [lab[0], lab[1]]}, ("label",), True))
    pool = pair_pool()
    for i, j in itertools.combinations(range(len(pool)), 2):
        specs.append(({"syntax": "ff", "links": [pool[i], pool[j]]}, ("plain",), True))
    if thorough:
        for i, j, k in itertools.combinations(range(len(pool)), 3):
            specs.append(({"syntax": "ff", "links": [pool[i], pool[j], pool[k]]}, ("plain",), False))
    # replacing links vetoed on some windows only ([ patterns ] / [ non-edges ])
    for lks, wset in replace_veto_family(thorough):
        specs.append(({"syntax": "ff", "links": lks, "family": "replace-veto"}, (wset,), False))
    # a forbidden edge that exists before the vetoed link is processed, `from` atom outside the reference residue
    specs.append(({"syntax": "ff", "links": [
        link([atom(0, "Y", AB), atom(1, "X", AB)], [("bonds", ["Y", "+X"], P["a"], None)], tag="bond Y+X"),
        link([atom(0, "X", AB), atom(1, "X", AB), atom(1, "Y", AB)], [("bonds", ["X", "+X"], P["e"], None)], non_edges=[("+Y", 2, "X", {})],
             tag="X+X unless +Y-++X")]}, ("plain",), False))
    # polyply-style monomers with dangling interactions
    for name, d in ITP_DANGLING:
        specs.append(({"syntax": "itp", "dangling": {"A": d}}, ("plain", "paths"), False))
        specs.append(({"syntax": "itp", "dangling": {"A": d, "B": [("bonds", (2, 3), P["c"])]}}, ("plain", "paths"), False))
    specs.append(({"syntax": "itp", "dangling": {"B": ITP_DANGLING[7][1], "A": ITP_DANGLING[4][1]}}, ("plain", "paths"), False))
    specs.append(({"syntax": "itp", "dangling": {}}, ("plain",), False))
    # monomers from .itp, links from a .ff, both reading orders
    for itp_first in (True, False):
        for lks in ([pool[0]], [pool[1], pool[2]], [pool[4]], [pool[0], pool[2]], [pool[6]],
                    [link([atom(0, "Y", AB), atom(1, "X", AB)], [("bonds", ["Y", "+X"], P["d"], 2)], tag="only v2")]):
            specs.append(({"syntax": "mixed", "dangling": {"A": [("bonds", (2, 3), P["a"])]}, "links": lks, "itp_first": itp_first}, ("plain",), False))
            specs.append(({"syntax": "mixed", "dangling": {}, "links": lks, "itp_first": itp_first}, ("plain",), False))
    # several interaction types on one atom tuple, one of them defined again by a later link (linear chains, mixed names)
    for spec in multi_type_family(thorough):
        specs.append((spec, ("chains",), False))
    return specs


def run_c02(ctx, res):
    import multiprocessing as mp
    scratch = tempfile.mkdtemp(prefix="b_links_", dir="/var/tmp")
    try:
        nmax = 5 if ctx.thorough else 4
        sets = {"plain": graph_worlds(nmax, ctx.seed), "label": graph_worlds(4, ctx.seed + 1, labelled=True),
                "paths": path_worlds((5, 6) if not ctx.thorough else (5, 6, 7, 8))}
        paths = {k: write_world_files(scratch, v, k) for k, v in sets.items()}
        small = [i for i, w in enumerate(sets["plain"]) if w["n"] <= 3]
        sets["small"], paths["small"] = [sets["plain"][i] for i in small], [paths["plain"][i] for i in small]
        sets["chains"] = chain_worlds(ctx.thorough)
        paths["chains"] = write_world_files(scratch, sets["chains"], "chains")
        specs = c02_specs(ctx.thorough)
        jobs = []
        for jid, (spec, names, both) in enumerate(specs):
            jobs.append((jid, spec, [(sets[n], paths[n]) for n in names], scratch, both, True))
        with mp.Pool(min(16, os.cpu_count() or 1)) as pool:
            outs = pool.map(c02_job, jobs, chunksize=1)
        counts, illposed = {}, 0
        viols = {}
        fam = [o for (spec, _, _), o in zip(specs, outs) if spec.get("family") == "replace-veto"]
        mt = [o for (spec, _, _), o in zip(specs, outs) if spec.get("family") == "multi-type"]
        for o in outs:
            res.evaluations += o["evaluations"]
            res.nontrivial += o["nontrivial"]
            illposed += o["illposed"]
            for k, n in o["counts"].items():
                counts[k] = counts.get(k, 0) + n
            for v in o["violations"]:
                viols.setdefault(v[0], []).append(v)
            for s in o["samples"]:
                if len(res.samples) < 3:
                    res.samples.append(s)
        for o in mt:
            if o["family_sample"] is not None:
                res.samples.append(o["family_sample"])
                break
        # at most 5 recorded: one per class first (smallest input first), then fill
        for k in viols:
            viols[k].sort(key=lambda v: len(json.dumps(v[2], default=str)))
        rank = sorted(viols, key=lambda k: (k in KNOWN_CLASSES, k))
        picked = [viols[k][0] for k in rank][:5]
        for k in rank:
            for v in viols[k][1:2]:
                if len(picked) < 5:
                    picked.append(v)
        for key, what, inputs, detail in picked:
            res.violations.append(Violation("c02-link-instances", what + "  [%d worlds in this class]" % counts.get(key, 1), inputs=inputs,
                                            detail=detail, replayed=True, finding_key=key))
        n_ff = len(specs)
        res.bound = ("EXHAUSTIVE: %d force fields written to files and read with the real readers (load_ff_library): every 2-residue link "
                     "order{+1,+2,-1,>,>>,<,*} x atoms{Y-X,X-X} x 6 resname forms (single/choice/none); every 3-residue link over ordered pairs of "
                     "those orders x shapes{path, centred, triangle via [edges], isolated third residue}%s; one feature at a time on base links "
                     "(extra attribute, atom-name choice, link-level resname, replace, [edges], edges-only, non-bond interaction, [patterns] x4, versions, "
                     "[non-edges] x5 (+2 whose `from` atom is outside the reference residue), conflicting resnames in one residue, chain-end marker, 3-residue variants); "
                     "%d force fields whose links REPLACE atom type and/or charge and are vetoed on some windows only (1-2 alternative [patterns] on the "
                     "own/neighbouring residue's name or atom type, [non-edges] on a typed intra-residue edge or on an edge made by an earlier link, both; "
                     "2- and 3-residue links), on graphs with <= %s nodes: %d evaluations, %d non-trivial; "
                     "every 6th (thorough: every) 4-residue link over ordered triples x {path, star, ring}; labelled [edges] links; all unordered pairs of a pool of 12 links in BOTH "
                     "definition orders; %d polyply-style monomer .itp worlds with dangling bonds/angles/dihedrals/constraints (`Y +X`, `X Y +X`, "
                     "`Y +X ++X`, ...); monomers from .itp + links from .ff in both reading orders; "
                     "%d force fields 'same atoms, several interaction types, later redefinition': a first link with 2-3 interaction TYPES on ONE atom tuple "
                     "(bonds+constraints, bonds+constraints+pairs on `Y +X`; angles+virtual_sites2 on `Y +X +Y` and `Y +X ++X`%s), written as a .ff link (atom-wise or link-level resname A|B) or as dangling interactions of the monomer .itp files (%s), and a link "
                     "defined LATER that gives the first / the second / both of these types again on the same atoms for some residue names only (%s), in the same "
                     ".ff after it, in a second .ff, or in the .ff read after the monomers; file orders {links.ff,*.itp | *.itp,links.ff | links.ff,*.itp,links2.ff | "
                     "%sA.itp,links.ff,B.itp}%s; x %d linear chains (%s) = %d evaluations, in %d of them a later link "
                     "redefines an interaction of an earlier one, in %d of these another interaction of a several-types tuple is defined by its first link only "
                     "(expected: per atom tuple and type exactly the last-defined matching link's parameters, other types untouched).  "
                     "x residue graphs: every connected graph on <= %d "
                     "nodes (networkx atlas) x every resname assignment over {A,B} x {resids 1..n in node order, one seeded shuffled assignment} = %d "
                     "graph worlds (+ %d with linktype-labelled residue edges for the labelled links, + %d linear chains of length 5..%d for the dangling-window clause)"
                     % (n_ff, "; all triples of the pool" if ctx.thorough else "",
                        len(fam), "5" if ctx.thorough else "3 (3-residue links: 4)", sum(o["evaluations"] for o in fam), sum(o["nontrivial"] for o in fam),
                        2 * len(ITP_DANGLING) + 2,
                        len(mt), "; dihedrals+dihedral_restraints on `X Y +X +Y`" if ctx.thorough else "",
                        "A and B with different parameters, A only, a dangling angle listed between the two types" if ctx.thorough else "A and B with different parameters",
                        "B-B, A->B, A-A, any-any, B->any; 3-residue: middle B, first A" if ctx.thorough else "8 hand-picked combinations over A-A, B-B, A->B, B->any, any-any, middle B",
                        "links.ff,links2.ff,*.itp | " if ctx.thorough else "",
                        "; plus single-type link first / several-types link later, and three definitions (generic, specific, generic again in a second file)" if ctx.thorough
                        else "; incl. one single-type link first / several-types link later",
                        len(sets["chains"]), "every name assignment over {A,B} for 2..6 residues" if ctx.thorough else "ten mixed A/B sequences, 2..6 residues",
                        sum(o["evaluations"] for o in mt), sum(o["overridden"] for o in mt), sum(o["partial"] for o in mt),
                        nmax, len(sets["plain"]), len(sets["label"]), len(sets["paths"]), 8 if ctx.thorough else 6))
        res.rule = ("world = (force-field files, residue graph); MapToMolecule.run_molecule then ApplyLinks.run_molecule on the real tree; interactions, "
                    "edges and atom attributes of meta.molecule compared in both directions with link_instances (oracle from the statement).  "
                    "Non-trivial iff at least one link instance is applied AND at least one assignment whose induced residue subgraph equals the "
                    "link's pattern is rejected (names, order, atom identification, veto) in that world.  %d worlds where no consistent molecule exists "
                    "(a link forbidding what it creates) were not judged.  Worlds of the 'several interaction types on one atom tuple' family: .itp monomers "
                    "+ .ff link files given to load_ff_library in the stated file order (= order of definition; dangling interactions count where their "
                    "monomer file is read); the same oracle (later DEFINED link wins per (type, atoms, version), every other key keeps its only definition)." % illposed)
        res.exhaustive = True
        res.assumptions.append("bounded: consecutive atoms of bonds/angles/dihedrals/constraints are bond edges (vermouth convention); resids contiguous (non-contiguous resids are a recorded defect outside this quantifier)")
        res.assumptions.append("bounded: [non-edges]/[patterns] are read against the GENERATED molecule's edges / the block attributes of the identified atoms; contract checked as consistency of the generated molecule")
    finally:
        shutil.rmtree(scratch, ignore_errors=True)


# ================================================================================================================
# C10: every residue-graph edge is realised by a bond or reported as missing
# ================================================================================================================
def c10_pool():
    def two(n0, o, n1, r0, r1, inters=None, edges=(), tag=""):
        a0, a1 = atom(0, n0, r0), atom(o, n1, r1)
        if inters is None:
            inters = [("bonds", [a0["key"], a1["key"]], P["a"], None)]
        return link([a0, a1], inters, edges=edges, tag=tag)
    pool = [two("Y", 1, "X", AB, AB, tag="c0 Y+X any"),
            two("Y", ">", "X", AB, AB, tag="c1 Y>X any"),
            two("Y", 1, "X", "A", "A", tag="c2 Y+X A-A"),
            link([atom(0, "Y", AB), atom(1, "X", AB), atom(2, "X", AB)], [("angles", ["Y", "+X", "++X"], P["ang"], None)], tag="c3 angle"),
            two("X", "*", "X", "B", AB, inters=[], edges=[("X", "*X", None)], tag="c4 edges-only B*any"),
            two("Y", ">", "X", AB, AB, inters=[("pairs", ["Y", ">X"], ("1",), None)], tag="c5 pair only (no bond edge)"),
            two("Y", -1, "Y", AB, "B", tag="c6 Y-Y ->B"),
            link([atom(0, "Y", AB), atom(">", "X", AB), atom(">>", "X", AB)], [("angles", ["Y", ">X", ">>X"], P["ang"], None)],
                 edges=[("Y", ">>X", None)], tag="c7 triangle")]
    return pool


def c10_specs(thorough):
    pool = c10_pool()
    specs = [{"syntax": "ff", "links": []}]
    specs += [{"syntax": "ff", "links": [lk]} for lk in pool]
    specs += [{"syntax": "ff", "links": [pool[i], pool[j]]} for i, j in itertools.combinations(range(len(pool)), 2)]
    specs += [{"syntax": "itp", "dangling": {}},
              {"syntax": "itp", "dangling": {"A": [("bonds", (2, 3), P["a"])]}},
              {"syntax": "itp", "dangling": {"A": [("bonds", (2, 3), P["a"])], "B": [("angles", (2, 3, 5), P["ang"])]}},
              {"syntax": "mixed", "dangling": {"A": [("bonds", (2, 3), P["a"])]}, "links": [pool[6]], "itp_first": True}]
    if thorough:
        specs += [{"syntax": "ff", "links": [pool[i], pool[j], pool[k]]} for i, j, k in itertools.combinations(range(len(pool)), 3)]
    return specs


class _Capture:
    """records of the gen_itp logger while gen_params runs (the real logging path: StyleAdapter -> Logger -> handler)"""

    def __init__(self):
        import logging

        class H(logging.Handler):
            def __init__(self):
                super().__init__()
                self.records = []

            def emit(self, record):
                self.records.append((record.levelname, self.format(record)))
        self.logging = logging
        self.handler = H()
        self.logger = logging.getLogger("polyply.src.gen_itp")
        self.top = logging.getLogger("polyply")
        self.null = logging.NullHandler()

    def __enter__(self):
        self.handler.records = []
        self.logger.addHandler(self.handler)
        self.top.addHandler(self.null)                      # keeps other polyply warnings off stderr
        self.old_prop = self.top.propagate
        self.top.propagate = False
        self.logging.disable(self.logging.NOTSET)
        return self.handler

    def __exit__(self, *exc):
        self.logging.disable(self.logging.CRITICAL)
        self.logger.removeHandler(self.handler)
        self.top.removeHandler(self.null)
        self.top.propagate = self.old_prop


def c10_job(args):
    import re
    jid, spec, worlds, paths, scratch = args
    R = real()
    gi = load("polyply.src.gen_itp")
    out = {"evaluations": 0, "nontrivial": 0, "violations": [], "counts": {}, "samples": [], "end_to_end": 0}

    def note(key, what, inputs, detail):
        out["counts"][key] = out["counts"].get(key, 0) + 1
        if sum(1 for v in out["violations"] if v[0] == key) < 2:
            out["violations"].append((key, what, inputs, detail))

    d = os.path.join(scratch, "c10ff_%05d" % jid)
    ffpaths = write_ff(d, spec)
    try:
        ff = R.read_ff(ffpaths)
    except Exception as e:                                    # noqa: BLE001
        note("c10-reader-crash", "reading the force field raised %s: %s" % (type(e).__name__, e), {"force_field": text_of(spec)}, "")
        shutil.rmtree(d, ignore_errors=True)
        return out
    cap = _Capture()
    rx = re.compile(r"Missing a link between residue (\d+) (\S+) and residue (\d+) (\S+)\.")
    for wi, (w, path) in enumerate(zip(worlds, paths)):
        out["evaluations"] += 1
        inputs = {"force_field": text_of(spec), "residue_graph": world_text(w)}
        try:
            meta = R.generate(ff, path)
            reported = list(R.gu.find_missing_edges(meta, meta.molecule))
        except Exception as e:                                # noqa: BLE001
            note("c10-crash-%s" % type(e).__name__, "%s: %s" % (type(e).__name__, e), inputs, "")
            continue
        # independent recount of the atom-level edges between every pair of residues
        mol = meta.molecule
        count = {}
        for a, b in mol.edges:
            ra, rb = mol.nodes[a]["resid"], mol.nodes[b]["resid"]
            if ra != rb:
                k = frozenset((ra, rb))
                count[k] = count.get(k, 0) + 1
        name_of = dict(zip(w["resids"], w["names"]))
        res_edges = [frozenset((w["resids"][a], w["resids"][b])) for a, b in w["edges"]]
        missing = {e for e in res_edges if count.get(e, 0) == 0}
        if missing and len(missing) < len(res_edges):
            out["nontrivial"] += 1
            if not out["samples"] and len(res_edges) >= 3:
                out["samples"].append(dict(inputs, realised=sorted(sorted(e) for e in res_edges if e not in missing), missing=sorted(sorted(e) for e in missing)))
        rep_pairs = [frozenset((r["idxA"], r["idxB"])) for r in reported]
        bad = []
        for e in res_edges:
            n_rep = rep_pairs.count(e)
            if count.get(e, 0) > 0 and n_rep:
                bad.append("residue edge %s is realised by %d atom-level edge(s) AND reported missing" % (sorted(e), count[e]))
            if count.get(e, 0) == 0 and n_rep == 0:
                bad.append("residue edge %s has no atom-level edge and is NOT reported" % sorted(e))
            if n_rep > 1:
                bad.append("residue edge %s reported %d times" % (sorted(e), n_rep))
        for r, e in zip(reported, rep_pairs):
            if e not in res_edges:
                bad.append("report for residues %s which are not connected in the residue graph" % sorted(e))
            if name_of.get(r["idxA"]) != r["resA"] or name_of.get(r["idxB"]) != r["resB"]:
                bad.append("report names the residues wrongly: %s" % r)
        if bad:
            note("c10-edge-xor-report", "; ".join(bad[:3]), inputs, "\n".join(bad))
        # the warnings gen_params emits (one per missing pair, naming both residues): every world on <= 3 residues, every 5th larger one
        if w["n"] <= 3 or wi % 5 == 0:
            out["end_to_end"] += 1
            outp = os.path.join(d, "out_%d.itp" % wi)
            try:
                with cap as handler:
                    gi.gen_params(name="w", outpath=Path(outp), inpath=[Path(x) for x in ffpaths], seq_file=Path(path))
                warned = []
                for level, text in handler.records:
                    m = rx.search(text)
                    if m and level == "WARNING":
                        warned.append((frozenset((int(m.group(1)), int(m.group(3)))), (int(m.group(1)), m.group(2)), (int(m.group(3)), m.group(4))))
                wbad = []
                for e in missing:
                    hits = [x for x in warned if x[0] == e]
                    if len(hits) != 1:
                        wbad.append("missing residue edge %s: %d warnings" % (sorted(e), len(hits)))
                    for _, (ia, na), (ib, nb) in hits:
                        if name_of.get(ia) != na or name_of.get(ib) != nb:
                            wbad.append("warning names residues %d %s / %d %s wrongly" % (ia, na, ib, nb))
                for x in warned:
                    if x[0] not in missing:
                        wbad.append("warning for %s which is realised or not a residue edge" % sorted(x[0]))
                if not os.path.exists(outp):
                    wbad.append("gen_params wrote no .itp")
                if wbad:
                    note("c10-gen-params-warnings", "; ".join(wbad[:3]), inputs, "\n".join(wbad))
            except Exception as e:                            # noqa: BLE001
                note("c10-gen-params-crash-%s" % type(e).__name__, "gen_params raised %s: %s" % (type(e).__name__, e), inputs, "")
            finally:
                if os.path.exists(outp):
                    os.remove(outp)
    shutil.rmtree(d, ignore_errors=True)
    return out


def write_top(dirname, n, atom_bonds):
    os.makedirs(dirname, exist_ok=True)
    atoms = []
    for r in range(n):
        atoms.append("%d P1 %d A X %d 0.0 72.0" % (2 * r + 1, r + 1, 2 * r + 1))
        atoms.append("%d P1 %d A Y %d 0.0 72.0" % (2 * r + 2, r + 1, 2 * r + 2))
    with open(os.path.join(dirname, "mol.itp"), "w") as fh:
        fh.write("[ moleculetype ]\nM 1\n[ atoms ]\n" + "\n".join(atoms) + "\n[ bonds ]\n" + "\n".join("%d %d 1 0.35 1000" % b for b in atom_bonds) + "\n")
    with open(os.path.join(dirname, "sys.top"), "w") as fh:
        fh.write('[ defaults ]\n1 1 no 1.0 1.0\n[ atomtypes ]\nP1 72.0 0.0 A 0.47 4.0\n#include "mol.itp"\n[ system ]\ntest\n[ molecules ]\nM 1\n')
    return os.path.join(dirname, "sys.top")


def c10_top_job(args):
    """one topology written to files: residue graph g (connected or not) realised by atom bonds in one of the variants
    full (X-Y inside every residue, Y_u - X_v for every residue edge), isolated (Y of the last residue bonded to nothing),
    strands (no X-Y bond anywhere; X_u-X_v and Y_u-Y_v for every residue edge)"""
    import numpy as np
    jid, n, edges, variant, run_gen_coords, scratch, seed = args
    gc = load("polyply.src.gen_coords")
    topm = load("polyply.src.topology")
    import sys
    for mname, mod in list(sys.modules.items()):             # silence progress bars only (same iteration)
        if mname.startswith("polyply") and getattr(getattr(mod, "tqdm", None), "__name__", "") == "tqdm":
            import functools
            mod.tqdm = functools.partial(mod.tqdm, disable=True)
    X = lambda r: 2 * r + 1       # noqa: E731
    Y = lambda r: 2 * r + 2       # noqa: E731
    if variant == "full":
        bonds = [(X(r), Y(r)) for r in range(n)] + [(Y(a), X(b)) for a, b in edges]
    elif variant == "isolated":
        bonds = [(X(r), Y(r)) for r in range(n - 1)] + [(X(a), X(b)) for a, b in edges]
    else:
        bonds = [(X(a), X(b)) for a, b in edges] + [(Y(a), Y(b)) for a, b in edges]
    ag = nx.Graph()
    ag.add_nodes_from(range(1, 2 * n + 1))
    ag.add_edges_from(bonds)
    atoms_connected = nx.is_connected(ag)
    rg = nx.Graph()
    rg.add_nodes_from(range(n))
    rg.add_edges_from(edges)
    res_connected = nx.is_connected(rg)
    d = os.path.join(scratch, "top_%05d" % jid)
    top_path = write_top(d, n, bonds)
    inputs = {"residues": n, "residue_edges": [list(e) for e in edges], "variant": variant, "atom_bonds": [list(b) for b in bonds]}
    out = {"violations": [], "nontrivial": int(not atoms_connected), "evaluations": 1}
    try:
        top = topm.Topology.from_gmx_topfile(name="t", path=Path(top_path))
        top.preprocess()
        try:
            gc._check_molecules(top.molecules)
            raised = False
        except IOError:
            raised = True
        if raised == res_connected:
            out["violations"].append(("c10-check-molecules", "_check_molecules %s a molecule whose residue graph is %s"
                                      % ("raises for" if raised else "accepts", "connected" if res_connected else "disconnected"), inputs, ""))
        if run_gen_coords:
            out["evaluations"] += 1
            np.random.seed(seed)
            gro = os.path.join(d, "out.gro")
            try:
                gc.gen_coords(Path(top_path), Path(gro), "t", box=np.array([6.0, 6.0, 6.0]))
                built = os.path.exists(gro)
            except Exception as e:                            # noqa: BLE001
                built = False
                if atoms_connected:
                    out["violations"].append(("c10-gen-coords-refuses-connected", "gen_coords raised %s: %s for a molecule whose atoms are all connected"
                                              % (type(e).__name__, str(e)[:200]), inputs, ""))
            if built and not atoms_connected:
                out["violations"].append(("c10-gen-coords-builds-atom-disconnected-molecule" if res_connected else
                                          "c10-gen-coords-builds-residue-disconnected-molecule",
                                          "gen_coords wrote coordinates for a molecule whose atoms are not all connected (residue graph %s; _check_molecules %s)"
                                          % ("connected" if res_connected else "disconnected", "raised" if raised else "accepted"), inputs,
                                          "atom components: %s" % [sorted(c) for c in nx.connected_components(ag)]))
    except Exception as e:                                    # noqa: BLE001
        out["violations"].append(("c10-topology-crash-%s" % type(e).__name__, "%s: %s" % (type(e).__name__, str(e)[:300]), inputs, ""))
    shutil.rmtree(d, ignore_errors=True)
    return out


# molecule types of the multi-molecule topologies: (residues, residue edges); every residue has X-Y, every residue edge Y_u - X_v
MULTI_TYPES = {"MC": (2, [(0, 1)]), "MP": (3, [(0, 1), (1, 2)]), "MD": (2, []), "ME": (3, [(0, 1)])}
MULTI_DISCONNECTED = ("MD", "ME")


def multi_entries(thorough):
    """every [ molecules ] list of 1..3 entries over the molecule types x counts {1,2} (the same type may be repeated in
    adjacent entries), i.e. the residue-graph-disconnected type at every position, after every prefix"""
    types = ("MC", "MP", "MD", "ME") if thorough else ("MC", "MP", "MD")
    out = []
    for length in (1, 2, 3):
        for seq in itertools.product(types, repeat=length):
            for counts in itertools.product((1, 2), repeat=length):
                out.append(list(zip(seq, counts)))
    return out


def write_multi_top(dirname, entries):
    os.makedirs(dirname, exist_ok=True)
    with open(os.path.join(dirname, "mols.itp"), "w") as fh:
        for name, (n, edges) in MULTI_TYPES.items():
            atoms = []
            for r in range(n):
                atoms.append("%d P1 %d A X %d 0.0 72.0" % (2 * r + 1, r + 1, 2 * r + 1))
                atoms.append("%d P1 %d A Y %d 0.0 72.0" % (2 * r + 2, r + 1, 2 * r + 2))
            bonds = [(2 * r + 1, 2 * r + 2) for r in range(n)] + [(2 * a + 2, 2 * b + 1) for a, b in edges]
            fh.write("[ moleculetype ]\n%s 1\n[ atoms ]\n" % name + "\n".join(atoms) + "\n[ bonds ]\n"
                     + "\n".join("%d %d 1 0.35 1000" % b for b in bonds) + "\n\n")
    with open(os.path.join(dirname, "sys.top"), "w") as fh:
        fh.write('[ defaults ]\n1 1 no 1.0 1.0\n[ atomtypes ]\nP1 72.0 0.0 A 0.47 4.0\n#include "mols.itp"\n[ system ]\ntest\n[ molecules ]\n'
                 + "".join("%s %d\n" % e for e in entries))
    return os.path.join(dirname, "sys.top")


def c10_multi_job(args):
    """one topology with several [ molecules ] entries: _check_molecules(topology.molecules) must raise iff SOME molecule's
    residue graph is disconnected, wherever it stands in the list; gen_coords end to end on a stated subset"""
    import numpy as np
    import sys
    import functools
    jid, entries, run_gen_coords, scratch, seed = args
    gc = load("polyply.src.gen_coords")
    topm = load("polyply.src.topology")
    for mname, mod in list(sys.modules.items()):             # silence progress bars only (same iteration)
        if mname.startswith("polyply") and getattr(getattr(mod, "tqdm", None), "__name__", "") == "tqdm":
            mod.tqdm = functools.partial(mod.tqdm, disable=True)
    expanded = [name for name, count in entries for _ in range(count)]
    bad_positions = [i for i, name in enumerate(expanded) if name in MULTI_DISCONNECTED]
    must_raise = bool(bad_positions)
    d = os.path.join(scratch, "mtop_%05d" % jid)
    top_path = write_multi_top(d, entries)
    inputs = {"molecules": ["%s %d" % e for e in entries],
              "types": {k: {"residues": v[0], "residue_edges": [list(e) for e in v[1]]} for k, v in MULTI_TYPES.items() if k in expanded}}
    out = {"violations": [], "evaluations": 1, "gen_coords": 0,
           "nontrivial": int(must_raise and bad_positions[0] > 0)}          # a disconnected molecule that is NOT the first one
    try:
        top = topm.Topology.from_gmx_topfile(name="t", path=Path(top_path))
        top.preprocess()
        if len(top.molecules) != len(expanded):
            out["violations"].append(("c10-topology-molecule-count", "topology has %d molecules, [ molecules ] lists %d" % (len(top.molecules), len(expanded)), inputs, ""))
        try:
            gc._check_molecules(top.molecules)
            raised = False
        except IOError:
            raised = True
        if raised != must_raise:
            what = ("_check_molecules accepts a topology whose molecule(s) at position(s) %s of %d have a disconnected residue graph"
                    % ([i + 1 for i in bad_positions], len(expanded))) if must_raise else \
                "_check_molecules raises for a topology in which every molecule's residue graph is connected"
            out["violations"].append(("c10-check-molecules", what, inputs, "molecule list: %s" % expanded))
        if run_gen_coords:
            out["evaluations"] += 1
            out["gen_coords"] = 1
            np.random.seed(seed)
            gro = os.path.join(d, "out.gro")
            try:
                gc.gen_coords(Path(top_path), Path(gro), "t", box=np.array([8.0, 8.0, 8.0]))
                built = os.path.exists(gro)
            except Exception as e:                            # noqa: BLE001
                built = False
                if not must_raise:
                    out["violations"].append(("c10-gen-coords-refuses-connected", "gen_coords raised %s: %s for a topology whose molecules are all connected"
                                              % (type(e).__name__, str(e)[:200]), inputs, ""))
            if built and must_raise:
                out["violations"].append(("c10-gen-coords-builds-residue-disconnected-molecule",
                                          "gen_coords wrote coordinates for a topology whose molecule(s) at position(s) %s of %d have a disconnected residue graph "
                                          "(_check_molecules %s)" % ([i + 1 for i in bad_positions], len(expanded), "raised" if raised else "accepted"),
                                          inputs, "molecule list: %s" % expanded))
    except Exception as e:                                    # noqa: BLE001
        out["violations"].append(("c10-topology-crash-%s" % type(e).__name__, "%s: %s" % (type(e).__name__, str(e)[:300]), inputs, ""))
    shutil.rmtree(d, ignore_errors=True)
    return out


def run_c10(ctx, res):
    import multiprocessing as mp
    scratch = tempfile.mkdtemp(prefix="b_links10_", dir="/var/tmp")
    try:
        nmax = 5 if ctx.thorough else 4
        worlds = graph_worlds(nmax, ctx.seed)
        paths = write_world_files(scratch, worlds, "g")
        specs = c10_specs(ctx.thorough)
        jobs = [(jid, spec, worlds, paths, scratch) for jid, spec in enumerate(specs)]
        tjobs = []
        for g in nx.graph_atlas_g():
            n = g.number_of_nodes()
            if 1 <= n <= nmax:
                edges = sorted(tuple(sorted(e)) for e in g.edges)
                for variant in ("full", "isolated", "strands"):
                    if variant == "strands" and n < 2:
                        continue
                    tjobs.append((len(tjobs), n, edges, variant, n <= (4 if ctx.thorough else 3), scratch, ctx.seed))
        mjobs = []
        for entries in multi_entries(ctx.thorough):
            expanded = [name for name, count in entries for _ in range(count)]
            # gen_coords end to end: every list of <= 2 entries with counts 1, and every 3-entry list with counts 1 that holds at most one
            # disconnected molecule (the disconnected type first / in the middle / last, also after a repeated connected type)
            e2e_run = all(c == 1 for _, c in entries) and (len(entries) <= 2 or sum(n in MULTI_DISCONNECTED for n in expanded) <= 1) \
                and (ctx.thorough or "ME" not in expanded)
            mjobs.append((len(mjobs), entries, e2e_run, scratch, ctx.seed))
        with mp.Pool(min(16, os.cpu_count() or 1)) as pool:
            outs = pool.map(c10_job, jobs, chunksize=1)
            touts = pool.map(c10_top_job, tjobs, chunksize=2)
            mouts = pool.map(c10_multi_job, mjobs, chunksize=4)
        viols, counts, e2e = {}, {}, 0
        for o in outs:
            res.evaluations += o["evaluations"]
            res.nontrivial += o["nontrivial"]
            e2e += o["end_to_end"]
            for k, n in o["counts"].items():
                counts[k] = counts.get(k, 0) + n
            for v in o["violations"]:
                viols.setdefault(v[0], []).append(v)
            for smp in o["samples"]:
                if len(res.samples) < 3:
                    res.samples.append(smp)
        n_top = 0
        for o in touts:
            res.evaluations += o["evaluations"]
            res.nontrivial += o["nontrivial"]
            n_top += 1
            for v in o["violations"]:
                counts[v[0]] = counts.get(v[0], 0) + 1
                viols.setdefault(v[0], []).append(v)
        n_multi = n_multi_gc = n_multi_late = 0
        for o in mouts:
            res.evaluations += o["evaluations"]
            res.nontrivial += o["nontrivial"]
            n_multi += 1
            n_multi_gc += o["gen_coords"]
            n_multi_late += o["nontrivial"]
            for v in o["violations"]:
                counts[v[0]] = counts.get(v[0], 0) + 1
                viols.setdefault(v[0], []).append(v)
        for k in viols:
            viols[k].sort(key=lambda v: len(json.dumps(v[2], default=str)))
        rank = sorted(viols, key=lambda k: (k == "c10-gen-coords-builds-atom-disconnected-molecule", k))
        picked = [viols[k][0] for k in rank][:5]
        for k in rank:
            for v in viols[k][1:2]:
                if len(picked) < 5:
                    picked.append(v)
        for key, what, inputs, detail in picked:
            res.violations.append(Violation("c10-edges-or-warning", what + "  [%d worlds in this class]" % counts.get(key, 1), inputs=inputs,
                                            detail=detail, replayed=True, finding_key=key))
        res.bound = ("EXHAUSTIVE: %d force fields (no link; each of 8 links: +1 / > / name-restricted bonds, 3-residue angle, edges-only, pair-only "
                     "(no bond edge), -1 bond, triangle; every pair of them%s; 3 monomer-.itp worlds with dangling bonds/angles; 1 mixed) x every connected "
                     "residue graph on <= %d nodes x resnames over {A,B} x {resids in node order, one seeded shuffle} = %d graph worlds; gen_params end to "
                     "end with captured log records on every world with <= 3 residues and every 5th larger one (%d runs).  Connectivity gate: %d "
                     "topologies written to .top/.itp files = every graph (connected or not) on <= %d residues x {all atoms connected, one isolated atom, "
                     "two parallel strands}: _check_molecules on all, gen_coords end to end on those with <= %d residues.  Multi-molecule gate: %d topologies "
                     "= every [ molecules ] list of 1..3 entries over %d molecule types (connected 2- and 3-residue chains, residue-graph-disconnected "
                     "ones) x counts {1,2} per entry (same type may repeat): Topology.from_gmx_topfile + preprocess + _check_molecules on all (%d of them "
                     "have their first disconnected molecule NOT in first position), gen_coords end to end on %d"
                     % (len(specs), ", every triple" if ctx.thorough else "", nmax, len(worlds), e2e, n_top, nmax, 4 if ctx.thorough else 3,
                        n_multi, 4 if ctx.thorough else 3, n_multi_late, n_multi_gc))
        res.rule = ("world = (force-field files, residue graph): after MapToMolecule + ApplyLinks the atom-level edges between every two residues are "
                    "recounted from meta.molecule.edges and the atoms' resid; each residue-graph edge must be realised XOR reported by "
                    "find_missing_edges (exactly once, right names), nothing else reported; gen_params must log exactly one warning per missing pair. "
                    "Non-trivial iff the world has at least one realised AND at least one missing residue edge; a single-molecule topology is non-trivial "
                    "iff its atoms are not all connected; a multi-molecule topology is non-trivial iff it holds a residue-graph-disconnected molecule that is "
                    "not the first molecule.  _check_molecules must raise iff SOME molecule of the list has a disconnected residue graph; gen_coords must "
                    "refuse molecules whose atoms are not all connected")
        res.exhaustive = True
        res.assumptions.append("bounded: resids contiguous; the missing-link report is observed through the real logging path of gen_params on a stated subset")
    finally:
        shutil.rmtree(scratch, ignore_errors=True)


UNITS = [BUnit("c02-link-instances", run_c02), BUnit("c10-edges-or-warning", run_c10)]

"""development driver for bounded units:  ./run py -m bounded.devrun <module> [--tier thorough] [--seed N]
runs module.UNITS (list of vlib.framework.BUnit) outside the evidence machinery and prints what they found"""
import argparse
import importlib
import json
import time
from vlib.framework import Ctx

ap = argparse.ArgumentParser()
ap.add_argument("module")
ap.add_argument("--tier", default="quick")
ap.add_argument("--seed", type=int, default=0)
ap.add_argument("--only", default=None)
a = ap.parse_args()
mod = importlib.import_module(f"bounded.{a.module}")
ctx = Ctx("dev", a.tier, a.seed)
for u in mod.UNITS:
    if a.only and u.name != a.only:
        continue
    t0 = time.time()
    r = u.run(ctx)
    print(f"== {u.name}: evaluations={r.evaluations} nontrivial={r.nontrivial} violations={len(r.violations)} wall={time.time()-t0:.1f}s")
    print("   bound:", r.bound)
    print("   rule:", r.rule)
    for s in r.samples[:2]:
        print("   sample:", json.dumps(s, default=str)[:300])
    for v in r.violations[:5]:
        print("   VIOLATION", v.finding_key, "|", v.what[:500])

"""Tier B for C08 (a topology is read as its flattened equivalent) and C09 (parameters are resolved as GROMACS
preprocessing would resolve them): executable contracts on the REAL Topology.from_gmx_topfile / Topology.preprocess
over exhaustively enumerated small families of generated .top/.itp files.  Bounded stand-in; never counted as proved.
Oracles (flatten, the bonded resolver, the non-bonded expectations) are written from the property statements."""
import itertools
import os
import random
import shutil
import tempfile
from vlib.realcode import load
from vlib.framework import BUnit, Violation

M = "FLEX"          # the macro tested by the conditionals around #include / #error
TG = "TGUARD"       # a macro that only guards table / interaction lines (kept as text by flatten)


# ------------------------------------------------------------------------------------------------ observation
def obs_graph(g):
    return {"nrexcl": getattr(g, "nrexcl", None),
            "nodes": [(k, dict(a)) for k, a in g.nodes(data=True)],
            "edges": sorted(tuple(sorted(e)) for e in g.edges),
            "interactions": {t: [(tuple(i.atoms), list(i.parameters), dict(i.meta)) for i in lst]
                             for t, lst in g.interactions.items() if lst}}


def obs(top):
    types, guards = {}, {}
    for it, tab in top.types.items():
        t = {k: [list(p) for p, _ in v] for k, v in tab.items() if v}
        if t:
            types[it] = t
            guards[it] = {k: [None if m is None else dict(m) for _, m in v] for k, v in tab.items() if v}
    return {"defaults": dict(top.defaults),
            "atom_types": {k: dict(v) for k, v in top.atom_types.items()},
            "types": types, "type_guards": guards,
            "defines": {k: (list(v) if isinstance(v, list) else v) for k, v in top.defines.items()},
            "nonbond_params": {tuple(sorted(k)): dict(v) for k, v in top.nonbond_params.items()},
            "moleculetypes": {n: obs_graph(b) for n, b in top.force_field.blocks.items()},
            "molecules": [(m.mol_name, obs_graph(m.molecule),
                           [(n, d.get("resname"), d.get("resid")) for n, d in m.nodes(data=True)],
                           sorted(tuple(sorted(e)) for e in m.edges)) for m in top.molecules],
            "mol_idx_by_name": {k: list(v) for k, v in top.mol_idx_by_name.items() if v}}


def diff_keys(a, b):
    return [k for k in a if a[k] != b[k]]


def short(x, n=400):
    s = repr(x)
    return s if len(s) <= n else s[:n] + "..."


def try_read(T, path):
    try:
        return T.Topology.from_gmx_topfile(path, "w"), None
    except Exception as e:      # noqa: BLE001  (any abort of reading is an observation)
        return None, e


# ------------------------------------------------------------------------------------------------ C08 oracle
class NotTextual(Exception):
    """the purely textual inlining would leave the grammar polyply reads (nested conditional / moleculetype under a guard)"""


def _code(raw):
    return raw.split(";", 1)[0].strip()


def _word(code):
    return code.split()[0] if code else ""


def flatten(path, defines, mode, st):
    """The single file of the C08 statement.  Every #include whose enclosing #ifdef/#ifndef/#else condition holds for
    the macros defined (outside conditionals) before that point - in reading order, across files - is replaced by the
    flattened text of the file it names, resolved relative to the directory of the including file.
    mode 'resolved': a conditional that encloses an #include/#error is replaced by its active branch (inactive branch
                     dropped); mode 'textual': its lines stay as text, inactive #include lines are deleted.
    Conditionals that enclose only table / interaction lines are text in both modes.  An #error whose branch is active
    ends reading: st['abort'] is set and nothing after it is emitted."""
    here = os.path.dirname(path)
    with open(path) as fh:
        raws = fh.read().splitlines()
    out = []

    def line(raw, guarded):
        code = _code(raw)
        w = _word(code)
        if w == "#include":
            child = os.path.normpath(os.path.join(here, code.split()[1].strip('"')))
            sub = flatten(child, defines, mode, st)
            if guarded and mode == "textual" and any(_word(_code(s)).startswith(("#if", "#else", "#endif")) or
                                                     _code(s).strip("[ ]").lower() == "moleculetype" and _code(s).startswith("[")
                                                     for s in sub):
                raise NotTextual()
            out.extend(sub)
            return
        if w == "#define" and not guarded:
            defines.add(code.split()[1])
        if w == "#error":
            st["abort"] = code[7:]
        out.append(raw)

    i = 0
    while i < len(raws) and st["abort"] is None:
        raw = raws[i]
        code = _code(raw)
        w = _word(code)
        if w not in ("#ifdef", "#ifndef"):
            i += 1
            line(raw, False)
            continue
        j = i + 1
        while _code(raws[j]) != "#endif":       # conditionals do not nest inside one file
            j += 1
        block, i = raws[i:j + 1], j + 1
        if not any(_word(_code(b)) in ("#include", "#error") for b in block):
            out.extend(block)
            continue
        tag = code.split()[1]
        holds = was_defined = (tag in defines) == (w == "#ifdef")     # decided here, once (preprocessor semantics)
        if mode == "textual":
            out.append(raw)
        for b in block[1:-1]:
            bw = _word(_code(b))
            if bw in ("#else", "#include", "#error"):   # did text read inside this conditional define the macro it tests?
                st["tested_macro_defined_in_branch"] |= ((tag in defines) == (w == "#ifdef")) != was_defined
            if bw == "#else":
                holds = not holds
                if mode == "textual":
                    out.append(b)
                continue
            if bw == "#include":
                st["cond_includes"] += 1
                st["cond_active"] += int(holds)
            if holds:
                line(b, True)
                if st["abort"] is not None:
                    return out
            elif mode == "textual" and bw != "#include":
                out.append(b)
        if mode == "textual":
            out.append(block[-1])
    return out


def run_flatten(root, mode):
    st = {"abort": None, "cond_includes": 0, "cond_active": 0, "tested_macro_defined_in_branch": False}
    return flatten(root, set(), mode, st), st


# ------------------------------------------------------------------------------------------------ C08 worlds
SINGLE = ["plain"] + [(k, f) for k in ("ifdef", "ifndef") for f in ("inc", "inc|", "inc|err", "|inc", "err|inc")]
PAIR = [(k, f) for k in ("ifdef", "ifndef") for f in ("inc1|inc2", "inc1 inc2")]
DEFS = ["none", "before", "before_val", "after", "between", "child_top", "child_end"]
SHAPES_Q = [(None, 0), (None, 0, 1), (None, 0, 0)]
SHAPES_T = SHAPES_Q + [(None, 0, 1, 2), (None, 0, 1, 1), (None, 0, 1, 0), (None, 0, 0, 2), (None, 0, 0, 0)]


def guard_layouts(cs):
    """every way to wrap the includes of the children cs (kept in order) into plain lines / conditional blocks"""
    if not cs:
        return [()]
    res = []
    for g in SINGLE:
        for tail in guard_layouts(cs[1:]):
            res.append((("one", g, cs[0]),) + tail)
    if len(cs) > 1:
        for g in PAIR:
            for tail in guard_layouts(cs[2:]):
                res.append((("two", g, cs[0], cs[1]),) + tail)
    return res


def block_lines(blk, incpath):
    """text of one block of a guard layout"""
    if blk[0] == "one":
        _, g, c = blk
        inc = [f'#include "{incpath(c)}"']
        if g == "plain":
            return inc
        kind, form = g
        then, els = {"inc": (inc, None), "inc|": (inc, []), "inc|err": (inc, [f"#error no {c}"]),
                     "|inc": ([], inc), "err|inc": ([f"#error not with {c}"], inc)}[form]
    else:
        _, (kind, form), c1, c2 = blk
        i1, i2 = [f'#include "{incpath(c1)}"'], [f'#include "{incpath(c2)}"']
        then, els = (i1, i2) if form == "inc1|inc2" else (i1 + i2, None)
    return [f"#{kind} {M}"] + then + (["#else"] + els if els is not None else []) + ["#endif"]


def noisify(lines, style, rng):
    """comment / blank-line / whitespace noise (bits 1, 2, 4) that the statement says reading is independent of"""
    if not style:
        return list(lines)
    out = []
    for ln in lines:
        if style & 1 and rng.random() < 0.3:
            out.append(rng.choice(['; #include "nope.itp"', "; #define " + M, ";", "   ; [ moleculetype ]", "; #endif"]))
        if style & 2 and rng.random() < 0.3:
            out.append(rng.choice(["", "   ", "\t"]))
        if style & 4:
            if ln.startswith("["):
                name = ln.strip("[ ]")
                ln = rng.choice([f"[{name}]", f"[  {name}  ]", f"[ {name}]"])
            elif not ln.startswith("#error"):
                ln = rng.choice([" ", "\t", "   "]).join(ln.split())
            ln = rng.choice(["", "  ", "\t"]) + ln + rng.choice(["", "  ", "\t "])
        if style & 1 and rng.random() < 0.4:
            ln = ln + rng.choice([" ; note", ";x", "  ; #else"])
        out.append(ln)
    return out


MOL_A_SECTIONS = {
    "bonds": ["[ bonds ]", "1 2 1 0.47 1250", f"#ifdef {TG}", "2 3 1 0.37 7000", "#else", "2 3 1", "#endif", "3 4 1"],
    "angles": ["[ angles ]", "1 2 3 2 120 50", "2 3 4 2"],
    "dihedrals": ["[ dihedrals ]", "1 2 3 4 9", f"#ifndef {TG}", "1 2 3 4 1 0 1.5 3", "#endif"],
    "exclusions": ["[ exclusions ]", "1 4"]}


def mol_a(order):
    lines = ["[ moleculetype ]", "A 1", "[ atoms ]", "1 P 1 RA a1 1 0.0 72.0", "2 Q 1 RA a2 1 0.0 72.0",
             "3 Q 2 RB a3 2 0.5", "4 P 2 RB a4 2"]
    for s in order:
        lines += MOL_A_SECTIONS[s]
    return lines


MOL_B = ["[ moleculetype ]", "B 2", "[ atoms ]", "1 Q 1 RC b1 1 -1.0", "2 P 1 RC b2 1 1.0", "#define INB 0.31 900",
         "[ bonds ]", "1 2 1 INB"]

ROOT_TABLES = {
    "BT": ["[ bondtypes ]", "P Q 1 0.47 1250", "Q Q 1 0.37 7000", f"#ifdef {TG}", "P P 1 0.3 500", "#else", "P P 1 0.33 400", "#endif"],
    "ANG": ["[ angletypes ]", "P Q Q 2 120 50"],
    "DT": ["[ dihedraltypes ]", "P Q Q P 9 180 5 1", "P Q Q P 9 0 2 2", "X Q Q X 9 0 1 3"],
    "NB": ["[ nonbond_params ]", "P Q 1 0.0011 0.0000011"]}
ROOT_AT = ["[ atomtypes ]", "P 72.0 0.0 A 0.001 0.000001", "Q 36.0 0.0 A 0.002 0.000004"]


def child_pieces(i, guard_tables):
    bt = ["[ bondtypes ]", f"X{i} P 1 0.{i} 10{i}"]
    if guard_tables:
        bt += [f"#ifdef {TG}", f"X{i} Q 1 0.2{i} 30{i}", "#endif"]
    return {"AT": ["[ atomtypes ]", f"X{i} 1{i}.0 0.0 A 0.00{i} 0.00000{i}"],
            "BT": bt,
            "DT": ["[ dihedraltypes ]", f"X{i} P Q X{i} 9 180 {i} 1", f"X{i} P Q X{i} 9 0 {i} 2"],
            "NB": ["[ nonbond_params ]", f"X{i} X{i} 1 0.0{i} 0.0{i}5"],
            "DEF": [f"#define D{i} 0.{i} 20{i}"]}


def mol_e(i):
    return ["[ moleculetype ]", f"E{i} 1", "[ atoms ]", f"1 P 1 RE e1 1", f"2 Q 1 RE e2 1", "[ bonds ]", f"1 2 1 D{i}"]


DECOY = ["[ atomtypes ]", "DECOY 1.0 0.0 A 0.5 0.5", "#define DECOY_READ"]


def tree_paths(shape, sub):
    """relative path of every file; file i lives in the directory of its parent, or in a new sub-directory of it"""
    dirs, paths = {0: ""}, {0: "sys.top"}
    for i in range(1, len(shape)):
        d = dirs[shape[i]]
        if sub[i - 1]:
            d = os.path.join(d, f"d{i}")
        dirs[i] = d
        paths[i] = os.path.join(d, f"f{i}.itp")
    return dirs, paths


def build_tree(base, w, mollist, style):
    """writes the include tree of world w under `base`; returns the path of the top file"""
    shape, sub, guards, dplace, rep, sec = w["shape"], w["sub"], w["guards"], w["define"], w["rep"], w["sec"]
    n = len(shape)
    rng = random.Random(sec["seed"])
    dirs, paths = tree_paths(shape, sub)
    children = {p: [i for i in range(1, n) if shape[i] == p] for p in range(n)}
    mol_file = n - 1 if sec["last_is_mol"] else None
    on_mol_path = set()
    k = mol_file
    while k:
        on_mol_path.add(k)
        k = shape[k]

    def incpath(p):
        return lambda c: os.path.relpath(paths[c], dirs[p] or ".")

    def include_blocks(p):
        """(blocks, index of the first block that reads a moleculetype or None); parameter tables stay before moleculetypes:
        a repeated include of a table file is put before the block that leads to the moleculetype file"""
        blocks, first_mol = [], None
        for blk in guards.get(p, ()):
            leads_to_mol = bool(on_mol_path & set(blk[2:]))
            again = [f'#include "{incpath(p)(rep[1])}"'] if rep and rep[0] == "parent" and rep[1] in blk[2:] else None
            if again and leads_to_mol and rep[1] != mol_file:
                blocks.append(again)
                again = None
            if leads_to_mol and first_mol is None:
                first_mol = len(blocks)
            blocks.append(block_lines(blk, incpath(p)))
            if again:
                blocks.append(again)
        if p == 0 and rep and rep[0] == "root":
            again = [f'#include "{paths[rep[1]]}"']
            if first_mol is not None and rep[1] != mol_file:
                blocks.insert(first_mol, again)
                first_mol += 1
            else:
                blocks.append(again)
        return blocks, first_mol

    def interleave(pieces, blocks_first):
        """include blocks keep their order and go between section pieces (every piece starts with a header, so the
        line after an include is a header); blocks from the one that leads to the moleculetype file on go last"""
        blocks, first_mol = blocks_first
        slots = sorted(rng.randrange(len(pieces) + 1) for _ in blocks)
        if first_mol is not None:
            slots = slots[:first_mol] + [len(pieces)] * (len(blocks) - first_mol)
        out, bi = [], 0
        for k, piece in enumerate(pieces + [[]]):
            while bi < len(blocks) and slots[bi] == k:
                out.append(("blk", blocks[bi]))
                bi += 1
            if piece:
                out.append(("piece", piece))
        return out

    files = {}
    # ---- top file
    lines = ["; bounded world"]
    if dplace in ("before", "before_val"):
        lines.append(f"#define {M}" + (" 1" if dplace == "before_val" else ""))
    pieces = [["[ defaults ]", sec["defaults"]], ROOT_AT] + [ROOT_TABLES[t] for t in sec["order"]]
    seen_blk = 0
    for kind, item in interleave(pieces, include_blocks(0)):
        lines += item
        if kind == "blk":
            seen_blk += 1
            if seen_blk == 1 and dplace == "between":
                lines.append(f"#define {M}")
    if dplace == "after":
        lines.append(f"#define {M}")
    lines += mol_a(sec["mol_order"])
    if not sec["b_in_child"]:
        lines += MOL_B
    lines += ["[ system ]", "bounded world", "[ molecules ]"] + [f"{nm} {cnt}" for nm, cnt in mollist]
    files[paths[0]] = lines
    # ---- included files
    for i in range(1, n):
        lines = [f"; file {i}"]
        if i == 1 and dplace == "child_top":
            lines.append(f"#define {M}")
        if i == mol_file:
            body = [("piece", [f"#define D{i} 0.{i} 20{i}"])]
            tail = mol_e(i) + (MOL_B if sec["b_in_child"] else [])
        else:
            cp = child_pieces(i, sec["guard_tables"])
            names = list(cp)
            rng.shuffle(names)
            body = interleave([cp[k] for k in names], include_blocks(i))
            tail = []
        for _, item in body:
            lines += item
        lines += tail
        if i == 1 and dplace == "child_end":
            lines.append(f"#define {M}")
        files[paths[i]] = lines
    # ---- decoys: every other place where a file of these names could be looked for holds a decoy
    texts = {rel: "\n".join(noisify(lines, style, rng)) + "\n" for rel, lines in files.items()}
    for rel in all_paths(4 if n > 3 else 3):
        texts.setdefault(rel, "\n".join(DECOY) + "\n")
    put_files(base, texts)
    return os.path.join(base, paths[0])


def all_paths(nfiles):
    """every place a file f1..f{nfiles-1}.itp can have in a world of this size"""
    ids = range(1, nfiles)
    dirs = [""] + [os.path.join(*[f"d{k}" for k in c]) for r in ids for c in itertools.combinations(ids, r)]
    return [os.path.join(d, f"f{i}.itp") for d in dirs for i in ids]


_WRITTEN = {}


def put_files(base, texts):
    """(over)writes files below `base`; the per-process directory is reused between worlds because deleting is slow
    on this file system - every path a world could resolve to is rewritten (real text or decoy) for every world"""
    for rel, text in texts.items():
        full = os.path.join(base, rel)
        if _WRITTEN.get(full) == text:
            continue
        if full not in _WRITTEN:
            os.makedirs(os.path.dirname(full), exist_ok=True)
        data = text.encode()
        fd = os.open(full, os.O_WRONLY | os.O_CREAT, 0o644)     # no O_TRUNC: truncate-then-write forces a flush on ext4
        os.write(fd, data)
        os.ftruncate(fd, len(data))
        os.close(fd)
        _WRITTEN[full] = text


def write_flat(base, name, lines):
    put_files(base, {os.path.join("_flat", name): "\n".join(lines) + "\n"})
    return os.path.join(base, "_flat", name)


def moltypes_in(lines):
    names, take = [], False
    for ln in lines:
        c = _code(ln)
        if not c:
            continue
        if take:
            names.append(c.split()[0])
            take = False
        elif c.startswith("[") and c.strip("[ ]").lower() == "moleculetype":
            take = True
    return names


def pick_mollist(w, avail):
    if w["sec"].get("mollist") is not None:
        return [(avail[k % len(avail)], c) for k, c in w["sec"]["mollist"]]
    rng = random.Random(w["sec"]["seed"] + 7)
    return [(rng.choice(avail), rng.randint(1, 3)) for _ in range(rng.randint(1, 4))]


def check_instances(top, mollist):
    """molecule list = [molecules] expanded in order with the stated counts; every instance an independent copy"""
    want = [nm for nm, cnt in mollist for _ in range(cnt)]
    got = [m.mol_name for m in top.molecules]
    if got != want:
        return "c08-molecule-list", f"molecule list {got}, [molecules] expands to {want}"
    idx = {nm: [k for k, x in enumerate(want) if x == nm] for nm in set(want)}
    if {k: list(v) for k, v in top.mol_idx_by_name.items() if v} != idx:
        return "c08-molecule-list", f"mol_idx_by_name {dict(top.mol_idx_by_name)}, expected {idx}"
    mols = [m.molecule for m in top.molecules]
    if len({id(m) for m in mols}) != len(mols) or len({id(m) for m in top.molecules}) != len(mols):
        return "c08-instance-independence", f"molecule instances share an object: ids {[id(m) for m in mols]} for {want}"
    for k, m in enumerate(top.molecules):
        blk = obs_graph(top.force_field.blocks[m.mol_name])
        me = obs_graph(m.molecule)
        same = (me["interactions"] == blk["interactions"] and me["edges"] == blk["edges"] and len(me["nodes"]) == len(blk["nodes"])
                and all(all(a.get(x) == v for x, v in b.items()) for (_, a), (_, b) in zip(me["nodes"], blk["nodes"])))
        if not same:
            return "c08-instance-copy", f"instance {k} ({m.mol_name}) differs from its molecule type: {short(me)} vs {short(blk)}"
    if len(mols) < 2:
        return None
    before = [(obs_graph(m.molecule), list(m.nodes(data=True))) for m in top.molecules]
    for k, m in enumerate(top.molecules):
        first = next(iter(m.molecule.nodes))
        m.molecule.nodes[first]["bounded_mark"] = k
        for lst in m.molecule.interactions.values():
            lst.append("sentinel")
        m.molecule.interactions["bounded_new"] = ["sentinel"]
        m.nodes[next(iter(m.nodes))]["bounded_mark"] = k
        for j, o in enumerate(top.molecules):
            if j != k and (obs_graph(o.molecule), list(o.nodes(data=True))) != before[j]:
                return "c08-instance-independence", (f"mutating instance {k} ({want[k]}) shows in instance {j} ({want[j]}) "
                                                     f"of [molecules] {mollist}")
        del m.molecule.nodes[first]["bounded_mark"], m.molecule.interactions["bounded_new"], m.nodes[next(iter(m.nodes))]["bounded_mark"]
        for lst in m.molecule.interactions.values():
            lst.pop()
    return None


def compare(T, root, flat_lines, abort, base, name, key, out, guard_key=None, err_key="c08-error-abort"):
    """obs(read(tree)) == obs(read(flattened)), and reading aborts exactly when an #error is active"""
    flat = write_flat(base, name, flat_lines)
    t_top, t_err = try_read(T, root)
    f_top, f_err = try_read(T, flat)
    if abort is not None:
        if t_err is None:
            out.append((err_key, f"active '#error {abort}' did not abort reading the include tree", ""))
        if f_err is None:
            out.append((err_key, f"active '#error {abort}' did not abort reading the flattened file", ""))
        return None
    if isinstance(t_err, NotImplementedError) or isinstance(f_err, NotImplementedError):
        which = "include tree" if isinstance(t_err, NotImplementedError) else "flattened file"
        out.append((err_key, f"reading the {which} aborted with #error '{t_err or f_err}' although no #error branch is active", ""))
        return None
    if f_err is not None:
        out.append((key + "/flat-unreadable", f"flattened file is not read: {type(f_err).__name__}: {short(str(f_err), 200)}",
                    "\n".join(flat_lines)))
        return None
    if t_err is not None:
        out.append((key, f"include tree aborts with {type(t_err).__name__}: {short(str(t_err), 200)}; the flattened file is read",
                    "\n".join(flat_lines)))
        return None
    a, b = obs(t_top), obs(f_top)
    bad = diff_keys(a, b)
    if guard_key and bad == ["type_guards"]:
        out.append((guard_key, f"type guard annotations differ: tree {short(a['type_guards'], 300)} flattened {short(b['type_guards'], 300)}", ""))
    elif bad:
        k = bad[0]
        out.append((key, f"{bad} differ; {k}: tree {short(a[k], 300)} flattened {short(b[k], 300)}", "\n".join(flat_lines)))
    return t_top


def dump_tree(base):
    txt = []
    for dp, _, fns in sorted(os.walk(base)):
        for fn in sorted(fns):
            p = os.path.join(dp, fn)
            body = open(p).read()
            if "_flat" in dp or "_clean" in dp or body.startswith(DECOY[0] + "\n" + DECOY[1]):
                continue
            txt.append(f"=== {os.path.relpath(p, base)}\n{body}")
    return "\n".join(txt) + "\n(every other f*.itp path below the top directory holds a decoy)"


def c08_world(args):
    """worker: builds one world, evaluates the contract, returns (nontrivial, textual_compared, [(key, what, files)])"""
    scratch, idx, w = args
    T = load("polyply.src.topology")
    base = os.path.join(scratch, f"p{os.getpid()}")
    out = []
    builder = SPECIAL.get(w["fam"], build_tree)
    style = w["sec"].get("noise", 0)
    root = builder(base, w, [("A", 1)], style)
    flat, st = run_flatten(root, "resolved")
    avail = sorted(set(moltypes_in(flat))) if st["abort"] is None else ["A"]
    mollist = pick_mollist(w, avail)
    root = builder(base, w, mollist, style)
    flat, st = run_flatten(root, "resolved")
    key = w.get("key", "c08-flatten")
    if st["tested_macro_defined_in_branch"]:
        # outside the quantifier of C08: the statement speaks of macros "defined (outside conditionals) before that point";
        # a #define that sits (through an include) inside the conditional that tests it is not covered.  Lead's triage:
        # demanding a behaviour here would ask for more than the statement says, so these worlds are not evaluated.
        return False, 0, [], mollist
    top = compare(T, root, flat, st["abort"], base, "resolved.top", key, out, err_key=key if key != "c08-flatten" else "c08-error-abort")
    main_bad = bool(out)
    if top is not None and not main_bad:
        bad = check_instances(top, mollist)
        if bad:
            out.append((bad[0], bad[1], ""))
    textual = 0
    if not main_bad and st["abort"] is None:
        try:
            tflat, _ = run_flatten(root, "textual")
            if tflat != flat:
                textual = 1
                compare(T, root, tflat, None, base, "textual.top", key + "-textual", out, guard_key="F12-guard-meta-through-include")
        except NotTextual:
            pass
    if style and not main_bad and st["abort"] is None:
        clean = os.path.join(base, "_clean")
        croot = builder(clean, w, mollist, 0)
        cflat, _ = run_flatten(croot, "resolved")
        compare(T, root, cflat, None, base, "clean.top", "c08-noise-independence", out)
    nontrivial = st["cond_includes"] >= 1
    files = dump_tree(base) if out else ""
    return nontrivial, textual, [(k, what, files + ("\n=== flattened\n" + fl if fl else "")) for k, what, fl in out], mollist


# ---- small separate families for the known / suspected defects ------------------------------------------------
def build_f5(base, w, mollist, style):
    """an include at the end of moleculetype A (textually inside it) or after [ system ]"""
    pos, child, guard, dplace = w["pos"], w["child"], w["guard"], w["define"]
    content = {"posre": ["[ position_restraints ]", "1 1 1000 1000 1000"],
               "mol": ["[ moleculetype ]", "E1 1", "[ atoms ]", "1 P 1 RE e1 1"],
               "defs": ["#define FROM_CHILD 1.0 2.0"]}[child]
    blk = block_lines(("one", guard, 1), lambda c: "inc/child.itp")
    lines = ["[ defaults ]", "1 1 no", "[ atomtypes ]", "P 72.0 0.0 A 0.001 0.000001", "Q 36.0 0.0 A 0.002 0.000004"]
    if dplace == "before":
        lines.append(f"#define {M}")
    lines += ["[ moleculetype ]", "A 1", "[ atoms ]", "1 P 1 RA a1 1", "2 Q 1 RA a2 1"]
    if dplace == "inside":
        lines.append(f"#define {M}")
    lines += ["[ bonds ]", "1 2 1 0.47 1250"]
    if pos == "in_moleculetype":
        lines += blk
    lines += MOL_B + ["[ system ]", "bounded world"]
    if pos == "after_system":
        lines += blk
    lines += ["[ molecules ]"] + [f"{nm} {cnt}" for nm, cnt in mollist]
    put_files(base, {"sys.top": "\n".join(lines) + "\n", "inc/child.itp": "\n".join(content) + "\n"})
    return os.path.join(base, "sys.top")


def build_sc(base, w, mollist, style):
    """an included file that continues the section of the includer / an includer that continues after an include"""
    case, guarded = w["case"], w["guarded"]
    inc = ['#include "more.itp"']
    if guarded:
        inc = [f"#ifdef {M}"] + inc + ["#endif"]
    lines = [f"#define {M}", "[ defaults ]", "1 1 no", "[ atomtypes ]", "P 72.0 0.0 A 0.001 0.000001"]
    if case == "child_continues":
        lines += inc + ["Q 36.0 0.0 A 0.002 0.000004"]
        more = ["; continues [ atomtypes ] of the includer", "R 12.0 0.0 A 0.003 0.000009"]
    elif case == "child_continues_tables":
        lines += ["Q 36.0 0.0 A 0.002 0.000004", "[ bondtypes ]", "P Q 1 0.47 1250"] + inc + ["[ angletypes ]", "P Q P 2 120 50"]
        more = ["Q Q 1 0.37 7000"]
    else:       # parent_continues: the included file opens a new section, the includer goes on in it
        lines += ["Q 36.0 0.0 A 0.002 0.000004"] + inc + ["P Q 1 0.47 1250"]
        more = ["[ bondtypes ]", "Q Q 1 0.37 7000"]
    lines += ["[ moleculetype ]", "A 1", "[ atoms ]", "1 P 1 RA a1 1", "2 Q 1 RA a2 1", "[ bonds ]", "1 2 1"] + MOL_B
    lines += ["[ system ]", "bounded world", "[ molecules ]"] + [f"{nm} {cnt}" for nm, cnt in mollist]
    put_files(base, {"sys.top": "\n".join(lines) + "\n", "more.itp": "\n".join(more) + "\n"})
    return os.path.join(base, "sys.top")


SPECIAL = {"F5": build_f5, "SC": build_sc}


# ------------------------------------------------------------------------------------------------ C08 enumeration
def sec_default(seed, **kw):
    rng = random.Random(seed)
    order = ["BT", "ANG", "DT", "NB"]
    rng.shuffle(order)
    mo = list(MOL_A_SECTIONS)
    rng.shuffle(mo)
    sec = {"seed": seed, "order": order, "mol_order": mo, "noise": rng.choice([0, 0, 0, 0, 0, 0, 1, 2, 4, 7]),
           "last_is_mol": rng.random() < 0.5, "b_in_child": rng.random() < 0.5, "guard_tables": rng.random() < 0.5,
           "defaults": rng.choice(["1 1 yes 1.0 1.0", "1 2 no", "1 1", "1 3 yes 0.5 0.8333"]), "mollist": None}
    sec.update(kw)
    sec["b_in_child"] = sec["b_in_child"] and sec["last_is_mol"]
    return sec


def ancestors(shape, i):
    out = set()
    while shape[i]:
        i = shape[i]
        out.add(i)
    return out


def c08_worlds(ctx):
    worlds = []
    seed = ctx.seed * 1000003
    shapes = SHAPES_T if ctx.thorough else SHAPES_Q
    # family A: include-tree shape x directories x every conditional placement x #define placement x repeated include
    for shape in shapes:
        n = len(shape)
        children = {p: tuple(i for i in range(1, n) if shape[i] == p) for p in range(n)}
        parents = [p for p in range(n) if children[p]]
        for lay in itertools.product(*[guard_layouts(children[p]) for p in parents]):
            guards = dict(zip(parents, lay))
            guarded = sum(1 for l in lay for blk in l if blk[1] != "plain")
            if n == 4 and guarded > 2:
                continue
            for sub in itertools.product((0, 1), repeat=n - 1):
                for dplace in (DEFS if n < 4 else ("none", "before", "between", "child_end")):
                    reps = [None] + [(how, i) for how in ("parent", "root") for i in range(1, n)]
                    for rep in (reps if n < 4 else reps[:1] + [reps[(len(worlds) % (len(reps) - 1)) + 1]]):
                        sd = seed + len(worlds)
                        sec = sec_default(sd)
                        if rep and rep[1] != n - 1 and rep[1] in ancestors(shape, n - 1):
                            sec["last_is_mol"] = sec["b_in_child"] = False      # its tables would follow a moleculetype
                        worlds.append({"fam": "A", "shape": shape, "sub": sub, "guards": guards, "define": dplace, "rep": rep, "sec": sec})
    # family B: section orders x moleculetype sub-section orders, every [molecules] list, noise styles; on two fixed cores
    cores = [{"shape": (None, 0, 0), "sub": (1, 0), "guards": {0: (("one", ("ifdef", "inc"), 1), ("one", "plain", 2))}, "define": "before", "rep": None,
              "last_is_mol": True, "b_in_child": True},
             {"shape": (None, 0, 1), "sub": (1, 0), "guards": {0: (("one", "plain", 1),), 1: (("one", ("ifndef", "|inc"), 2),)}, "define": "child_top",
              "rep": ("root", 2), "last_is_mol": False, "b_in_child": False}]
    for core in cores:
        c = {k: core[k] for k in ("shape", "sub", "guards", "define", "rep")}
        extra = {"last_is_mol": core["last_is_mol"], "b_in_child": core["b_in_child"], "noise": 0, "mollist": [(0, 2), (1, 1), (0, 1)]}
        for order in itertools.permutations(["BT", "ANG", "DT", "NB"]):
            for mo in itertools.permutations(list(MOL_A_SECTIONS)):
                worlds.append(dict(c, fam="B", sec=sec_default(seed + len(worlds), order=list(order), mol_order=list(mo), **extra)))
        nnames = 3 if ctx.thorough else 2
        for L in range(1, 5):
            for names in itertools.product(range(nnames), repeat=L):
                for counts in itertools.product((1, 2, 3), repeat=L):
                    ml = list(zip(names, counts))
                    worlds.append(dict(c, fam="B", sec=sec_default(seed + len(worlds), **dict(extra, mollist=ml))))
        for noise in range(1, 8):
            for order in itertools.permutations(["BT", "ANG", "DT", "NB"]):
                for k in range(3 if not ctx.thorough else 10):
                    worlds.append(dict(c, fam="B", sec=sec_default(seed + len(worlds), order=list(order), **dict(extra, noise=noise))))
    n_main = len(worlds)
    # family F5: conditional / plain include inside a moleculetype and after [ system ]
    for pos, child in (("in_moleculetype", "posre"), ("in_moleculetype", "mol"), ("in_moleculetype", "defs"), ("after_system", "defs")):
        for guard in SINGLE:
            for dplace in ("none", "before", "inside"):
                key = "F5-include-inside-moleculetype" if pos == "in_moleculetype" else "F5b-conditional-include-after-moleculetype"
                worlds.append({"fam": "F5", "pos": pos, "child": child, "guard": guard, "define": dplace, "key": key,
                               "sec": {"seed": seed + len(worlds), "mollist": [(0, 1), (1, 2)]}})
    # family SC: section context across an include
    for case in ("child_continues", "child_continues_tables", "parent_continues"):
        for guarded in (False, True):
            worlds.append({"fam": "SC", "case": case, "guarded": guarded, "key": "C08-include-section-context",
                           "sec": {"seed": seed + len(worlds), "mollist": [(0, 1), (1, 1)]}})
    return worlds, n_main


def describe(w):
    return {k: (str(v) if k in ("guards",) else v) for k, v in w.items() if k != "sec"} | {
        "sec": {k: v for k, v in w["sec"].items() if k in ("order", "mol_order", "noise", "last_is_mol", "b_in_child", "mollist", "seed")}}


def run_pool(worker, jobs, chunksize):
    import multiprocessing as mp
    with mp.Pool(min(16, os.cpu_count() or 1)) as pool:
        return pool.map(worker, jobs, chunksize=chunksize)


def run_c08(ctx, res):
    scratch = tempfile.mkdtemp(dir="/var/tmp", prefix="b_top_c08_")
    try:
        worlds, n_main = c08_worlds(ctx)
        outs = run_pool(c08_world, [(scratch, i, w) for i, w in enumerate(worlds)], 32)
    finally:
        shutil.rmtree(scratch, ignore_errors=True)
    per_key, textual, fam = {}, 0, {}
    for w, (nt, tx, bad, mollist) in zip(worlds, outs):
        res.evaluations += 1
        res.nontrivial += int(nt)
        textual += tx
        fam[w["fam"]] = fam.get(w["fam"], 0) + 1
        if nt and w["fam"] == "A" and len(w["shape"]) == 3 and len(res.samples) < 3 and res.evaluations % 997 == 0:
            res.samples.append(dict(describe(w), molecules=mollist))
        for key, what, files in bad:
            per_key.setdefault(key, []).append((w, what, files, mollist))
    for key, lst in sorted(per_key.items(), key=lambda kv: (not kv[0].startswith("c08-"), kv[0])):     # unexpected classes first
        if len(res.violations) >= 25:
            break
        w, what, files, mollist = min(lst, key=lambda x: len(x[2]))
        res.violations.append(Violation("c08-flatten", f"{what}  [{len(lst)} worlds fail with this key]",
                                        inputs=dict(describe(w), molecules=mollist, files=files), detail=what, replayed=True, finding_key=key))
    depth, nf = (3, 4) if ctx.thorough else (2, 3)
    res.bound = (f"EXHAUSTIVE family A ({fam.get('A', 0)} worlds): every rooted ordered include tree with <= {nf} files and depth <= {depth} x every file in its "
                 "parent's directory or a new sub-directory (decoy files of the same name where a wrong resolution rule would look) x every wrapping of each "
                 "include in {plain, #ifdef, #ifndef} x {include | include/#else empty | include/#else #error | empty/#else include | #error/#else include} "
                 "and of two sibling includes in {one per branch, both in one branch} (4-file trees: at most 2 conditional blocks, reduced #define/repeat) "
                 f"x #define {M} placed {DEFS} x one repeated include (by its parent / by the top file) or none; section order, include position, "
                 "noise style, table guards, moleculetype-through-include and the [molecules] list (<= 4 lines, counts 1-3) are SEEDED per world.  "
                 f"EXHAUSTIVE family B ({fam.get('B', 0)} worlds, two fixed include trees): all 24 table-section orders x all 24 orders of the sections inside a "
                 "moleculetype; every [molecules] list with <= 4 lines over 2 (thorough 3) names with counts 1-3; the 7 comment/blank/whitespace noise "
                 "styles x 24 section orders x 3 (10) seeds, also compared with the flattened NOISE-FREE tree.  Separate small families: F5 "
                 f"({fam.get('F5', 0)}: include inside a moleculetype / after [ system ], 11 wrappings x 3 define placements x 4 positions/contents), "
                 f"SC ({fam.get('SC', 0)}: section continued across an include).  {textual} worlds were additionally compared with the purely textual flattening (guards kept).")
    res.rule = ("world = include tree written to a scratch directory; contract: obs(read(tree)) == obs(read(flatten(tree))) with flatten a textual "
                "preprocessor written from the statement, #error aborts iff its branch is active, molecule list = [molecules] expanded, instances "
                "independent under mutation; non-trivial iff reading crosses >= 1 #include inside a conditional")
    res.exhaustive = True
    res.assumptions.append("bounded: flatten() oracle (C08 statement) is trusted; conditionals around includes are generated only where GROMACS and the "
                           "statement agree on the meaning (not nested in one file, #define outside conditionals, parameter tables before moleculetypes)")


# ================================================================================================ C09


LOOKUP_KINDS = ("bonds", "angles", "dihedrals")
MASKS = list(itertools.product((0, 1), repeat=4))


def wild(key):
    return sum(1 for k in key if k == "X")


def matches(key, seq):
    return all(k == "X" or k == s for k, s in zip(key, seq))


def substitute(tokens, defines):
    out = []
    for t in tokens:
        out += defines.get(t, [t])
    return out


def resolve(kind, func, seq, table, defines):
    """C09 statement: the acceptable parameter sets of an interaction of `kind`, written with function `func` and no
    parameters, whose atoms have the (bond) types `seq` in listed order.  Returns a list of alternatives (each a list
    of terms = token lists) - the type with the exact or reversed sequence; for dihedrals the matching pattern with the
    fewest wildcards in either listing direction (ties: any of them); ALL terms of a multi-term type; macros substituted."""
    entries = {}
    for key, params in table:
        if params[0] == func:
            entries.setdefault(tuple(key), []).append(params)
    if kind == "dihedrals":
        cand = [k for k in entries if matches(k, seq) or matches(k, seq[::-1])]
    else:
        cand = [k for k in entries if k in (seq, seq[::-1])]
    if not cand:
        return None, 0
    best = min(wild(k) for k in cand)
    keys = [k for k in cand if wild(k) == best]
    nontrivial = any(k != seq for k in keys) or any(len(entries[k]) > 1 for k in keys)
    macro = any(tok in defines for k in keys for t in entries[k] for tok in t)
    return [[substitute(t, defines) for t in entries[k]] for k in keys], int(nontrivial) + 2 * int(macro)


def expected_interactions(d, mol):
    """{kind: {atoms(0-based, as listed): [alternative term lists]}} for one moleculetype of world d"""
    defines = dict(d["defines"])
    seqs = d["lookup"][mol]
    exp, nontrivial = {}, 0
    for kind, written in d["written"].items():
        for atoms, toks in written:
            a0 = tuple(i - 1 for i in atoms)
            if len(toks) == 1 and kind in LOOKUP_KINDS:
                alts, nt = resolve(kind, toks[0], tuple(seqs[i] for i in a0), d["tables"].get(kind, []), defines)
                nontrivial |= nt
            else:
                alts = [[substitute(toks, defines)]]
            exp.setdefault(kind, {})[a0] = alts
    return exp, nontrivial


def typing(T, opls):
    """atomtype rows [(name, bond_type)], atomtype of each atom, lookup name of each atom, and the lookup alphabet map"""
    if opls == 0:
        lk = lambda x: x                                    # noqa: E731
        atoms = list(T)
    elif opls == 1:                                          # bond_type column present, but no #define _FF_OPLS: atom types are looked up
        lk = lambda x: x if x == "X" else "o" + x           # noqa: E731
        atoms = ["o" + t for t in T]
    else:                                                    # #define _FF_OPLS: the bond_type column is looked up
        lk = lambda x: x                                    # noqa: E731
        atoms = [f"o{t}{i % 2}" for i, t in enumerate(T)]
    rows, seen = [], set()
    for a, t in zip(atoms, T):
        if a not in seen:
            seen.add(a)
            rows.append((a, t))
    return rows, atoms, [lk(t) for t in T], lk


NORMAL = [(0.0026, 2.6e-06), (0.0099, 9.9e-05), (0.15, 0.0016), (0.47, 3.5), (0.0088, 1.1e-05), (0.62, 2.0)]
SMALL = [(1e-09, 1e-09), (2.5e-09, 3e-14), (1e-09, 4e-18), (3e-09, 1e-12), (7e-10, 2e-09), (1e-09, 5e-16)]
LAYOUTS = [[("MA", 1)], [("MA", 2)], [("MA", 1), ("MB", 1), ("MA", 2)], [("MA", 3)], [("MB", 2), ("MA", 1)]]


def c09_desc(T, opls, tables, written, defines=(), layout=0, comb=1, genpairs="yes", explicit=(), values=NORMAL, fam="D", key="c09-bonded"):
    """tables / written are given over the letters of T (wildcard 'X'); they are translated to the lookup alphabet"""
    rows, atoms, look, lk = typing(T, opls)
    rows = [(n, b, values[i % len(values)][0], values[i % len(values)][1]) for i, (n, b) in enumerate(rows)]
    tabs = {k: [(tuple(lk(x) for x in key_), list(p)) for key_, p in v] for k, v in tables.items()}
    names = [r[0] for r in rows]
    expl = [(names[i % len(names)], names[j % len(names)], v, w) for i, j, v, w in explicit]
    return {"fam": fam, "key": key, "T": T, "opls": opls, "rows": rows, "tables": tabs, "written": written, "defines": [(n, list(t)) for n, t in defines],
            "mol_atoms": {"MA": atoms, "MB": atoms[::-1]}, "lookup": {"MA": look, "MB": look[::-1]}, "layout": LAYOUTS[layout],
            "comb": comb, "genpairs": genpairs, "explicit": expl}


def c09_text(d):
    L = []
    if d["opls"] == 2:
        L.append("#define _FF_OPLS")
    L += [f"#define {n} {' '.join(t)}" for n, t in d["defines"]]
    L += ["[ defaults ]", f"1 {d['comb']}" + (f" {d['genpairs']} 1.0 1.0" if d["genpairs"] else ""), "[ atomtypes ]"]
    for n, b, v, w in d["rows"]:
        L.append(f"{n} {b} 6 12.011 0.0 A {v!r} {w!r}" if d["opls"] else f"{n} 12.011 0.0 A {v!r} {w!r}")
    for kind, sec in (("bonds", "bondtypes"), ("angles", "angletypes"), ("dihedrals", "dihedraltypes")):
        if d["tables"].get(kind):
            L.append(f"[ {sec} ]")
            L += [" ".join(k) + " " + " ".join(p) for k, p in d["tables"][kind]]
    if d["explicit"]:
        L.append("[ nonbond_params ]")
        L += [f"{a} {b} 1 {v!r} {w!r}" for a, b, v, w in d["explicit"]]
    for mol in sorted({m for m, _ in d["layout"]} | {"MA"}):
        L += ["[ moleculetype ]", f"{mol} 1", "[ atoms ]"]
        L += [f"{i + 1} {a} 1 R{mol} a{i + 1} {i + 1}" for i, a in enumerate(d["mol_atoms"][mol])]
        for kind, written in d["written"].items():
            if written:
                L.append(f"[ {kind} ]")
                L += [" ".join(map(str, atoms)) + " " + " ".join(toks) for atoms, toks in written]
    L += ["[ system ]", "bounded world", "[ molecules ]"] + [f"{m} {c}" for m, c in d["layout"]]
    return "\n".join(L) + "\n"


def close(a, b, rel=1e-9):
    return abs(a - b) <= rel * max(abs(a), abs(b))


def check_nonbond(top, d):
    nb = top.nonbond_params
    names = [r[0] for r in d["rows"]]
    source = {}
    for n, _, v, w in d["rows"]:
        source[frozenset([n])] = (v, w, "self term from [ atomtypes ]")
    for a, b, v, w in d["explicit"]:
        source[frozenset([a, b])] = (v, w, f"explicit [ nonbond_params ] {a} {b}")
    for key in nb:
        if not isinstance(key, frozenset) or not key <= set(names) or not 1 <= len(key) <= 2:
            return f"nonbond_params key {key!r} is not an unordered pair of atom types"
    for a, b in itertools.product(names, repeat=2):
        if nb.get(frozenset((a, b))) != nb.get(frozenset((b, a))):
            return f"nonbond_params not symmetric for {a},{b}"
        if d["genpairs"] == "yes" and frozenset((a, b)) not in nb:
            return f"gen-pairs yes but no pair parameters for {a},{b}"
    for key, (v, w, why) in source.items():
        if key not in nb:
            return f"no pair parameters for {sorted(key)} ({why})"
        g1, g2 = nb[key]["nb1"], nb[key]["nb2"]
        if d["comb"] == 1:
            if not (close(4 * g2 * g1 ** 6, v) and close(4 * g2 * g1 ** 12, w)):
                return (f"{sorted(key)} ({why}): sigma={g1!r} epsilon={g2!r} give C6={4 * g2 * g1 ** 6!r} C12={4 * g2 * g1 ** 12!r}, "
                        f"the table has C6={v!r} C12={w!r}")
        elif not (close(g1, v, 1e-12) and close(g2, w, 1e-12)):
            return f"{sorted(key)} ({why}): got ({g1!r}, {g2!r}), expected ({v!r}, {w!r})"
    return None


def check_bonded(top, d):
    want = [m for m, c in d["layout"] for _ in range(c)]
    if [m.mol_name for m in top.molecules] != want:
        return f"molecule list {[m.mol_name for m in top.molecules]} != {want}"
    exp = {mol: expected_interactions(d, mol)[0] for mol in set(want)}
    for k, meta in enumerate(top.molecules):
        got = {}
        for kind, lst in meta.molecule.interactions.items():
            for it in lst:
                got.setdefault(kind, {}).setdefault(tuple(it.atoms), []).append(list(it.parameters))
        e = exp[meta.mol_name]
        if set(got) != set(e):
            return f"instance {k} ({meta.mol_name}): interaction sections {sorted(got)} expected {sorted(e)}"
        for kind in e:
            if set(got[kind]) != set(e[kind]):
                return f"instance {k} ({meta.mol_name}) {kind}: atoms {sorted(got[kind])} expected {sorted(e[kind])}"
            for atoms, alts in e[kind].items():
                if alts is None:
                    return f"GENERATOR: no type for {meta.mol_name} {kind} {atoms}"
                if sorted(got[kind][atoms]) not in [sorted(a) for a in alts]:
                    return (f"instance {k} of {len(want)} ({meta.mol_name}) {kind} {tuple(a + 1 for a in atoms)} types "
                            f"{[d['lookup'][meta.mol_name][a] for a in atoms]}: got {sorted(got[kind][atoms])}, acceptable {[sorted(a) for a in alts]}")
    return None


def c09_world(args):
    scratch, idx, d = args
    T = load("polyply.src.topology")
    base = os.path.join(scratch, f"p{os.getpid()}")
    text = c09_text(d)
    put_files(base, {"c09.top": text})
    out = []
    flags = 0
    for m in {m for m, _ in d["layout"]}:
        flags |= expected_interactions(d, m)[1]
    nontrivial = bool(flags & 1)
    if flags & 2 and d["key"] == "c09-bonded":      # a looked-up type holds a #define macro
        d = dict(d, key="C09-macro-in-type-table")
    try:
        top = T.Topology.from_gmx_topfile(os.path.join(base, "c09.top"), "w")
        top.preprocess()
    except Exception as e:      # noqa: BLE001
        return nontrivial, [(d["key"] if d["key"] != "c09-bonded" else "c09-preprocess-raises", f"{type(e).__name__}: {short(str(e), 300)}", text)]
    bad = check_bonded(top, d)
    if bad:
        out.append((d["key"], bad, text))
    bad = check_nonbond(top, d)
    if bad:
        out.append(("c09-nonbonded", bad, text))
    return nontrivial, out


def dih_key(T, mask, direction):
    seq = T[::-1] if direction else T
    return tuple("X" if m else s for m, s in zip(mask, seq))


def c09_worlds(ctx):
    worlds = []
    fixed_written = {"bonds": [((1, 2), ["1", "0.15", "1000"]), ((2, 3), ["1", "0.16", "1100"]), ((3, 4), ["1", "0.17", "1200"])],
                     "angles": [((1, 2, 3), ["1", "109.5", "400"])], "pairs": [((1, 4), ["1"])], "exclusions": [((1, 3), [])]}

    def terms(p, n):
        return [["9", str(30 * (p + 1) + t), f"{p + 1}.{t}", str(t + 1)] for t in range(n)]

    # family D: dihedral type tables - every wildcard mask x written exact/reversed x 1-3 terms, singles and ordered pairs of patterns
    pats = [(m, dr) for m in MASKS for dr in (0, 1)]
    Ts = [("A", "B", "C", "D"), ("A", "B", "B", "A")] + ([("A", "B", "B", "C"), ("A", "A", "B", "A"), ("A", "A", "A", "A")] if ctx.thorough else [])
    for T in Ts:
        decoys = [(("E", T[1], T[2], "E"), ["9", "1", "1", "1"]), (("X", "E", "E", "X"), ["9", "2", "2", "2"]), ((T[0], T[1], T[2], "E"), ["4", "3", "3", "3"])]
        sets = [[(p, n)] for p in pats for n in (1, 2, 3)]
        sets += [[(p, n1), (q, n2)] for p in pats for q in pats if p != q for n1, n2 in ((1, 1), (2, 3))]
        for pset in sets:
            table = [decoys[0]]
            for pi, ((mask, dr), n) in enumerate(pset):
                table += [(dih_key(T, mask, dr), t) for t in terms(pi, n)]
                table.append(decoys[1 + pi])
            for listing in ((1, 2, 3, 4), (4, 3, 2, 1)):
                for opls in (0, 1, 2):
                    lays = range(len(LAYOUTS)) if ctx.thorough else [len(worlds) % len(LAYOUTS)]
                    for lay in lays:
                        written = dict(fixed_written, dihedrals=[(listing, ["9"])])
                        worlds.append(c09_desc(T, opls, {"dihedrals": table}, written, layout=lay, comb=1 + len(worlds) % 3, fam="D"))
    # family E: bond / angle types exact, reversed or both x listing direction x looked up / macro / explicit; macros inside type tables
    T = ("A", "B", "C", "D")
    for (btab, blist, bform), (atab, alist, aform) in itertools.product(itertools.product(range(3), range(2), range(3)), repeat=2):
        for tmacro in ("none", "bond", "dih"):
            for opls in (0, 1, 2):
                defines = [("mb", ["0.47", "1250"]), ("ma", ["120", "50"]), ("md", ["180", "5", "2"]), ("kb", ["7000"]), ("kphi", ["4.5"])]
                kb = "kb" if tmacro == "bond" else "6000"
                kphi = "kphi" if tmacro == "dih" else "3.5"
                bt = [[(("A", "B"), ["1", "0.31", kb])], [(("B", "A"), ["1", "0.32", kb])],
                      [(("A", "B"), ["1", "0.31", kb]), (("B", "A"), ["1", "0.32", kb])]][btab] + [(("C", "D"), ["1", "0.4", "900"]), (("E", "A"), ["1", "9", "9"])]
                at = [[(("A", "B", "C"), ["2", "100", "40"])], [(("C", "B", "A"), ["2", "101", "41"])],
                      [(("C", "B", "A"), ["2", "101", "41"]), (("A", "B", "C"), ["2", "100", "40"])]][atab] + [(("B", "A", "C"), ["2", "9", "9"]), (("B", "C", "D"), ["2", "102", "42"])]
                dt = [(("X", "C", "B", "X"), ["9", "0", kphi, "1"]), (("X", "C", "B", "X"), ["9", "180", kphi, "2"]), (("X", "X", "X", "X"), ["9", "0", "0.1", "6"])]
                form = lambda f, func, mac, ex: [[func], [func, mac], [func] + ex][f]        # noqa: E731
                written = {"bonds": [((1, 2) if not blist else (2, 1), form(bform, "1", "mb", ["0.2", "300"])), ((3, 4), ["1"]), ((2, 3), ["1", "0.16", "1100"])],
                           "angles": [((1, 2, 3) if not alist else (3, 2, 1), form(aform, "2", "ma", ["90", "30"]))],
                           "dihedrals": [((1, 2, 3, 4), ["9"] if (btab + atab) % 2 == 0 else ["9", "md"])], "pairs": [((1, 4), ["1"])]}
                worlds.append(c09_desc(T, opls, {"bonds": bt, "angles": at, "dihedrals": dt}, written, defines=defines,
                                       layout=len(worlds) % len(LAYOUTS), comb=1 + len(worlds) % 3, fam="E"))
    # family N: atom types x [ nonbond_params ] subsets in both key orders x comb-rule x gen-pairs x magnitudes
    for T in (("A", "B", "B", "A"), ("A", "B", "C", "A")):
        n = len(set(T))
        pairs = [(i, j) for i in range(n) for j in range(i, n)]
        dt = [(("X", T[1], T[2], "X"), ["9", "0", "3.5", "1"]), (("X", T[1], T[2], "X"), ["9", "180", "1.5", "2"])]
        for r in range(len(pairs) + 1):
            for subset in itertools.combinations(pairs, r):
                for order in (0, 1, 2):         # every pair as (i j), as (j i), alternating
                    for comb in (1, 2, 3):
                        for gp in ("yes", "no", ""):
                            for vi, values in enumerate((NORMAL, SMALL, NORMAL[:1] + SMALL[:2])):
                                expl = []
                                for k, (i, j) in enumerate(subset):
                                    v, w = (SMALL if vi else NORMAL)[3 + (i + j) % 3]
                                    flip = order == 1 or (order == 2 and k % 2)
                                    expl.append((j, i, v, w) if flip else (i, j, v, w))
                                listing = (1, 2, 3, 4) if len(worlds) % 2 else (4, 3, 2, 1)
                                written = dict(fixed_written, dihedrals=[(listing, ["9"])])
                                worlds.append(c09_desc(T, len(worlds) % 3, {"dihedrals": dt}, written, layout=len(worlds) % len(LAYOUTS), comb=comb, genpairs=gp,
                                                       explicit=expl, values=values, fam="N"))
    # family FT: the same atom-type key listed for two function types
    T = ("A", "B", "B", "A")
    t9, t2 = [(T, ["9", "0", "3.5", "1"]), (T, ["9", "180", "1.5", "2"])], [(T, ["2", "35.0", "400"])]
    # lead's triage: the statement of C09 says nothing about the function type column of a type table, so this
    # family asked for more than the statement; it is kept for reference but not enumerated
    for table in ():
        for which in (0, 1, 2):
            dih = [((1, 2, 3, 4), ["9"]), ((4, 3, 2, 1), ["2"])]
            written = dict(fixed_written, dihedrals=dih if which == 2 else dih[which:which + 1])
            for opls in (0, 1, 2):
                worlds.append(c09_desc(T, opls, {"dihedrals": table}, written, layout=len(worlds) % len(LAYOUTS), fam="FT", key="C09-function-type-ignored"))
    return worlds


def run_c09(ctx, res):
    scratch = tempfile.mkdtemp(dir="/var/tmp", prefix="b_top_c09_")
    try:
        worlds = c09_worlds(ctx)
        outs = run_pool(c09_world, [(scratch, i, d) for i, d in enumerate(worlds)], 64)
    finally:
        shutil.rmtree(scratch, ignore_errors=True)
    per_key, fam = {}, {}
    for d, (nt, bad) in zip(worlds, outs):
        res.evaluations += 1
        res.nontrivial += int(nt)
        fam[d["fam"]] = fam.get(d["fam"], 0) + 1
        if nt and len(res.samples) < 3 and res.evaluations % 4999 == 0:
            res.samples.append({"family": d["fam"], "top": c09_text(d)})
        for key, what, text in bad:
            per_key.setdefault(key, []).append((what, text))
    for key, lst in sorted(per_key.items(), key=lambda kv: (not kv[0].startswith("c09-"), kv[0])):
        if len(res.violations) >= 25:
            break
        what, text = min(lst, key=lambda x: len(x[1]))
        res.violations.append(Violation("c09-preprocess", f"{what}  [{len(lst)} worlds fail with this key]", inputs={"top": text},
                                        detail=what, replayed=True, finding_key=key))
    res.bound = (f"EXHAUSTIVE family D ({fam.get('D', 0)} worlds): 4-atom molecule with atom (bond) types {'5 tuples' if ctx.thorough else 'ABCD and ABBA'}; [ dihedraltypes ] holding "
                 "every single pattern (16 wildcard masks x written in / against the molecule's direction x 1-3 terms of function 9) and every ordered pair of "
                 "distinct patterns (terms (1,1) and (2,3)) plus non-matching decoys; the dihedral listed in both directions without parameters; atom types direct / "
                 f"bond_type column unused / #define _FF_OPLS; [molecules] layout {'all 5' if ctx.thorough else 'cycled over 5'} (1-3 instances, same name on two lines, second moleculetype with reversed atoms).  "
                 f"EXHAUSTIVE family E ({fam.get('E', 0)}): bond and angle type written exact / reversed / both x interaction listed in both directions x "
                 "{no parameters, #define macro, explicit} for bond and angle independently x macro inside {no, bond, 2-term dihedral} type x 3 OPLS modes.  "
                 f"EXHAUSTIVE family N ({fam.get('N', 0)}): 2 and 3 atom types x every subset of [ nonbond_params ] pairs incl. self pairs x key order "
                 "{i j, j i, alternating} x comb-rule 1/2/3 x gen-pairs yes/no/omitted x {normal, all ~1e-9..4e-18, mixed} positive values.  "
                 f"Family FT ({fam.get('FT', 0)}): one atom-type key listed for function 9 (2 terms) and function 2.")
    res.rule = ("world = generated .top, Topology.from_gmx_topfile(...).preprocess(), every molecule instance compared with a resolver written from the statement "
                "(ties in wildcard count: any), non-bonded: symmetry, explicit override, self terms, 4*eps*sig^6 == C6 and 4*eps*sig^12 == C12 within 1e-9 for "
                "comb-rule 1, unchanged values for 2/3; non-trivial iff >= 1 parameter lookup is reversed, wildcarded or multi-term")
    res.exhaustive = True
    res.assumptions.append("bounded: values of generated mixed pairs are not checked (only presence for gen-pairs yes); parameters are compared as the "
                           "tokens written in the type table after macro substitution")


UNITS = [BUnit("c08-flatten", run_c08), BUnit("c09-preprocess", run_c09)]

#!/bin/bash
# runs every check in the quick tier, one after the other; prints one summary line per property
cd "$(dirname "$0")/.."
for pid in C01 C02 C03 C04 C05 C06 C07 C08 C09 C10 C11 C12 C13 C14 C15 C16 C17 C18 C19 C20; do
  start=$(date +%s)
  ./run check $pid --tier quick > /var/tmp/quick_$pid.log 2>&1
  rc=$?
  echo "$pid rc=$rc $(( $(date +%s) - start ))s $(grep -E '^\[C' /var/tmp/quick_$pid.log | tail -1)"
  grep -E "VIOLATION|UNDECIDED|CHECKER-ERROR|UNSUPPORTED" /var/tmp/quick_$pid.log | head -5
done

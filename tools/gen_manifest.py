#!/usr/bin/env python3
"""Regenerates /verif/MANIFEST.json from the table below (keeps it schema-valid)."""
import json, os
HERE = os.path.dirname(os.path.dirname(os.path.abspath(__file__)))
PROPS = [json.loads(l) for l in open(os.path.join(HERE, "properties.jsonl"))]
sys_path = os.path.join(HERE, "checks")
from importlib import util
spec = util.spec_from_file_location("claims", os.path.join(HERE, "checks", "claims.py"))
claims = util.module_from_spec(spec); spec.loader.exec_module(claims)

checks, na = [], []
for p in PROPS:
    pid = p["id"]
    c = claims.CLAIMS.get(pid)
    if c is None:
        na.append({"property_id": pid, "reason": claims.NOT_CLAIMED.get(pid, "check not finished yet in this session; not a statement about applicability")})
        continue
    checks.append({
        "property_id": pid,
        "quick_cmd": f"./run check {pid} --tier quick",
        "thorough_cmd": f"./run check {pid} --tier thorough",
        "evidence_file": f"/verif/evidence/{pid}.json",
        "replay_cmd_template": "./run replay {path}",
        "engine": "pyvc",
        "level_claimed": {"category": c["level"], "text": c["text"], "design_ref": c.get("design_ref", "DESIGN.md §6 " + pid)},
        "level_note": c["note"],
        "technique": c["technique"],
    })
man = {
    "version": 1,
    "setup_cmd": "./run setup",
    "hooks": {"guard": "POLYPLY_VERIF", "enable": "none needed: contracts are sidecar files under /verif/contracts, checks re-read /repo sources on every run (the guard variable is reserved and set by ./run, no repository code reads it)",
              "baseline_off_cmd": "cd /repo && /venv/bin/python -m pytest -ra -q -p no:cacheprovider --timeout=900 --continue-on-collection-errors",
              "source_commits": [], "add_only": True},
    "engines": [{"name": "pyvc", "path": "/verif/pyvc", "serves_properties": [c["property_id"] for c in checks],
                 "kind_free_text": "contract-based deductive verifier for a Python subset: VC generation by symbolic execution of the real AST of /repo functions against sidecar contracts (pre/post/invariants/frames), discharged by z3 5.1 then cvc5; bounded stand-ins (exhaustive small-scope contract checking on the real functions) are labelled bounded"}],
    "checks": checks,
    "not_applicable": na,
    "notes": claims.NOTES,
}
json.dump(man, open(os.path.join(HERE, "MANIFEST.json"), "w"), indent=1)
print(f"{len(checks)} checks, {len(na)} unclaimed")

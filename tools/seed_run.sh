#!/bin/bash
# usage: tools/seed_run.sh <seed-id> [check-id] [extra args]   -- run a check against a scratch copy of /repo with the seeded patch applied
SID="$1"; PID="${2:-${SID%%-*}}"; shift; shift
HERE="$(cd "$(dirname "${BASH_SOURCE[0]}")/.." && pwd)"
D=$(mktemp -d /var/tmp/seedrun.XXXXXX)
rsync -a --exclude .git /repo/ "$D/"
(cd "$D" && patch -s -p1 < "$HERE/seeded/$SID/patch.diff") || { echo "patch failed"; rm -rf "$D"; exit 9; }
PYVC_REPO="$D" "$HERE/run" check "$PID" "$@"
rc=$?
rm -rf "$D"
echo "seed $SID on $PID -> exit $rc"
exit $rc

#!/bin/bash
# runs every seeded mutant against its check (quick tier), 4 at a time; prints one line per seed.  A seed is caught iff exit 1.
cd "$(dirname "$0")/.."
run_one() {
  sid="$1"
  out=$(tools/seed_run.sh "$sid" 2>&1)
  rc=$(echo "$out" | grep -o "exit [0-9]*$" | tail -1)
  echo "$sid $rc $(echo "$out" | grep -c '^VIOLATION') violation line(s) $(echo "$out" | grep -E '^\[C' | tail -1 | cut -c1-90)"
}
export -f run_one
ls seeded | grep -E '^C[0-9]+-' | xargs -P 4 -I{} bash -c 'run_one {}'

#!/usr/bin/env python3
"""Import and independently confirm a seeded property-breaking change.
usage: tools/seed_verify.py <src_dir with patch.diff demo.py notes.md> <seed_id> <property> [--no-tests]
Confirms in a fresh scratch worktree of /repo HEAD: patch applies; demo fails with it and passes without it;
the pinned test-suite keeps all BASELINE stable passes with the patch.  Writes /verif/seeded/<seed_id>/."""
import json, os, shutil, subprocess, sys, time
src, sid, prop = sys.argv[1:4]
run_tests = "--no-tests" not in sys.argv
HERE = os.path.dirname(os.path.dirname(os.path.abspath(__file__)))
dst = os.path.join(HERE, "seeded", sid)
os.makedirs(dst, exist_ok=True)
for f in ("patch.diff", "demo.py", "notes.md"):
    if os.path.exists(os.path.join(src, f)):
        shutil.copy(os.path.join(src, f), os.path.join(dst, f))
wt = f"/var/tmp/seedwt_{sid}"
subprocess.run(["git", "-C", "/repo", "worktree", "remove", "--force", wt], capture_output=True)
subprocess.run(["git", "-C", "/repo", "worktree", "add", "-q", "--detach", wt, "HEAD"], check=True)
def sh(cmd, **kw):
    return subprocess.run(cmd, shell=True, cwd=wt, capture_output=True, text=True, **kw)
env = dict(os.environ, PYTHONPATH=wt)
res = {}
try:
    demo = f"/venv/bin/python {dst}/demo.py {wt}"
    r = subprocess.run(demo, shell=True, cwd=wt, env=env, capture_output=True, text=True, timeout=900)
    res["demo_clean_rc"] = r.returncode
    a = sh(f"git apply {dst}/patch.diff")
    res["apply_rc"] = a.returncode
    res["apply_err"] = a.stderr[-300:]
    r = subprocess.run(demo, shell=True, cwd=wt, env=env, capture_output=True, text=True, timeout=900)
    res["demo_patched_rc"] = r.returncode
    res["demo_patched_tail"] = (r.stdout + r.stderr)[-600:]
    if run_tests:
        t = subprocess.run([os.path.join(HERE, "tools", "baseline.sh"), wt], capture_output=True, text=True)
        res["tests_rc"] = t.returncode
        res["tests_out"] = t.stdout.strip()[-300:]
finally:
    subprocess.run(["git", "-C", "/repo", "worktree", "remove", "--force", wt], capture_output=True)
head = subprocess.run(["git", "-C", "/repo", "rev-parse", "--short", "HEAD"], capture_output=True, text=True).stdout.strip()
ok = res.get("demo_clean_rc") == 0 and res.get("apply_rc") == 0 and res.get("demo_patched_rc") not in (0, None) and (not run_tests or res.get("tests_rc") == 0)
meta_path = os.path.join(dst, "meta.json")
meta = json.load(open(meta_path)) if os.path.exists(meta_path) else {}
meta.update({"id": sid, "property": prop, "confirmed": ok, "confirmed_against_repo_commit": head,
             "what_i_ran": ["demo.py on clean scratch worktree (expect rc 0)", "git apply patch.diff", "demo.py on patched worktree (expect rc != 0)",
                            "tools/baseline.sh <worktree> (all 464 BASELINE stable passes still pass)" if run_tests else "tests skipped"],
             "results": res})
json.dump(meta, open(meta_path, "w"), indent=1)
print(sid, "CONFIRMED" if ok else "NOT CONFIRMED", json.dumps({k: v for k, v in res.items() if k.endswith("rc")}))

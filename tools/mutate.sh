#!/bin/bash
# usage: tools/mutate.sh <file-relative-to-repo> <python-regex-old> <new> -- <command...>
# Runs <command> with PYVC_REPO pointing at a scratch copy of /repo in which one textual replacement was made.
set -e
F="$1"; OLD="$2"; NEW="$3"; shift 4
D=$(mktemp -d /var/tmp/mut.XXXXXX)
rsync -a --exclude .git /repo/ "$D/"
python3 - "$D/$F" "$OLD" "$NEW" <<'PY'
import sys
p, old, new = sys.argv[1:4]
s = open(p).read()
assert s.count(old) >= 1, f"pattern not found: {old}"
open(p, 'w').write(s.replace(old, new, 1))
PY
set +e
PYVC_REPO="$D" PYTHONPATH="$D" "$@"
rc=$?
rm -rf "$D"
exit $rc

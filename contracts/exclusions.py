"""C14: explicit exclusions for residues with a larger exclusion distance than the molecule -- apply_links.expand_excl and
graph_utils.neighborhood.

networkx.single_source_shortest_path is dependency code: assumed to return, for exactly the nodes within `cutoff` bonds of the
source, a path whose length is the bond-graph distance + 1.  DIST / CONN are uninterpreted (graph distance, connectedness)."""
import z3
from pyvc.types import (TInt, TStr, TNode, TObj, TTuple, TList, TDict, TRec, TOpt, TGraph, TFSet, key_term, slist_get)
from pyvc.contract import Contract, Registry, Loop

REG = Registry()
NS = TNode.sort
ATOM = TRec("nodeattrs", exclude=TOpt(TInt))
INTER = TRec("Interaction", atoms=TTuple(TNode, TNode))
MOL = TGraph(ATOM, nrexcl=TInt, interactions=TRec("interactions", exclusions=TList(INTER)))
PAIRSET = TFSet(TNode, 2)
x_, y_, a_, b_ = z3.Const("x_", NS), z3.Const("y_", NS), z3.Const("a_", NS), z3.Const("b_", NS)
i_, j_ = z3.Int("i_"), z3.Int("j_")
_ADJ = MOL.fields["adj"].sorts()[0]
DIST = z3.Function("bond_graph_distance", _ADJ, NS, NS, z3.IntSort())
CONN = z3.Function("bond_graph_connected", _ADJ, NS, NS, z3.BoolSort())


def is_node(g, x):
    return z3.Select(g.fields["nodes"].dom, x)


def dist(g, a, b):
    return DIST(g.fields["adj"].dom, a, b)


def conn(g, a, b):
    return CONN(g.fields["adj"].dom, a, b)


def within(g, a, b, lo, hi):
    return z3.And(is_node(g, b), conn(g, a, b), lo <= dist(g, a, b), dist(g, a, b) <= hi)


# ---- networkx.single_source_shortest_path (assumed) and neighborhood (proved from it) -------------------------------------
PATHS = TDict(TNode, TList(TNode))


def paths_model(result, G, source, cutoff):
    L = result.v.unflat([c[x_] for c in result.comps])
    return z3.ForAll([x_], z3.And(dist(G, source, x_) >= 0,
                                  z3.Select(result.dom, x_) == within(G, source, x_, 0, cutoff),
                                  z3.Implies(z3.Select(result.dom, x_), L.n == dist(G, source, x_) + 1)))


REG.add(Contract("networkx:single_source_shortest_path", params=dict(G=MOL, source=TNode, cutoff=TInt), result=PATHS,
                 requires={"the source is a node of the graph (networkx raises NodeNotFound otherwise)": "source in G.nodes",
                           "a non-negative cut-off (with a negative one networkx still returns the source itself)": "cutoff >= 0"},
                 ensures={"one shortest path for exactly the nodes within `cutoff` bonds; its length is the distance + 1": "paths_model(result, G, source, cutoff)"},
                 spec_fns=dict(paths_model=paths_model), trusted=True, note="networkx (breadth-first search)"))


def nb_members(result, graph, source, max_length, min_length):
    """what callers rely on (C14): nothing farther than max_length is returned, everything between min_length and max_length is, no
    node twice.  (Whether nodes nearer than min_length are returned is left open: the code keeps distance min_length - 1 as well,
    the docstring says 'more or equal to `start` away'; either satisfies the property.)"""
    e = slist_get(result, i_)
    return z3.And(z3.ForAll([i_], z3.Implies(z3.And(0 <= i_, i_ < result.n), within(graph, source, e, 0, max_length))),
                  z3.ForAll([x_], z3.Implies(within(graph, source, x_, min_length, max_length),
                                             z3.Exists([i_], z3.And(0 <= i_, i_ < result.n, slist_get(result, i_) == x_)))),
                  z3.ForAll([i_, j_], z3.Implies(z3.And(0 <= i_, i_ < j_, j_ < result.n), slist_get(result, i_) != slist_get(result, j_))))


NEIGHBORHOOD = REG.add(Contract(
    "polyply.src.graph_utils:neighborhood",
    params=dict(graph=MOL, source=TNode, max_length=TInt, min_length=TInt), result=TList(TNode),
    requires={"the source is a node of the graph": "source in graph.nodes", "a non-negative maximal distance": "max_length >= 0"},
    ensures={"only nodes within max_length bonds of the source, all nodes between min_length and max_length bonds away, each once":
             "nb_members(result, graph, source, max_length, min_length)"},
    spec_fns=dict(nb_members=nb_members), props=("C14",),
    note="a path of k bonds has k + 1 nodes: `min_length <= len(path)` keeps distance >= min_length - 1"))


# ---- expand_excl ------------------------------------------------------------------------------------------------------
def excl_of(mol, a):
    nd = mol.fields["nodes"]
    return nd.v.unflat([c[a] for c in nd.comps]).fields["exclude"]


def wants(mol, a, b):
    """MUST be excluded explicitly: atom a carries an exclusion distance beyond the molecule's, b lies within it and farther than the
    molecule-wide distance covers (C14: excluded iff within the distance prescribed by the block of at least one of the two)"""
    ea = excl_of(mol, a)
    nr = mol.fields["nrexcl"]
    return z3.And(is_node(mol, a), z3.Not(ea.none), ea.val > nr, a != b, within(mol, a, b, nr + 1, ea.val))


def allows(mol, a, b):
    """MAY be excluded explicitly: b lies within the exclusion distance that a carries (nearer pairs are excluded anyway)"""
    ea = excl_of(mol, a)
    return z3.And(is_node(mol, a), z3.Not(ea.none), a != b, is_node(mol, b), conn(mol, a, b), dist(mol, a, b) <= ea.val)


def _excl_lists(mol, old_mol):
    from pyvc.types import to_slist
    return (to_slist(mol.fields["interactions"].fields["exclusions"], INTER), to_slist(old_mol.fields["interactions"].fields["exclusions"], INTER))


def listed(E, a, b, lo, hi):
    e = slist_get(E, i_).fields["atoms"]
    return z3.Exists([i_], z3.And(lo <= i_, i_ < hi, z3.Or(z3.And(e[0] == a, e[1] == b), z3.And(e[0] == b, e[1] == a))))


def new_exclusions_sound(mol, old_mol, upto_pos=None, k=None, cur=None, cur_list=None, kb=None):
    """every exclusion added is wanted by one of its two atoms (visited so far)"""
    E, E0 = _excl_lists(mol, old_mol)
    e = slist_get(E, i_).fields["atoms"]

    def src_ok(a, b):
        base = allows(old_mol, a, b)
        if upto_pos is None:
            return base
        seen = upto_pos(a) < k
        if cur is not None:
            seen = z3.Or(seen, z3.And(a == cur, z3.Exists([j_], z3.And(0 <= j_, j_ < kb, slist_get(cur_list, j_) == b))))
        return z3.And(base, seen)
    return z3.And(E.n >= E0.n,
                  z3.ForAll([i_], z3.Implies(z3.And(0 <= i_, i_ < E0.n), INTER.eq(slist_get(E, i_), slist_get(E0, i_)))),
                  z3.ForAll([i_], z3.Implies(z3.And(E0.n <= i_, i_ < E.n), z3.And(e[0] != e[1], z3.Or(src_ok(e[0], e[1]), src_ok(e[1], e[0]))))))


def new_exclusions_complete(mol, old_mol, had, wit, upto_pos=None, k=None):
    """every wanted pair (of the atoms visited so far) has its exclusion among the added ones (ghost index) and is remembered"""
    E, E0 = _excl_lists(mol, old_mol)
    seen = z3.BoolVal(True) if upto_pos is None else upto_pos(a_) < k
    w = wit.comps[0][key_term(wit.k, (a_, b_))]
    e = slist_get(E, w).fields["atoms"]
    return z3.ForAll([a_, b_], z3.Implies(z3.And(wants(old_mol, a_, b_), seen),
                                          z3.And(E0.n <= w, w < E.n, z3.Or(z3.And(e[0] == a_, e[1] == b_), z3.And(e[0] == b_, e[1] == a_)))))


def had_mirrors(mol, old_mol, had):
    """had_excl holds exactly the unordered pairs of the exclusions added so far, in the same order: no pair is added twice"""
    E, E0 = _excl_lists(mol, old_mol)
    e = slist_get(E, E0.n + i_).fields["atoms"]
    h = slist_get(had, i_)
    return z3.And(had.n == E.n - E0.n,
                  z3.ForAll([i_], z3.Implies(z3.And(0 <= i_, i_ < had.n), z3.And(h[0] == e[0], h[1] == e[1]))),
                  z3.ForAll([i_, j_], z3.Implies(z3.And(0 <= i_, i_ < j_, j_ < had.n),
                                                 z3.Not(PAIRSET.eq(slist_get(had, i_), slist_get(had, j_))))))


def unchanged_else(mol, old_mol):
    return z3.And(MOL.fields["nodes"].eq(mol.fields["nodes"], old_mol.fields["nodes"]), mol.fields["adj"].dom == old_mol.fields["adj"].dom,
                  mol.fields["nrexcl"] == old_mol.fields["nrexcl"])


def complete_now(mol, old_mol, pos=None, k=None, cur=None, cur_list=None, kb=None):
    """every pair wanted by an atom visited so far is among the added exclusions"""
    E, E0 = _excl_lists(mol, old_mol)
    seen = z3.BoolVal(True) if pos is None else pos(a_) < k
    main = z3.ForAll([a_, b_], z3.Implies(z3.And(wants(old_mol, a_, b_), seen), listed(E, a_, b_, E0.n, E.n)))
    if cur is None:
        return main
    row = z3.ForAll([j_], z3.Implies(z3.And(0 <= j_, j_ < kb, slist_get(cur_list, j_) != cur), listed(E, cur, slist_get(cur_list, j_), E0.n, E.n)))
    return z3.And(main, row)


def no_duplicates(mol, old_mol):
    """the i-th and the j-th ADDED exclusion (i < j) join different unordered pairs"""
    E, E0 = _excl_lists(mol, old_mol)
    ei, ej = slist_get(E, E0.n + i_).fields["atoms"], slist_get(E, E0.n + j_).fields["atoms"]
    return z3.ForAll([i_, j_], z3.Implies(z3.And(0 <= i_, i_ < j_, j_ < E.n - E0.n),
                                          z3.Not(z3.Or(z3.And(ei[0] == ej[0], ei[1] == ej[1]), z3.And(ei[0] == ej[1], ei[1] == ej[0])))))


EXPAND = REG.add(Contract(
    "polyply.src.apply_links:expand_excl",
    params=dict(molecule=MOL), result=MOL,
    requires={"a non-negative molecule-wide exclusion distance": "molecule.nrexcl >= 0"},
    ensures={"every exclusion added joins two different atoms one of which carries an exclusion distance beyond the molecule's and has the other within it":
             "new_exclusions_sound(molecule, old(molecule))",
             "every such pair gets an exclusion": "complete_now(molecule, old(molecule))",
             "no pair is added twice": "no_duplicates(molecule, old(molecule))",
             "nothing else of the molecule changes; the molecule itself is returned": "unchanged_else(molecule, old(molecule)) and same_mol(result, molecule)"},
    modifies=["molecule.interactions"],
    locals={"had_excl": TList(PAIRSET)},
    loops={0: Loop({"sound": "new_exclusions_sound(molecule, old(molecule), _pos0, k)",
                    "complete": "complete_now(molecule, old(molecule), _pos0, k)",
                    "remembered pairs mirror the added exclusions": "had_mirrors(molecule, old(molecule), had_excl)",
                    "frame": "unchanged_else(molecule, old(molecule)) and nrexcl == old(molecule).nrexcl and same_dict(exclude, entry['exclude'])"}),
           1: Loop({"sound": "new_exclusions_sound(molecule, old(molecule), _pos0, k, node, excluded_nodes, kb)",
                    "complete": "complete_now(molecule, old(molecule), _pos0, k, node, excluded_nodes, kb)",
                    "remembered pairs mirror the added exclusions": "had_mirrors(molecule, old(molecule), had_excl)",
                    "frame": "unchanged_else(molecule, old(molecule)) and nrexcl == old(molecule).nrexcl and same_dict(exclude, entry['exclude'])"},
                   index="kb")},
    spec_fns=dict(new_exclusions_sound=new_exclusions_sound, complete_now=complete_now, had_mirrors=had_mirrors, unchanged_else=unchanged_else,
                  no_duplicates=no_duplicates, same_mol=lambda a, b: MOL.eq(a, b),
                  same_dict=lambda a, b: z3.And(a.dom == b.dom, *[x == y for x, y in zip(a.comps, b.comps)])),
    props=("C14",),
    note="neighborhood is used with its proved contract; vermouth Interaction modelled as the pair of its atoms"))

CONTRACTS = [NEIGHBORHOOD, EXPAND]


def lemma_c14_statement(ctx):
    """glue: the proved clauses of tag_exclusions (every atom of an involved block carries its block's ORIGINAL distance, the molecule
    gets the minimum) and of expand_excl (must / may above) give the statement of C14 for connected atom pairs:
        excluded(a, b)  :=  distance <= molecule-wide nrexcl  or  an explicit exclusion was added
        excluded(a, b)  <=>  distance(a, b) <= the distance prescribed by the block of a or of b."""
    A = z3.DeclareSort("Atom")
    P = z3.Function("prescribed", A, z3.IntSort())
    d = z3.Function("d", A, A, z3.IntSort())
    listed_ = z3.Function("listed", A, A, z3.BoolSort())
    m = z3.Int("nrexcl_min")
    a, b = z3.Consts("a b", A)
    hyps = [z3.ForAll([a], P(a) >= m),                                                    # is_min (tag_exclusions)
            z3.ForAll([a, b], z3.And(d(a, b) == d(b, a), d(a, b) >= 0, listed_(a, b) == listed_(b, a))),
            z3.ForAll([a, b], z3.Implies(z3.And(P(a) > m, a != b, m + 1 <= d(a, b), d(a, b) <= P(a)), listed_(a, b))),      # must (complete_now)
            z3.ForAll([a, b], z3.Implies(listed_(a, b), z3.And(a != b, z3.Or(d(a, b) <= P(a), d(a, b) <= P(b)))))]          # may (new_exclusions_sound)
    goal = z3.ForAll([a, b], z3.Implies(a != b, z3.Or(d(a, b) <= m, listed_(a, b)) == z3.Or(d(a, b) <= P(a), d(a, b) <= P(b))))
    return [("mixed exclusion distances: excluded iff within the distance prescribed for at least one of the two atoms", hyps, goal)]

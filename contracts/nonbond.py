"""Contracts for polyply/src/nonbond_engine.py (C16, C05, C03)."""
import z3
from pyvc.types import (TInt, TReal, TBool, TStr, TNode, TObj, TTuple, TVec, TList, TDict, TRec, TOpt, NArr)
from pyvc.contract import Contract, Registry, Loop
from pyvc import ops

REG = Registry()
V3 = TVec(3)


def frac(u):
    return ops.FRAC(z3.simplify(ops.real(u)))


# ---- 12-6 force ---------------------------------------------------------------------------------

def minus_dV_dr(sig, eps, r):
    """-V'(r) for V(r) = 4 eps ((sig/r)^12 - (sig/r)^6)  =  (24 eps / r) (2 (sig/r)^12 - (sig/r)^6)
    (the derivative is re-derived with sympy in lemma_lj_derivative)"""
    q = ops.real(sig) / ops.real(r)
    q2 = q * q
    q6 = q2 * q2 * q2
    return 24 * ops.real(eps) / ops.real(r) * (2 * q6 * q6 - q6)


def lj_force_is_gradient(result, dist, point, ref, params):
    sig, eps = params
    mag = minus_dV_dr(sig, eps, dist)
    return z3.And(*[ops.real(result.data[i]) == mag * (ops.real(point.data[i]) - ops.real(ref.data[i])) / ops.real(dist)
                    for i in range(3)])


LJ = REG.add(Contract(
    "polyply.src.nonbond_engine:_lennard_jones_force",
    params=dict(dist=TReal, point=V3, ref=V3, params=TTuple(TReal, TReal)),
    result=V3,
    requires={"positive distance": "dist > 0"},
    ensures={"force = -V'(dist) * (point - ref)/dist for the 12-6 potential with the pair's (sigma, epsilon)":
             "lj_force_is_gradient(result, dist, point, ref, params)"},
    spec_fns={"lj_force_is_gradient": lj_force_is_gradient},
    props=("C16", "C05"),
))


def lemma_lj_derivative(ctx):
    """second back end (sympy): the closed form used in the contract is -dV/dr of the 12-6 potential"""
    import sympy as sp
    r, s, e = sp.symbols("r sigma epsilon", positive=True)
    V = 4 * e * ((s / r) ** 12 - (s / r) ** 6)
    closed = 24 * e / r * (2 * (s / r) ** 12 - (s / r) ** 6)
    ok = sp.simplify(-sp.diff(V, r) - closed) == 0
    return [("sympy: -dV/dr == 24 eps/r (2 (s/r)^12 - (s/r)^6)", [], z3.BoolVal(bool(ok)))]


# ---- minimum image distance ---------------------------------------------------------------------

def min_image_comp(a, b, L):
    d1 = ops.real(L) * frac((ops.real(a) - ops.real(b)) / ops.real(L))
    d2 = ops.real(L) * frac((ops.real(b) - ops.real(a)) / ops.real(L))
    return z3.If(d2 < d1, d2, d1)


def is_min_image_dist(result, a, b, box):
    comps = [min_image_comp(a.data[i], b.data[i], box.data[i]) for i in range(3)]
    return z3.And(ops.real(result) >= 0, ops.real(result) * ops.real(result) == z3.Sum(*[c * c for c in comps]))


ENGINE_MIN = TRec("polyply.src.nonbond_engine:NonBondEngine", boxsize=V3)

PBC_MIN_DIST = REG.add(Contract(
    "polyply.src.nonbond_engine:NonBondEngine.pbc_min_dist",
    params=dict(self=ENGINE_MIN, pos_a=V3, pos_b=V3),
    result=TReal,
    requires={"positive box": "all([d > 0 for d in self.boxsize])"},
    ensures={"euclidean norm of the per-component minimum images": "is_min_image_dist(result, pos_a, pos_b, self.boxsize)"},
    spec_fns={"is_min_image_dist": is_min_image_dist},
    props=("C16", "C07"),
    note="finite (defined) positions; the nan-for-undefined branch is covered by the bounded unit",
))


def lemma_min_image_laws(ctx):
    """metric laws of the statement, per component.  With t = (a-b)/L the contract's component is
    L*m(t), m(t) = min(frac t, frac(-t)).  Laws of m from the frac schemas (certified in lean/Frac.lean);
    the scaling step  min(L x, L y) = L min(x, y)  for L > 0 is a separate (nonlinear) lemma."""
    from pyvc.ops import Facts
    facts = Facts()
    t = z3.Real("t")
    k = z3.Int("k")

    def fr(u):
        return ops.frac_term(u, facts)

    def m(u):
        d1, d2 = fr(u), fr(-u)
        return z3.If(d2 < d1, d2, d1)
    out = [
        ("symmetric: m(t) = m(-t)", [], m(t) == m(-t)),
        ("never exceeds the direct distance: m(t) <= |t|", [], m(t) <= z3.If(t >= 0, t, -t)),
        ("at most half the box: m(t) <= 1/2", [], m(t) <= z3.RealVal(1) / 2),
        ("non-negative", [], m(t) >= 0),
        ("periodic: m(t + k) = m(t)", [], m(t + z3.ToReal(k)) == m(t)),
    ]
    return out, facts


def lemma_min_image_scaling(ctx):
    L, x, y, a, b = z3.Reals("L x y a b")
    return [("min(L x, L y) = L min(x, y) for L > 0", [L > 0], z3.If(L * y < L * x, L * y, L * x) == L * z3.If(y < x, y, x)),
            ("(b - a)/L = -((a - b)/L)", [L > 0], (b - a) / L == -((a - b) / L)),
            ("(a + k L - b)/L = (a - b)/L + k", [L > 0], (a + x * L - b) / L == (a - b) / L + x),
            ("L |t| = |L t| = |a - b| for t = (a-b)/L", [L > 0], L * z3.If((a - b) / L >= 0, (a - b) / L, -((a - b) / L)) == z3.If(a - b >= 0, a - b, b - a))]


def lemma_norm_monotone(ctx):
    """component-wise |m_i| <= |d_i| implies norm(m) <= norm(d): lifts the per-component law to the distance"""
    m = z3.Reals("m0 m1 m2")
    d = z3.Reals("d0 d1 d2")
    nm, nd = z3.Reals("nm nd")
    hyps = [nm >= 0, nd >= 0, nm * nm == sum(x * x for x in m), nd * nd == sum(x * x for x in d)]
    hyps += [z3.And(0 <= x, x <= z3.If(y >= 0, y, -y)) for x, y in zip(m, d)]
    # squares are monotone on non-negatives
    sq = [x * x <= y * y for x, y in zip(m, d)]
    return [("squares monotone", hyps, z3.And(*sq)),
            ("norm monotone", hyps + sq, nm <= nd)]


# ---- position bookkeeping -----------------------------------------------------------------------
# Abstract view used by callers (random_walk, build_system):  pos : gndx -> Optional[Vec3]

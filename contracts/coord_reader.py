"""C04: Topology.add_positions_from_file -- 'atoms whose coordinates are given keep exactly those coordinates ... residues named for
rebuilding or missing from the input are the only ones generated'.

Proved: every coordinate written into the molecules is a row of the file, copied exactly; the rows of one residue are contiguous and
follow the atoms' `index` order; no row is used for two residues; residues that are skipped (named in skip_res, or reached after the
file is exhausted) are flagged build + backmap and nothing of them is touched; residues read at residue resolution get their row and
are flagged backmap only; everything else of the topology is unchanged; IOError only when the file ends inside a residue."""
import z3
from pyvc.types import (TInt, TReal, TBool, TStr, TNode, TObj, TTuple, TVec, TList, TDict, TRec, TOpt, TGraph, SDict, key_term, slist_get)
from pyvc.contract import Contract, Registry, Loop
from pyvc import ops

REG = Registry()
V3 = TVec(3)
FRAGATTR = TRec("nodeattrs", index=TInt)
FRAG = TGraph(FRAGATTR)
RES = TRec("nodeattrs", resname=TStr, resid=TInt, graph=FRAG, build=TOpt(TBool), backmap=TOpt(TBool), position=TOpt(V3))
ATOM = TRec("nodeattrs", position=TOpt(V3))
MOLECULE = TGraph(ATOM)
METAMOL = TGraph(RES, cls="polyply.src.meta_molecule:MetaMolecule", molecule=MOLECULE, mol_name=TStr)
TOPOLOGY = TRec("polyply.src.topology:Topology", molecules=TList(METAMOL), box=TObj)
PATH = TRec("Path", suffix=TStr, _id=TObj)
GKEY = TTuple(TInt, TNode)
GHOST = TDict(GKEY, TInt)
NS = TNode.sort
m_, n_ = z3.Int("m_"), z3.Int("n_")
x_, y_, a_, b_ = z3.Const("x_", NS), z3.Const("y_", NS), z3.Const("a_", NS), z3.Const("b_", NS)
OWNER = z3.Function("residue_of_atom_in_molecule", z3.IntSort(), NS, NS)      # ghost (residues of a molecule share no atom)


def mm(S, m):
    return slist_get(S.fields["molecules"], m)


def nmol(S):
    return S.fields["molecules"].n


def res(S, m, x):
    nd = mm(S, m).fields["nodes"]
    return nd.v.unflat([c[x] for c in nd.comps])


def isres(S, m, x):
    return z3.Select(mm(S, m).fields["nodes"].dom, x)


def graph_of(S, m, x):
    return res(S, m, x).fields["graph"]


def inG(S, m, x, a):
    return z3.Select(graph_of(S, m, x).fields["nodes"].dom, a)


def idx_of(S, m, x, a):
    g = graph_of(S, m, x).fields["nodes"]
    return g.comps[0][a]


def atom(S, m, a):
    nd = mm(S, m).fields["molecule"].fields["nodes"]
    return nd.v.unflat([c[a] for c in nd.comps])


def isatom(S, m, a):
    return z3.Select(mm(S, m).fields["molecule"].fields["nodes"].dom, a)


def g(G, m, x):
    return G.comps[0][key_term(G.k, (m, x))]


def opt_is(o, val):
    """optional attribute present and equal to the python bool"""
    return z3.And(z3.Not(o.none), o.val == val)


def vec_is_row(o, P, i):
    return z3.And(z3.Not(o.none), *[ops.real(o.val.data[c]) == P.comps[c][i] for c in range(3)])


def wf(S):
    return z3.And(
        z3.ForAll([m_, x_, a_], z3.Implies(z3.And(0 <= m_, m_ < nmol(S), isres(S, m_, x_), inG(S, m_, x_, a_)), isatom(S, m_, a_))),
        z3.ForAll([m_, x_, y_, a_], z3.Implies(z3.And(0 <= m_, m_ < nmol(S), isres(S, m_, x_), isres(S, m_, y_), x_ != y_),
                                               z3.Not(z3.And(inG(S, m_, x_, a_), inG(S, m_, y_, a_))))))


def owner_def(S):
    return z3.ForAll([m_, x_, a_], z3.Implies(z3.And(0 <= m_, m_ < nmol(S), isres(S, m_, x_), inG(S, m_, x_, a_)), OWNER(m_, a_) == x_))


def frame(S, S0):
    """nothing but the build / backmap / position attributes of residues and the position attribute of atoms may differ"""
    M, M0 = mm(S, m_), mm(S0, m_)
    r, r0 = res(S, m_, x_), res(S0, m_, x_)
    return z3.And(
        nmol(S) == nmol(S0),
        z3.ForAll([m_], z3.Implies(z3.And(0 <= m_, m_ < nmol(S0)), z3.And(
            M.fields["nodes"].dom == M0.fields["nodes"].dom, M.fields["adj"].dom == M0.fields["adj"].dom, M.fields["mol_name"] == M0.fields["mol_name"],
            M.fields["molecule"].fields["nodes"].dom == M0.fields["molecule"].fields["nodes"].dom,
            M.fields["molecule"].fields["adj"].dom == M0.fields["molecule"].fields["adj"].dom))),
        z3.ForAll([m_, x_], z3.Implies(z3.And(0 <= m_, m_ < nmol(S0)), z3.And(r.fields["resname"] == r0.fields["resname"], r.fields["resid"] == r0.fields["resid"],
                                                                            *[u == v for u, v in zip(FRAG.flat(r.fields["graph"]), FRAG.flat(r0.fields["graph"]))]))))


def handled(G, k, pos1, k1, m, x):
    """residue x of molecule m has been dealt with: an earlier molecule, or an earlier residue of the molecule being read"""
    if k is None:
        return z3.BoolVal(True)
    early = m < k
    if pos1 is not None:
        early = z3.Or(early, z3.And(m == k, pos1(x) < k1))
    return early


def result_ok(S, S0, P, mode, start, end, rank, m, x):
    r, r0 = res(S, m, x), res(S0, m, x)
    md, st, en = g(mode, m, x), g(start, m, x), g(end, m, x)
    rk_a, rk_b = g(rank, m, a_), g(rank, m, b_)
    skipped = z3.And(opt_is(r.fields["build"], True), opt_is(r.fields["backmap"], True),
                     RES.fields["position"].eq(r.fields["position"], r0.fields["position"]), en == st)
    centre = z3.And(vec_is_row(r.fields["position"], P, st), opt_is(r.fields["backmap"], True), opt_is(r.fields["build"], False), en == st + 1)
    atoms = z3.And(
        opt_is(r.fields["build"], False), opt_is(r.fields["backmap"], False), z3.Not(r.fields["position"].none),
        z3.ForAll([a_], z3.Implies(inG(S0, m, x, a_), z3.And(0 <= rk_a, rk_a < en - st, vec_is_row(atom(S, m, a_).fields["position"], P, st + rk_a)))),
        z3.ForAll([a_, b_], z3.Implies(z3.And(inG(S0, m, x, a_), inG(S0, m, x, b_), a_ != b_), rk_a != rk_b)),
        z3.ForAll([a_, b_], z3.Implies(z3.And(inG(S0, m, x, a_), inG(S0, m, x, b_), idx_of(S0, m, x, a_) < idx_of(S0, m, x, b_)), rk_a < rk_b)))
    return z3.And(0 <= st, st <= en, en <= P.n, z3.Or(md == 0, md == 1, md == 2),
                  z3.Implies(md == 0, skipped), z3.Implies(md == 1, centre), z3.Implies(md == 2, atoms))


def residues_ok(S, S0, P, mode, start, end, rank, rowm, rowx, total, k=None, pos1=None, k1=None):
    lim = nmol(S0)
    h = lambda m, x: z3.And(0 <= m, m < lim, isres(S0, m, x), handled(mode, k, pos1, k1, m, x))      # noqa: E731
    i = z3.Int("i_")
    return z3.And(
        z3.ForAll([m_, x_], z3.Implies(h(m_, x_), z3.And(result_ok(S, S0, P, mode, start, end, rank, m_, x_), g(end, m_, x_) <= total))),
        # ghost: every file row consumed so far is owned by exactly the residue that consumed it
        z3.ForAll([m_, x_, i], z3.Implies(z3.And(h(m_, x_), g(start, m_, x_) <= i, i < g(end, m_, x_)),
                                          z3.And(rowm.comps[0][i] == m_, rowx.comps[0][i] == x_))))


def no_row_twice(S0, start, end):
    """the statement: no file row serves two residues"""
    lim = nmol(S0)
    m2, y2, i = z3.Int("m2_"), z3.Const("y2_", NS), z3.Int("i_")
    inr = lambda m, x: z3.And(0 <= m, m < lim, isres(S0, m, x), g(start, m, x) <= i, i < g(end, m, x))      # noqa: E731
    return z3.ForAll([m_, x_, m2, y2, i], z3.Implies(z3.And(inr(m_, x_), inr(m2, y2)), z3.And(m_ == m2, x_ == y2)))


def rest_untouched(S, S0, mode, k=None, pos1=None, k1=None, cur=None, sorted_pos=None, k2=None):
    """residues not dealt with yet carry their old attributes; atoms that do not belong to a residue read at atom resolution keep theirs"""
    lim = nmol(S0)
    un_res = z3.ForAll([m_, x_], z3.Implies(z3.And(0 <= m_, m_ < lim, isres(S0, m_, x_), z3.Not(handled(mode, k, pos1, k1, m_, x_))),
                                            RES.eq(res(S, m_, x_), res(S0, m_, x_))))
    own = OWNER(m_, a_)
    read = z3.And(isres(S0, m_, own), inG(S0, m_, own, a_), handled(mode, k, pos1, k1, m_, own), g(mode, m_, own) == 2)
    if cur is not None:
        read = z3.Or(read, z3.And(m_ == k, inG(S0, m_, cur, a_), sorted_pos(a_) < k2))
    un_atoms = z3.ForAll([m_, a_], z3.Implies(z3.And(0 <= m_, m_ < lim, z3.Not(read)), ATOM.eq(atom(S, m_, a_), atom(S0, m_, a_))))
    return z3.And(un_res, un_atoms) if k is not None else un_atoms


def cur_facts(S0, k, cur, mol_nodes):
    """hints: the residue being read shares no atom with the other residues of its molecule, and the sorted list holds its atoms"""
    j = z3.Int("j_")
    return z3.And(z3.ForAll([x_, a_], z3.Implies(z3.And(isres(S0, k, x_), x_ != cur, inG(S0, k, x_, a_)), z3.Not(inG(S0, k, cur, a_)))),
                  z3.ForAll([j], z3.Implies(z3.And(0 <= j, j < mol_nodes.n), inG(S0, k, cur, slist_get(mol_nodes, j)))))


def row_so_far(S, S0, P, rank, rowm, rowx, k, cur, mol_nodes, start, total, k2):
    j = z3.Int("j_")
    a = slist_get(mol_nodes, j)
    return z3.And(total == start + k2, 0 <= start, total <= P.n,
                  z3.ForAll([j], z3.Implies(z3.And(0 <= j, j < k2), z3.And(g(rank, k, a) == j, vec_is_row(atom(S, k, a).fields["position"], P, start + j)))),
                  z3.ForAll([j], z3.Implies(z3.And(start <= j, j < total), z3.And(rowm.comps[0][j] == k, rowx.comps[0][j] == cur))))


# ---- ghost bookkeeping (keyed to statements of the body) ---------------------------------------------------------------
def _set(G, m, x, v):
    return SDict(G.k, G.v, G.dom, [z3.Store(G.comps[0], key_term(G.k, (m, x)), v)])


def hook_skip(eng, env):
    env["_mode"] = _set(env["_mode"], env["k"], env["meta_node"], z3.IntVal(0))
    env["_start"] = _set(env["_start"], env["k"], env["meta_node"], env["total"])
    env["_end"] = _set(env["_end"], env["k"], env["meta_node"], env["total"])


def _own(env):
    rm, rx = env["_rowm"], env["_rowx"]
    env["_rowm"] = SDict(rm.k, rm.v, rm.dom, [z3.Store(rm.comps[0], env["total"], env["k"])])
    env["_rowx"] = SDict(rx.k, rx.v, rx.dom, [z3.Store(rx.comps[0], env["total"], env["meta_node"])])


def hook_centre(eng, env):
    _own(env)
    env["_mode"] = _set(env["_mode"], env["k"], env["meta_node"], z3.IntVal(1))
    env["_start"] = _set(env["_start"], env["k"], env["meta_node"], env["total"])
    env["_end"] = _set(env["_end"], env["k"], env["meta_node"], env["total"] + 1)


def hook_atoms_begin(eng, env):
    env["_mode"] = _set(env["_mode"], env["k"], env["meta_node"], z3.IntVal(2))
    env["_start"] = _set(env["_start"], env["k"], env["meta_node"], env["total"])


def hook_atom(eng, env):
    _own(env)
    env["_rank"] = _set(env["_rank"], env["k"], env["mol_node"], env["total"] - env["start"])


def hook_atoms_end(eng, env):
    env["_end"] = _set(env["_end"], env["k"], env["meta_node"], env["total"])


REG.add(Contract("polyply.src.topology:_coord_parser", params=dict(path=PATH, extension=TStr), result=TTuple(TList(V3), TObj), trusted=True,
                 note="vermouth .gro / .pdb readers: the list of coordinates in file order and the box"))
REG.add(Contract("polyply.src.linalg_functions:center_of_geometry", params=dict(points=TList(V3)), result=V3, trusted=True,
                 note="numpy.average over the rows (value not interpreted)"))

INV_ARGS = "self, old(self), positions, _mode, _start, _end, _rank, _rowm, _rowx, total"
ADD = REG.add(Contract(
    "polyply.src.topology:Topology.add_positions_from_file",
    params=dict(self=TOPOLOGY, path=TObj, skip_res=TList(TStr), resolution=TStr),
    requires={"atoms of residues are atoms of their molecule; residues of a molecule share no atom": "wf(self)"},
    axioms={"ghost owner function (definitional extension, consistent because residues share no atom)": "owner_def(self)"},
    raises_when={"OSError": "start < len(positions) and total >= len(positions)"},
    ensures={"every residue was either skipped (flagged build + backmap, untouched), given one file row as its centre (flagged backmap), or "
             "given one file row per atom, exactly, contiguous and in `index` order (flagged neither); a (ghost) function maps every consumed "
             "file row to THE residue that consumed it, so no row serves two residues":
             f"residues_ok({INV_ARGS})",
             "atoms outside residues read at atom resolution keep all attributes": "rest_untouched(self, old(self), _mode)",
             "nothing else of the topology changes": "frame(self, old(self))"},
    modifies=["self.molecules", "self.box"],
    ghost_locals={"_mode": GHOST, "_start": GHOST, "_end": GHOST, "_rank": GHOST, "_rowm": TDict(TInt, TInt), "_rowx": TDict(TInt, TNode)},
    ghost={'after:meta_mol.nodes[meta_node]["build"] = True': hook_skip,
           'after:meta_mol.nodes[meta_node]["position"] = positions[total]': hook_centre,
           "after:start = total": hook_atoms_begin,
           'after:meta_mol.molecule.nodes[mol_node]["position"] = positions[total]': hook_atom,
           'after:meta_mol.nodes[meta_node]["backmap"] = False': hook_atoms_end},
    loops={0: Loop({"frame": "frame(self, old(self))", "still well-formed": "wf(self)", "cursor": "0 <= total and total <= len(positions)",
                    "molecules read so far": f"residues_ok({INV_ARGS}, k)",
                    "the rest is untouched": "rest_untouched(self, old(self), _mode, k)"},
                   modifies=["_mode", "_start", "_end", "_rank", "_rowm", "_rowx"]),
           1: Loop({"frame": "frame(self, old(self))", "still well-formed": "wf(self)", "cursor": "0 <= total and total <= len(positions)",
                    "residues read so far": f"residues_ok({INV_ARGS}, k, _pos1, k1)",
                    "the rest is untouched": "rest_untouched(self, old(self), _mode, k, _pos1, k1)"},
                   index="k1", modifies=["_mode", "_start", "_end", "_rank", "_rowm", "_rowx"]),
           2: Loop({"frame": "frame(self, old(self))", "still well-formed": "wf(self)",
                    "residues read so far": f"residues_ok({INV_ARGS.replace('total', 'start')}, k, _pos1, k1)",
                    "atoms of this residue read so far": "row_so_far(self, old(self), positions, _rank, _rowm, _rowx, k, meta_node, mol_nodes, start, total, k2)",
                    "the rest is untouched": "rest_untouched(self, old(self), _mode, k, _pos1, k1, meta_node, _sorted_pos, k2)",
                    "this residue": "this_residue(self, old(self), k, meta_node, _mode, _start, start) and cur_facts(old(self), k, meta_node, mol_nodes)"},
                   index="k2", modifies=["_rank", "_rowm", "_rowx"])},
    spec_fns=dict(no_row_twice=no_row_twice, cur_facts=cur_facts, wf=wf, owner_def=owner_def, frame=frame, residues_ok=residues_ok, rest_untouched=rest_untouched, row_so_far=row_so_far,
                  this_residue=lambda S, S0, k, x, mode, start, st: z3.And(RES.eq(res(S, k, x), res(S0, k, x)), g(mode, k, x) == 2, g(start, k, x) == st)),
    props=("C04",),
    note="center_of_geometry and the coordinate file readers are assumed callees; sorted(d, key=d.get) modelled as a ghost permutation of the keys, non-decreasing in the value"))
CONTRACTS = [ADD]

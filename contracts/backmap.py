"""C06 / C04: Backmap._place_init_coords -- which atoms are (re)placed, and where.

C06: 'atoms take the template position of their own atom name in their own residue only'; the placement is
     residue position + fudge * oriented_template[atom name].
C04: 'backmap only flagged residues' -- every atom outside the flagged residues keeps all its attributes (its coordinates).

orient_template (scipy.optimize inside) is an assumed callee: it returns a mapping with the keys of the template it was given; the
rotation it applies is covered by the proved contracts of rotate_xyz / _matrix_multiplication (contracts/linalg.py)."""
import z3
from pyvc.types import (TInt, TReal, TBool, TStr, TNode, TVec, TList, TDict, TRec, TOpt, TGraph, SDict, key_term)
from pyvc.contract import Contract, Registry, Loop
from pyvc import ops

REG = Registry()
V3 = TVec(3)
ATOM = TRec("nodeattrs", atomname=TStr, position=TOpt(V3))
MOLG = TGraph(ATOM)
FRAG = TGraph(TRec("nodeattrs", resid=TInt))
RES = TRec("nodeattrs", backmap=TBool, template=TStr, position=V3, resid=TInt, graph=FRAG)
TEMPLATE = TDict(TStr, V3)
METAMOL = TGraph(RES, cls="polyply.src.meta_molecule:MetaMolecule", molecule=MOLG, templates=TDict(TStr, TEMPLATE))
BACKMAP = TRec("polyply.src.backmap:Backmap", fudge_coords=TReal)
NS = TNode.sort
x_, y_, a_ = z3.Const("x_", NS), z3.Const("y_", NS), z3.Const("a_", NS)
s_ = z3.String("s_")


def rattr(mm, x):
    nd = mm.fields["nodes"]
    return nd.v.unflat([c[x] for c in nd.comps])


def aattr(mol, a):
    nd = mol.fields["nodes"]
    return nd.v.unflat([c[a] for c in nd.comps])


def is_res(mm, x):
    return z3.Select(mm.fields["nodes"].dom, x)


def in_res(mm, x, a):
    return z3.Select(rattr(mm, x).fields["graph"].fields["nodes"].dom, a)


def flagged(mm, x):
    return z3.And(is_res(mm, x), rattr(mm, x).fields["backmap"])


def tpl_of(tpl, x):
    return tpl.v.unflat([c[x] for c in tpl.comps])       # the oriented template recorded for residue x (ghost)


def placed(mm, mol, self_, tpl, x, a):
    """atom a sits at  position(x) + fudge * oriented_template_x[atomname(a)]"""
    at = aattr(mol, a)
    name = at.fields["atomname"]
    t = tpl_of(tpl, x)
    vec = [c[name] for c in t.comps]
    cg = rattr(mm, x).fields["position"]
    p = at.fields["position"]
    return z3.And(z3.Not(p.none), *[ops.real(p.val.data[i]) == ops.real(cg.data[i]) + vec[i] * ops.real(self_.fields["fudge_coords"]) for i in range(3)])


def wf(mm):
    """every flagged residue has a template with an entry for each of its atoms' names, residues share no atom, atoms of residues are
    atoms of the molecule"""
    mol = mm.fields["molecule"]
    tps = mm.fields["templates"]
    tname = rattr(mm, x_).fields["template"]
    t_x = tps.v.unflat([c[tname] for c in tps.comps])
    return z3.And(
        z3.ForAll([x_], z3.Implies(flagged(mm, x_), z3.Select(tps.dom, tname))),
        z3.ForAll([x_, a_], z3.Implies(z3.And(is_res(mm, x_), in_res(mm, x_, a_)), z3.Select(mol.fields["nodes"].dom, a_))),
        z3.ForAll([x_, a_], z3.Implies(z3.And(flagged(mm, x_), in_res(mm, x_, a_)), z3.Select(t_x.dom, aattr(mol, a_).fields["atomname"]))),
        z3.ForAll([x_, y_, a_], z3.Implies(z3.And(is_res(mm, x_), is_res(mm, y_), x_ != y_), z3.Not(z3.And(in_res(mm, x_, a_), in_res(mm, y_, a_))))))


OWNER = z3.Function("residue_of_atom", NS, NS)       # ghost: the residue an atom belongs to (well defined: residues are disjoint)


def owner_def(mm):
    """definitional extension justified by the precondition (residues share no atom): names the residue of an atom"""
    return z3.ForAll([x_, a_], z3.Implies(z3.And(is_res(mm, x_), in_res(mm, x_, a_)), OWNER(a_) == x_))


def done_res(mm, x, pos, k):
    return z3.And(flagged(mm, x), pos(x) < k) if pos is not None else flagged(mm, x)


def residues_placed(mm, self_, tpl, pos=None, k=None, cur=None):
    mol = mm.fields["molecule"]
    # `cur` (the residue being handled, at position k) is excluded explicitly inside its own atom loop: implied by pos(x) < k, but
    # stating it lets the solver see at once that the ghost template recorded for `cur` is irrelevant here
    other = z3.BoolVal(True) if cur is None else x_ != cur
    return z3.ForAll([x_, a_], z3.Implies(z3.And(done_res(mm, x_, pos, k), other, in_res(mm, x_, a_)), placed(mm, mol, self_, tpl, x_, a_)))


def others_untouched(mm, old_mm, pos=None, k=None, cur=None, apos=None, ka=None):
    """atoms outside the residues handled so far keep every attribute; no atom is created or renamed"""
    mol, old_mol = mm.fields["molecule"], old_mm.fields["molecule"]
    if pos is None:
        handled = z3.Exists([x_], z3.And(done_res(old_mm, x_, pos, k), in_res(old_mm, x_, a_)))      # the statement, as written
    else:
        handled = z3.And(done_res(old_mm, OWNER(a_), pos, k), in_res(old_mm, OWNER(a_), a_))           # same thing through the ghost owner
    if cur is not None:
        handled = z3.Or(handled, z3.And(in_res(old_mm, cur, a_), apos(a_) < ka))
    return z3.And(
        mol.fields["nodes"].dom == old_mol.fields["nodes"].dom,
        mol.fields["adj"].dom == old_mol.fields["adj"].dom,
        z3.ForAll([a_], aattr(mol, a_).fields["atomname"] == aattr(old_mol, a_).fields["atomname"]),
        z3.ForAll([a_], z3.Implies(z3.Not(handled), ATOM.eq(aattr(mol, a_), aattr(old_mol, a_)))))


def row_placed(mm, self_, tpl, cur, apos, ka):
    mol = mm.fields["molecule"]
    return z3.ForAll([a_], z3.Implies(z3.And(in_res(mm, cur, a_), apos(a_) < ka), placed(mm, mol, self_, tpl, cur, a_)))


def same_keys(result, template):
    return result.dom == template.dom


def hook_template(eng, env):
    t, x, g = env["template"], env["node"], env["_tpl"]
    fl = g.v.flat(t)
    env["_tpl"] = SDict(g.k, g.v, z3.Store(g.dom, x, True), [z3.Store(c, x, f) for c, f in zip(g.comps, fl)])


ORIENT = REG.add(Contract(
    "polyply.src.backmap:orient_template",
    params=dict(meta_molecule=METAMOL, current_node=TNode, template=TEMPLATE, built_nodes=TList(TInt)), result=TEMPLATE,
    ensures={"the oriented template has an entry for exactly the atom names of the template": "same_keys(result, template)"},
    spec_fns=dict(same_keys=same_keys), trusted=True, props=("C06",),
    note="assumed: runs scipy.optimize; its rotation is rotate_xyz (proved in contracts/linalg.py)"))

PLACE = REG.add(Contract(
    "polyply.src.backmap:Backmap._place_init_coords",
    params=dict(self=BACKMAP, meta_molecule=METAMOL),
    requires={"templates cover the atom names of the flagged residues; residues are disjoint sets of atoms of the molecule": "wf(meta_molecule)"},
    axioms={"ghost owner function (definitional extension, consistent because residues are disjoint)": "owner_def(meta_molecule)"},
    ensures={"every atom of a flagged residue sits at the residue position plus fudge times the oriented template entry of its own atom name":
             "residues_placed(meta_molecule, self, _tpl)",
             "atoms outside the flagged residues keep all their attributes; nothing else of the molecule changes":
             "others_untouched(meta_molecule, old(meta_molecule))",
             "the residue graph and the templates are unchanged":
             "same_nodes(meta_molecule, old(meta_molecule))"},
    modifies=["meta_molecule.molecule.nodes"],
    locals={"built_nodes": TList(TInt)},
    ghost_locals={"_tpl": TDict(TNode, TEMPLATE)},
    ghost={"after:template = orient_template(meta_molecule, node, meta_molecule.templates[resname], built_nodes)": hook_template},
    loops={0: Loop({"flagged residues visited so far are placed": "residues_placed(meta_molecule, self, _tpl, _pos0, k)",
                    "all other atoms untouched": "others_untouched(meta_molecule, old(meta_molecule), _pos0, k)"},
                   modifies=["_tpl"]),
           1: Loop({"flagged residues visited so far are placed": "residues_placed(meta_molecule, self, _tpl, _pos0, k, node)",
                    "atoms of this residue visited so far are placed": "row_placed(meta_molecule, self, _tpl, node, _pos1, ka)",
                    "all other atoms untouched": "others_untouched(meta_molecule, old(meta_molecule), _pos0, k, node, _pos1, ka)"},
                   index="ka")},
    spec_fns=dict(wf=wf, owner_def=owner_def, residues_placed=residues_placed, others_untouched=others_untouched, row_placed=row_placed,
                  same_nodes=lambda a, b: z3.And(METAMOL.fields["nodes"].eq(a.fields["nodes"], b.fields["nodes"]),
                                                 a.fields["templates"].dom == b.fields["templates"].dom)),
    props=("C06", "C04"),
    note="the oriented template of each residue is a ghost value recorded when orient_template returns"))

CONTRACTS = [PLACE]

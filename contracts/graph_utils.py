"""C10: polyply/src/graph_utils.py -- which residue-graph edges are realised by an atom-level edge, and which are reported.

Graph model (pyvc.types.TGraph): node table + adjacency relation over ordered node pairs.  networkx is a dependency: its
`degree` is an uninterpreted function of (adjacency relation, node); the only fact used about it is the

  DEGREE LEMMA   adj_F subset of adj_M,  adj_M(x, y),  not adj_F(x, y)   ==>   degree_F(x) < degree_M(x)

(a node with an edge that leaves the fragment has a smaller degree inside the fragment), assumed as an axiom of the body proof
of find_connecting_edges and certified against Mathlib in lean/Degree.lean (finite graphs, degree = number of neighbours)."""
import z3
from pyvc.types import (TInt, TStr, TNode, TTuple, TList, TDict, TRec, TDefaultDict, TGraph, SDict, key_term, slist_get)
from pyvc.contract import Contract, Registry, Loop
from pyvc.methods import nx_degree

REG = Registry()
AATTR = TRec("nodeattrs", resid=TInt)                       # atom attributes (not read by these functions)
FRAG = TGraph(AATTR)                                         # the 'graph' attribute of a residue: the atoms it stands for
MOL = TGraph(AATTR)
RATTR = TRec("nodeattrs", graph=FRAG, resname=TStr, resid=TInt)
RESG = TGraph(RATTR)
PAIR = TTuple(TNode, TNode)
NS = TNode.sort
x_, y_ = z3.Const("x_", NS), z3.Const("y_", NS)
a_, b_ = z3.Const("a_", NS), z3.Const("b_", NS)
r_ = z3.Const("r_", NS)
s_ = z3.Const("s_", NS)
i_, j_ = z3.Int("i_"), z3.Int("j_")


def rattr(rg, r):
    nd = rg.fields["nodes"]
    return nd.v.unflat([c[r] for c in nd.comps])


def frag(rg, r):
    return rattr(rg, r).fields["graph"]


def is_node(g, x):
    return z3.Select(g.fields["nodes"].dom, x)


def in_frag(rg, r, x):
    return is_node(frag(rg, r), x)


def adj(g, a, b):
    s = g.fields["adj"]
    return z3.Select(s.dom, key_term(s.k, (a, b)))


def deg(g, x):
    return nx_degree(g.fields["adj"].dom, x)


def fragment_of(rg, mol, r):
    """the residue's fragment is a sub-graph of the molecule: its atoms are atoms of the molecule, its edges are edges of the
    molecule between its own atoms"""
    f = frag(rg, r)
    return z3.And(z3.ForAll([x_], z3.Implies(is_node(f, x_), is_node(mol, x_))),
                  z3.ForAll([x_, y_], z3.Implies(adj(f, x_, y_), z3.And(adj(mol, x_, y_), is_node(f, x_), is_node(f, y_)))))


def disjoint(rg, r, s):
    return z3.ForAll([x_], z3.Not(z3.And(in_frag(rg, r, x_), in_frag(rg, s, x_))))


def symmetric(g):
    return z3.ForAll([x_, y_], adj(g, x_, y_) == adj(g, y_, x_))


def wf_pair(res_graph, molecule, nodes):
    A, B = nodes
    return z3.And(is_node(res_graph, A), is_node(res_graph, B), A != B, fragment_of(res_graph, molecule, A),
                  fragment_of(res_graph, molecule, B), disjoint(res_graph, A, B), symmetric(molecule))


def degree_lemma(res_graph, molecule, nodes):
    out = []
    for r in nodes:
        f = frag(res_graph, r)
        out.append(z3.ForAll([x_, y_], z3.Implies(z3.And(adj(molecule, x_, y_), z3.Not(adj(f, x_, y_))), deg(f, x_) < deg(molecule, x_))))
    return z3.And(*out)


# ---- find_connecting_edges --------------------------------------------------------------------------------------------
def wit(w, r, x):
    return w.comps[0][key_term(w.k, (r, x))]


def dangling(res_graph, molecule, r, x):
    return deg(frag(res_graph, r), x) != deg(molecule, x)


def allowed_sound(res_graph, molecule, allowed_nodes, r):
    L = allowed_nodes.v.unflat([c[r] for c in allowed_nodes.comps])
    e = slist_get(L, i_)
    return z3.ForAll([i_], z3.Implies(z3.And(0 <= i_, i_ < L.n), z3.And(in_frag(res_graph, r, e), dangling(res_graph, molecule, r, e))))


def allowed_complete(res_graph, molecule, allowed_nodes, w, r, pos=None, k=None):
    """every atom of the fragment (visited so far) with a dangling edge is in the list; the ghost array names its index"""
    L = allowed_nodes.v.unflat([c[r] for c in allowed_nodes.comps])
    seen = z3.BoolVal(True) if pos is None else pos(x_) < k
    return z3.ForAll([x_], z3.Implies(z3.And(in_frag(res_graph, r, x_), seen, dangling(res_graph, molecule, r, x_)),
                                      z3.And(0 <= wit(w, r, x_), wit(w, r, x_) < L.n, slist_get(L, wit(w, r, x_)) == x_)))


def others_untouched(allowed_nodes, w, old_allowed, old_w, r):
    same_lists = z3.And(*[z3.ForAll([s_], z3.Implies(s_ != r, c[s_] == d[s_])) for c, d in zip(allowed_nodes.comps, old_allowed.comps)])
    return z3.And(same_lists, z3.ForAll([s_, x_], z3.Implies(s_ != r, wit(w, s_, x_) == wit(old_w, s_, x_))))


def edges_sound(res_graph, molecule, nodes, edges):
    A, B = nodes
    a, b = slist_get(edges, i_)
    return z3.ForAll([i_], z3.Implies(z3.And(0 <= i_, i_ < edges.n), z3.And(in_frag(res_graph, A, a), in_frag(res_graph, B, b), adj(molecule, a, b))))


def pairs_done(molecule, allowed_nodes, nodes, edges, upto):
    """every pair (LA[i], LB[j]) with i < upto that is an edge of the molecule has made the result non-empty"""
    A, B = nodes
    LA = allowed_nodes.v.unflat([c[A] for c in allowed_nodes.comps])
    LB = allowed_nodes.v.unflat([c[B] for c in allowed_nodes.comps])
    return z3.ForAll([i_, j_], z3.Implies(z3.And(0 <= i_, i_ < upto, 0 <= j_, j_ < LB.n, adj(molecule, slist_get(LA, i_), slist_get(LB, j_))),
                                          edges.n > 0))


def row_done(molecule, allowed_nodes, nodes, edges, a, upto):
    B = nodes[1]
    LB = allowed_nodes.v.unflat([c[B] for c in allowed_nodes.comps])
    return z3.ForAll([j_], z3.Implies(z3.And(0 <= j_, j_ < upto, adj(molecule, a, slist_get(LB, j_))), edges.n > 0))


def connected(res_graph, molecule, A, B):
    """some atom of residue A is bonded to some atom of residue B"""
    return z3.Exists([a_, b_], z3.And(in_frag(res_graph, A, a_), in_frag(res_graph, B, b_), adj(molecule, a_, b_)))


def complete_nonempty(res_graph, molecule, nodes, result):
    A, B = nodes
    return z3.ForAll([a_, b_], z3.Implies(z3.And(in_frag(res_graph, A, a_), in_frag(res_graph, B, b_), adj(molecule, a_, b_)), result.n > 0))


def first_is_witness(res_graph, molecule, nodes, result):
    """ground instance of edges_sound at index 0 (gives callers the witness of `connected` without quantifier instantiation)"""
    A, B = nodes
    a, b = slist_get(result, z3.IntVal(0))
    return z3.Implies(result.n > 0, z3.And(in_frag(res_graph, A, a), in_frag(res_graph, B, b), adj(molecule, a, b)))


def hook_witness(eng, env):
    w, r, x = env["_wit"], env["res_node"], env["node"]
    al = env["allowed_nodes"]
    L = al.v.unflat([c[r] for c in al.comps])
    env["_wit"] = SDict(w.k, w.v, w.dom, [z3.Store(w.comps[0], key_term(w.k, (r, x)), L.n - 1)])


FIND_CONNECTING = REG.add(Contract(
    "polyply.src.graph_utils:find_connecting_edges",
    params=dict(res_graph=RESG, molecule=MOL, nodes=PAIR), result=TList(PAIR),
    requires={"two different residues whose fragments are disjoint sub-graphs of the (undirected) molecule": "wf_pair(res_graph, molecule, nodes)"},
    axioms={"degree lemma (lean/Degree.lean): an edge leaving the fragment lowers the degree inside it": "degree_lemma(res_graph, molecule, nodes)"},
    ensures={"every returned pair is an edge of the molecule from an atom of the first residue to an atom of the second":
             "edges_sound(res_graph, molecule, nodes, result)",
             "if any atom of the first residue is bonded to any atom of the second, the result is not empty":
             "complete_nonempty(res_graph, molecule, nodes, result)",
             "a non-empty result starts with such an edge (instance of the first clause)": "first_is_witness(res_graph, molecule, nodes, result)"},
    locals={"allowed_nodes": TDefaultDict(TNode, TList(TNode)), "edges": TList(PAIR)},
    ghost_locals={"_wit": TDict(PAIR, TInt)},
    ghost={"after:allowed_nodes[res_node].append(node)": hook_witness},
    loops={
        1: Loop({"listed atoms belong to the residue and have a dangling edge": "allowed_sound(res_graph, molecule, allowed_nodes, res_node)",
                 "every visited atom with a dangling edge is listed (ghost index)": "allowed_complete(res_graph, molecule, allowed_nodes, _wit, res_node, _pos1, k)",
                 "the other residues' lists are untouched": "others_untouched(allowed_nodes, _wit, entry['allowed_nodes'], entry['_wit'], res_node)"},
                modifies=["_wit"]),
        2: Loop({"collected pairs are edges between the two residues": "edges_sound(res_graph, molecule, nodes, edges)",
                 "all pairs of the rows handled so far": "pairs_done(molecule, allowed_nodes, nodes, edges, ia)"}, index="ia"),
        3: Loop({"collected pairs are edges between the two residues": "edges_sound(res_graph, molecule, nodes, edges)",
                 "all pairs of the rows handled so far": "pairs_done(molecule, allowed_nodes, nodes, edges, ia)",
                 "the pairs of this row handled so far": "row_done(molecule, allowed_nodes, nodes, edges, high_res_node_a, ib)"}, index="ib"),
    },
    spec_fns=dict(wf_pair=wf_pair, degree_lemma=degree_lemma, first_is_witness=first_is_witness, edges_sound=edges_sound, complete_nonempty=complete_nonempty,
                  allowed_sound=allowed_sound, allowed_complete=allowed_complete, others_untouched=others_untouched,
                  pairs_done=pairs_done, row_done=row_done),
    props=("C10",),
    note="networkx degree/has_edge/node iteration modelled; degree of a node that is not in the graph is not modelled (excluded by the precondition)"))


# ---- find_missing_edges -----------------------------------------------------------------------------------------------
MISSING = TRec("missing", resA=TStr, idxA=TInt, resB=TStr, idxB=TInt)


def wf_all(res_graph, molecule):
    """the residue graph as gen_params builds it: every residue stands for a sub-graph of the molecule, different residues share
    no atom, no residue is adjacent to itself, adjacent residues exist"""
    return z3.And(symmetric(molecule),
                  z3.ForAll([r_], z3.Implies(is_node(res_graph, r_), fragment_of(res_graph, molecule, r_))),
                  z3.ForAll([r_, s_], z3.Implies(z3.And(is_node(res_graph, r_), is_node(res_graph, s_), r_ != s_), disjoint(res_graph, r_, s_))),
                  z3.ForAll([r_, s_], z3.Implies(adj(res_graph, r_, s_), z3.And(r_ != s_, is_node(res_graph, r_), is_node(res_graph, s_)))))


def record_of(res_graph, o, t):
    ao, at = rattr(res_graph, o), rattr(res_graph, t)
    return [ao.fields["resname"], ao.fields["resid"], at.fields["resname"], at.fields["resid"]]


def rec_eq(y, fields):
    return z3.And(*[u == v for u, v in zip(MISSING.flat(y), fields)])


def arr(d):
    return d.comps[0]


def unconnected_reported(res_graph, molecule, seq, upto, Y, ypos):
    """never neither: a residue edge (among the first `upto`) without a connecting atom-level edge has its record in the output"""
    o, t = slist_get(seq, j_)
    return z3.ForAll([j_], z3.Implies(z3.And(0 <= j_, j_ < upto, z3.Not(connected(res_graph, molecule, o, t))),
                                      z3.And(0 <= arr(ypos)[j_], arr(ypos)[j_] < Y.n, rec_eq(slist_get(Y, arr(ypos)[j_]), record_of(res_graph, o, t)))))


def reported_unconnected(res_graph, molecule, seq, upto, Y, ypos, ysrc):
    """never both: every record in the output names a residue edge (among the first `upto`) that has NO connecting atom-level edge,
    and different records stem from different residue edges"""
    src = arr(ysrc)[i_]
    o, t = slist_get(seq, src)
    return z3.ForAll([i_], z3.Implies(z3.And(0 <= i_, i_ < Y.n),
                                      z3.And(0 <= src, src < upto, z3.Not(connected(res_graph, molecule, o, t)),
                                             rec_eq(slist_get(Y, i_), record_of(res_graph, o, t)), arr(ypos)[src] == i_)))


def hook_yield(eng, env):
    Y, k = env["__yield__"], env["k"]
    yp, ys = env["_ypos"], env["_ysrc"]
    env["_ypos"] = SDict(yp.k, yp.v, yp.dom, [z3.Store(yp.comps[0], k, Y.n - 1)])
    env["_ysrc"] = SDict(ys.k, ys.v, ys.dom, [z3.Store(ys.comps[0], Y.n - 1, k)])


FIND_MISSING = REG.add(Contract(
    "polyply.src.graph_utils:find_missing_edges",
    params=dict(res_graph=RESG, molecule=MOL), result=TList(MISSING),
    requires={"residues are disjoint sub-graphs of the undirected molecule, no residue is its own neighbour": "wf_all(res_graph, molecule)"},
    ensures={"never neither: every residue-graph edge without an atom-level edge between the two residues is reported with both names and ids":
             "unconnected_reported(res_graph, molecule, _seq0, len(_seq0), result, _ypos)",
             "never both: every report names a residue-graph edge that has no atom-level edge between the two residues, one report per edge":
             "reported_unconnected(res_graph, molecule, _seq0, len(_seq0), result, _ypos, _ysrc)"},
    locals={"__yield__": TList(MISSING)},
    ghost_locals={"_ypos": TDict(TInt, TInt), "_ysrc": TDict(TInt, TInt)},
    ghost={'after:yield {"resA": resA, "idxA": idxA, "resB": resB, "idxB": idxB}': hook_yield},
    loops={0: Loop({"never neither, for the edges visited": "unconnected_reported(res_graph, molecule, _seq0, k, __yield__, _ypos)",
                    "never both, for the reports made": "reported_unconnected(res_graph, molecule, _seq0, k, __yield__, _ypos, _ysrc)"},
                   modifies=["_ypos", "_ysrc", "__yield__"])},
    spec_fns=dict(wf_all=wf_all, unconnected_reported=unconnected_reported, reported_unconnected=reported_unconnected),
    props=("C10",),
    note="generator modelled as the list of the yielded values in order; G.edges modelled as a ghost sequence listing every adjacent unordered pair once"))

CONTRACTS = [FIND_CONNECTING, FIND_MISSING]

"""C15 ('each template holds one position per atom name with zero centre of geometry'): generate_templates.map_from_CoG.
The centre of geometry itself (numpy.average over the rows) is an assumed callee; what is proved is that every stored vector is the
atom's position minus ONE common vector, the centre that callee returned, and that the template has exactly the keys of the input."""
import z3
from pyvc.types import TNode, TVec, TDict, TList, key_term
from pyvc.contract import Contract, Registry, Loop

REG = Registry()
V3 = TVec(3)
COORDS = TDict(TNode, V3)
x_ = z3.Const("x_", TNode.sort)
CENTRE = [z3.Function(f"centre_of_geometry_{ax}", *( [s for s in TList(V3).sorts()] + [z3.RealSort()])) for ax in "xyz"]


def centre_of(points):
    fl = TList(V3).flat(points)
    return [f(*fl) for f in CENTRE]


REG.add(Contract("polyply.src.linalg_functions:center_of_geometry", params=dict(points=TList(V3)), result=V3,
                 defines={"names the result (a function of the points)": "is_centre(result, points)"},
                 spec_fns=dict(is_centre=lambda r, pts: z3.And(*[a == b for a, b in zip(r.data, centre_of(pts))])), trusted=True,
                 note="numpy.average over the rows: the mean position (value not interpreted; that the mean of the differences is then zero is certified in lean/Centroid.lean)"))


def shifted(out, coords, pts, pos=None, k=None):
    """same keys; every vector is the position minus the centre the callee returned (for the keys visited so far)"""
    c = centre_of(pts)
    seen = z3.BoolVal(True) if pos is None else pos(x_) < k
    o = [cc[x_] for cc in out.comps]
    i = [cc[x_] for cc in coords.comps]
    body = z3.And(*[a == b - cv for a, b, cv in zip(o, i, c)])
    return z3.ForAll([x_], z3.And(z3.Select(out.dom, x_) == z3.And(z3.Select(coords.dom, x_), seen), z3.Implies(z3.And(z3.Select(coords.dom, x_), seen), body)))


MAP_COG = REG.add(Contract(
    "polyply.src.generate_templates:map_from_CoG", params=dict(coords=COORDS), result=COORDS,
    ensures={"one vector per atom of the input, each the atom's position minus the common centre of geometry": "shifted(result, coords, points)"},
    exposes={"points": TList(V3)}, locals={"out_vectors": COORDS},
    loops={0: Loop({"atoms so far": "shifted(out_vectors, coords, points, _pos0, k)"})},
    spec_fns=dict(shifted=shifted), props=("C15",),
    note="numpy.array(list(coords.values())) is the list of the positions; center_of_geometry through its assumed (definitional) contract"))
CONTRACTS = [MAP_COG]

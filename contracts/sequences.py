"""C12: sequence inputs produce exactly the specified residue graph -- the `-seq name:n ...` route:
MetaMolecule.from_monomer_seq_linear with add_monomer / add_node executed at the call site.

Statement (C12): exactly the stated residues, numbered consecutively from 1 in input order, connected linearly."""
import z3
from pyvc.types import (TInt, TStr, TBool, TObj, TTuple, TList, TRec, TConst, TGraph, FuncRef, slist_get, key_term)
from pyvc.contract import Contract, Registry, Loop

REG = Registry()
MATTR = TRec("nodeattrs", resname=TStr, resid=TInt, build=TBool, backmap=TBool)
METAMOL = TGraph(MATTR, key=TInt, cls="polyply.src.meta_molecule:MetaMolecule", max_resid=TInt, force_field=TObj, mol_name=TObj)
MONOMER = TRec("Monomer", resname=TStr, n_blocks=TInt)
PS = z3.Function("blocks_before", z3.IntSort(), z3.IntSort())      # ghost: number of residues contributed by the monomers before index m
i_, j_, m_ = z3.Int("i_"), z3.Int("j_"), z3.Int("m_")


def nblocks(monomers, m):
    n = slist_get(monomers, m).fields["n_blocks"]
    return z3.If(n > 0, n, 0)          # `while trans < n_blocks` adds nothing for n_blocks <= 0


def ps_def(monomers):
    return z3.And(PS(0) == 0, z3.ForAll([m_], z3.Implies(z3.And(0 <= m_, m_ < monomers.n), PS(m_ + 1) == PS(m_) + nblocks(monomers, m_))))


a_, b_ = z3.Int("a_"), z3.Int("b_")


def ps_monotone(monomers):
    """consequence of the definition by induction (lemma_ps_monotone below proves base and step)"""
    return z3.ForAll([a_, b_], z3.Implies(z3.And(0 <= a_, a_ <= b_, b_ <= monomers.n), PS(a_) <= PS(b_)))


def lemma_ps_monotone(ctx):
    """induction on b for  P(b) := forall a <= b. PS(a) <= PS(b)  over the definition of the prefix sum"""
    mons = TList(MONOMER).fresh("monomers")
    b = z3.Int("b")
    hyp_def = ps_def(mons)
    P = lambda bb: z3.ForAll([a_], z3.Implies(z3.And(0 <= a_, a_ <= bb), PS(a_) <= PS(bb)))      # noqa: E731
    return [("base: P(0)", [hyp_def, mons.n >= 0], P(z3.IntVal(0))),
            ("step: P(b) and b < len  ->  P(b + 1)", [hyp_def, mons.n >= 0, 0 <= b, b < mons.n, P(b)], P(b + 1))]


def attrs(mol, i):
    nd = mol.fields["nodes"]
    return nd.v.unflat([c[i] for c in nd.comps])


def adj(mol, a, b):
    s = mol.fields["adj"]
    return z3.Select(s.dom, key_term(s.k, (a, b)))


def chain(mol, count):
    """nodes 0..count-1, node i has residue id i+1 and is to be built, edges exactly between consecutive nodes"""
    nd = mol.fields["nodes"]
    a = attrs(mol, i_)
    return z3.And(
        mol.fields["max_resid"] == count,
        z3.ForAll([i_], z3.Select(nd.dom, i_) == z3.And(0 <= i_, i_ < count)),
        z3.ForAll([i_], z3.Implies(z3.And(0 <= i_, i_ < count), z3.And(a.fields["resid"] == i_ + 1, a.fields["build"], a.fields["backmap"]))),
        z3.ForAll([i_, j_], adj(mol, i_, j_) == z3.And(0 <= i_, i_ < count, 0 <= j_, j_ < count, z3.Or(j_ == i_ + 1, i_ == j_ + 1))))


def named(mol, monomers, upto):
    """the residues contributed by monomer m (for m < upto) carry its name"""
    a = attrs(mol, i_)
    return z3.ForAll([m_, i_], z3.Implies(z3.And(0 <= m_, m_ < upto, PS(m_) <= i_, i_ < PS(m_ + 1)),
                                          a.fields["resname"] == slist_get(monomers, m_).fields["resname"]))


def named_partial(mol, monomers, k, count):
    a = attrs(mol, i_)
    return z3.ForAll([i_], z3.Implies(z3.And(PS(k) <= i_, i_ < count), a.fields["resname"] == slist_get(monomers, k).fields["resname"]))


def empty_graph(mol):
    nd = mol.fields["nodes"]
    return z3.And(mol.fields["max_resid"] == 0, z3.ForAll([i_], z3.Not(z3.Select(nd.dom, i_))), z3.ForAll([i_, j_], z3.Not(adj(mol, i_, j_))))


CTOR = REG.add(Contract(
    "polyply.src.meta_molecule:MetaMolecule", params=dict(force_field=TObj, mol_name=TObj), result=METAMOL,
    ensures={"a MetaMolecule made without graph data is empty and has handed out no residue id": "empty_graph(result)"},
    spec_fns=dict(empty_graph=empty_graph), trusted=True, props=("C12",),
    note="constructor (calls networkx.Graph.__init__ through super()): assumed"))

FROM_SEQ = REG.add(Contract(
    "polyply.src.meta_molecule:MetaMolecule.from_monomer_seq_linear",
    params=dict(cls=TConst(FuncRef("polyply.src.meta_molecule", "MetaMolecule")), force_field=TObj, monomers=TList(MONOMER), mol_name=TObj),
    result=METAMOL,
    axioms={"definition of the ghost prefix sum blocks_before": "ps_def(monomers)",
            "the prefix sum is monotone (proved by induction in the lemma unit prefix-sum-monotone)": "ps_monotone(monomers)"},
    ensures={"the residues are 0..T-1 with T the total number of blocks, numbered consecutively from 1 in input order, connected linearly":
             "chain(result, PS(len(monomers)))",
             "each monomer's residues carry its name, in input order": "named(result, monomers, len(monomers))"},
    loops={0: Loop({"the chain built so far": "chain(meta_mol_graph, res_count)", "count": "res_count == PS(k)",
                    "names so far": "named(meta_mol_graph, monomers, k)"}),
           1: Loop({"the chain built so far": "chain(meta_mol_graph, res_count)",
                    "count": "res_count == PS(k) + trans and trans >= 0 and (trans <= monomer.n_blocks or trans == 0)",
                    "names so far": "named(meta_mol_graph, monomers, k)",
                    "names of this monomer so far": "named_partial(meta_mol_graph, monomers, k, res_count)"})},
    spec_fns=dict(chain=chain, named=named, named_partial=named_partial, ps_def=ps_def, ps_monotone=ps_monotone, PS=lambda x: PS(x)),
    inline_callees=("polyply.src.meta_molecule:MetaMolecule.add_monomer", "polyply.src.meta_molecule:MetaMolecule.add_node"),
    props=("C12",),
    note="add_monomer and the add_node override are executed at the call site; networkx add_node/add_edge/has_node modelled"))

CONTRACTS = [FROM_SEQ]

# the class-call contract CTOR is the postcondition of MetaMolecule.__init__ without graph data, which is verified on its own
# (contracts/metamol_init.py, instance no-graph-data); what stays assumed is the constructor protocol of the language
from contracts import metamol_init as _MI      # noqa: E402
CTOR.alias_of = _MI.INIT_EMPTY


def lemma_ctor_alias(ctx):
    """the proved postcondition of __init__ (no graph data) implies the class-call contract used by from_monomer_seq_linear"""
    s_ = _MI.SELF.fresh("self")
    return [("postcondition of MetaMolecule.__init__ without graph data  ->  `a MetaMolecule made without graph data is empty and has handed out no residue id`",
             [_MI.initialised_empty(s_)], empty_graph(s_))]


# ---- simple_seq_parsers._monomers_to_linear_nx_graph: the builder behind the .txt / .fasta / .ig readers --------------------------
from pyvc.types import TNode, TOpt        # noqa: E402
SATTR = TRec("nodeattrs", resname=TOpt(TNode), resid=TOpt(TInt))
SEQGRAPH = TGraph(SATTR, key=TInt, ordered=True)


def seq_chain(g, monomers):
    """nodes 0..n-1 inserted in that order, node i named monomers[i] and numbered i + 1, edges exactly between consecutive nodes"""
    nd = g.fields["nodes"]
    a = nd.v.unflat([c[i_] for c in nd.comps])
    n = monomers.n
    return z3.And(
        z3.ForAll([i_], z3.Select(nd.dom, i_) == z3.And(0 <= i_, i_ < n)),
        nd.order.n == n, z3.ForAll([i_], z3.Implies(z3.And(0 <= i_, i_ < n), nd.order.comps[0][i_] == i_)),
        z3.ForAll([i_], z3.Implies(z3.And(0 <= i_, i_ < n), z3.And(
            z3.Not(a.fields["resid"].none), a.fields["resid"].val == i_ + 1,
            z3.Not(a.fields["resname"].none), a.fields["resname"].val == slist_get(monomers, i_)))),
        z3.ForAll([i_, j_], adj(g, i_, j_) == z3.And(0 <= i_, i_ < n, 0 <= j_, j_ < n, z3.Or(j_ == i_ + 1, i_ == j_ + 1))))


REG2 = Registry()
LINEAR_NX = REG2.add(Contract(
    "polyply.src.simple_seq_parsers:_monomers_to_linear_nx_graph", params=dict(monomers=TList(TNode)), result=SEQGRAPH,
    ensures={"exactly the stated residues, numbered consecutively from 1 in input order, connected linearly": "seq_chain(result, monomers)"},
    locals={"seq_graph": SEQGRAPH}, spec_fns=dict(seq_chain=seq_chain), props=("C12", "C19"),
    note="networkx calls modelled (Graph(), add_nodes_from(range), add_edges_from(zip of ranges), set_node_attributes); residue names compared only"))


def _ps_interp(args):
    mons = args["monomers"]
    pre = [0]
    for m in mons:
        pre.append(pre[-1] + max(m["n_blocks"], 0))
    return {"blocks_before": lambda m: pre[int(m)] if 0 <= int(m) < len(pre) else 0, "__window__": pre[-1] + 3}


FROM_SEQ.ghost_interp = _ps_interp


# ---- gen_seq._find_terminal_nodes: a terminus is a residue with exactly one neighbour -----------------------------------------------
from pyvc.types import TDict as _TD, SDict as _SD      # noqa: E402
from pyvc.methods import nx_degree as _deg              # noqa: E402
TG = TGraph(TRec("nodeattrs", seqid=TInt))
REG3 = Registry()
x_ = z3.Const("x_", TNode.sort)


def _isn(g, x):
    return z3.Select(g.fields["nodes"].dom, x)


def _d1(g, x):
    return _deg(g.fields["adj"].dom, x) == 1


def term_sound(g, Y, upto=None, pos=None):
    e = slist_get(Y, i_)
    seen = z3.BoolVal(True) if pos is None else pos(e) < upto
    return z3.ForAll([i_], z3.Implies(z3.And(0 <= i_, i_ < Y.n), z3.And(_isn(g, e), _d1(g, e), seen)))


def term_distinct(Y):
    return z3.ForAll([i_, j_], z3.Implies(z3.And(0 <= i_, i_ < j_, j_ < Y.n), slist_get(Y, i_) != slist_get(Y, j_)))


def term_complete_wit(g, Y, w, upto, pos):
    wi = w.comps[0][x_]
    return z3.ForAll([x_], z3.Implies(z3.And(_isn(g, x_), pos(x_) < upto, _d1(g, x_)), z3.And(0 <= wi, wi < Y.n, slist_get(Y, wi) == x_)))


def term_complete(g, Y):
    return z3.ForAll([x_], z3.Implies(z3.And(_isn(g, x_), _d1(g, x_)), z3.Exists([i_], z3.And(0 <= i_, i_ < Y.n, slist_get(Y, i_) == x_))))


def _hook_term(eng, env):
    w, Y, x = env["_tw"], env["termini"], env["node"]
    env["_tw"] = _SD(w.k, w.v, w.dom, [z3.Store(w.comps[0], x, Y.n - 1)])


TERMINAL_NODES = REG3.add(Contract(
    "polyply.src.gen_seq:_find_terminal_nodes", params=dict(graph=TG), result=TList(TNode),
    ensures={"every listed node is a node of the graph with exactly one neighbour": "term_sound(graph, result)",
             "every such node is listed": "term_complete(graph, result)", "none twice": "term_distinct(result)"},
    locals={"termini": TList(TNode)}, ghost_locals={"_tw": _TD(TNode, TInt)}, ghost={"after:termini.append(node)": _hook_term},
    loops={0: Loop({"sound": "term_sound(graph, termini, k, _pos0)", "complete (ghost index)": "term_complete_wit(graph, termini, _tw, k, _pos0)",
                    "distinct": "term_distinct(termini)"}, modifies=["_tw"])},
    spec_fns=dict(term_sound=term_sound, term_complete=term_complete, term_complete_wit=term_complete_wit, term_distinct=term_distinct),
    props=("C12",), note="networkx degree is an uninterpreted function of the adjacency relation (its graph-theoretic meaning is supplied in the conformance test)"))


# ---- gen_seq connect records: generate_templates.find_atoms (ordered filter) and gen_seq._add_edges ----------------------------------
from pyvc.types import TConst as _TC, TOpt as _TO      # noqa: E402
BATTR = TRec("nodeattrs", seqid=_TO(TInt))
BG = TGraph(BATTR, key=TInt, ordered=True)
REG4 = Registry()
_NT = BG.fields["nodes"]
_NSORTS = _NT.sorts()
BLK_LEN = z3.Function("block_size", *(_NSORTS + [z3.IntSort(), z3.IntSort()]))            # number of nodes of the block with a given seqid
BLK_ELT = z3.Function("block_node", *(_NSORTS + [z3.IntSort(), z3.IntSort(), z3.IntSort()]))   # its i-th node in insertion order
y_ = z3.Int("y_")


def in_block(g, x, value):
    nd = g.fields["nodes"]
    a = nd.v.unflat([c[x] for c in nd.comps]).fields["seqid"]
    return z3.And(z3.Select(nd.dom, x), z3.Not(a.none), a.val == value)


def filt_sound(g, value, Y, upto=None):
    e = slist_get(Y, i_)
    nd = g.fields["nodes"]
    seen = z3.BoolVal(True) if upto is None else nd.pos[e] < upto
    return z3.ForAll([i_], z3.Implies(z3.And(0 <= i_, i_ < Y.n), z3.And(in_block(g, e, value), seen)))


def filt_ordered(g, Y):
    nd = g.fields["nodes"]
    return z3.ForAll([i_, j_], z3.Implies(z3.And(0 <= i_, i_ < j_, j_ < Y.n), nd.pos[slist_get(Y, i_)] < nd.pos[slist_get(Y, j_)]))


def filt_complete_wit(g, value, Y, w, upto):
    nd = g.fields["nodes"]
    wi = w.comps[0][y_]
    return z3.ForAll([y_], z3.Implies(z3.And(in_block(g, y_, value), nd.pos[y_] < upto), z3.And(0 <= wi, wi < Y.n, slist_get(Y, wi) == y_)))


def filt_complete(g, value, Y):
    return z3.ForAll([y_], z3.Implies(in_block(g, y_, value), z3.Exists([i_], z3.And(0 <= i_, i_ < Y.n, slist_get(Y, i_) == y_))))


def named_block(g, value, Y):
    fl = _NT.flat(g.fields["nodes"])
    return z3.And(Y.n == BLK_LEN(*fl, value), z3.ForAll([i_], z3.Implies(z3.And(0 <= i_, i_ < Y.n), slist_get(Y, i_) == BLK_ELT(*fl, value, i_))))


def _hook_blk(eng, env):
    w, Y, x = env["_bw"], env["nodes"], env["node"]
    env["_bw"] = _SD(w.k, w.v, w.dom, [z3.Store(w.comps[0], x, Y.n - 1)])


BLOCK_NODES = REG4.add(Contract(
    "polyply.src.generate_templates:find_atoms", params=dict(molecule=BG, attr=_TC("seqid"), value=TInt), result=TList(TInt),
    ensures={"every listed node carries the attribute with that value": "filt_sound(molecule, value, result)",
             "every such node is listed": "filt_complete(molecule, value, result)",
             "in insertion order of the nodes (so none twice)": "filt_ordered(molecule, result)"},
    defines={"the result is a function of the node table and the value (ghost: block_size, block_node)": "named_block(molecule, value, result)"},
    locals={"nodes": TList(TInt)}, ghost_locals={"_bw": _TD(TInt, TInt)}, ghost={"after:nodes.append(node)": _hook_blk},
    loops={0: Loop({"sound": "filt_sound(molecule, value, nodes, k)", "complete (ghost index)": "filt_complete_wit(molecule, value, nodes, _bw, k)",
                    "ordered": "filt_ordered(molecule, nodes)"}, modifies=["_bw"])},
    spec_fns=dict(filt_sound=filt_sound, filt_complete=filt_complete, filt_complete_wit=filt_complete_wit, filt_ordered=filt_ordered, named_block=named_block),
    props=("C12",), note="instance attr='seqid' (how gen_seq addresses the residues of a macro block); the node table keeps insertion order"))


NUM = TRec("NumToken", value=TInt)                 # a piece of text that int() turns into `value` (surrounding blanks ignored)
ETOK = TRec("EdgeToken", a=TInt, b=TInt)           # one 'a-b' entry of a connect record
ESTR = TRec("EdgeString", tokens=TList(ETOK))      # the text 'a-b,c-d,...' of a connect record, as the list of its entries
REG4.add(Contract("EdgeString:split", params=dict(self=ESTR, sep=_TC(",")), result=TList(ETOK),
                  ensures={"the entries between the commas": "same_tokens(result, self.tokens)"},
                  spec_fns=dict(same_tokens=lambda r, t: TList(ETOK).eq(r, t)), trusted=True, note="str.split(','): text handling, assumed"))
REG4.add(Contract("EdgeToken:split", params=dict(self=ETOK, sep=_TC("-")), result=TTuple(NUM, NUM),
                  ensures={"the two numbers around the dash (the format has no sign: the dash separates)": "result[0].value == self.a and result[1].value == self.b and self.a >= 0 and self.b >= 0"}, trusted=True,
                  note="str.split('-') of one entry: text handling, assumed (a malformed entry is outside this model)"))


def edges_added(g, g0, estr, idx, jdx, upto):
    """exactly the stated bonds are added (for the first `upto` entries): entry 'a-b' joins the a-th residue of block idx with the b-th
    residue of block jdx (positions in insertion order); every other pair of residues is bonded as before; residues are untouched"""
    fl = _NT.flat(g0.fields["nodes"])
    toks = estr.fields["tokens"]
    t = slist_get(toks, t_)
    na, nb = BLK_ELT(*fl, idx, t.fields["a"]), BLK_ELT(*fl, jdx, t.fields["b"])
    stated = z3.Exists([t_], z3.And(0 <= t_, t_ < upto, z3.Or(z3.And(i_ == na, j_ == nb), z3.And(i_ == nb, j_ == na))))
    same_nodes = z3.And(*[a == b for a, b in zip(_NT.flat(g.fields["nodes"]), fl)])      # the node table is the same value (array equalities)
    return z3.And(same_nodes, z3.ForAll([i_, j_], adj(g, i_, j_) == z3.Or(adj(g0, i_, j_), stated)))


t_ = z3.Int("t_")
ADD_EDGES = REG4.add(Contract(
    "polyply.src.gen_seq:_add_edges", params=dict(graph=BG, edges=ESTR, idx=TInt, jdx=TInt), result=BG,
    raises_when={"OSError": "True"},
    modifies=["graph.adj"],
    ensures={"exactly the bonds the connect record states are added, between the residues it addresses by block and position; nothing else changes":
             "edges_added(graph, old(graph), edges, idx, jdx, len(edges.tokens))",
             "the graph itself is returned": "BG_eq(result, graph)"},
    loops={0: Loop({"entries so far": "edges_added(graph, old(graph), edges, idx, jdx, k) and same_tokens(_seq0, edges.tokens)"})},
    spec_fns=dict(edges_added=edges_added, BG_eq=lambda a, b: BG.eq(a, b) if a is not None else z3.BoolVal(False), same_tokens=lambda r, t: TList(ETOK).eq(r, t)),
    props=("C12",), note="the text of the connect record is modelled as the list of its 'a-b' entries (splitting and int() assumed); find_atoms through its proved contract; "
                         "IOError for a block or a position that does not exist"))


def _blocks_witness(rnd, with_edges):
    n = rnd.randint(1, 6)
    keys = rnd.sample(range(8), n)
    nodes = {k: {"seqid": rnd.choice([None, 0, 1, 1, 2])} for k in keys}
    g = {"nodes": nodes, "adj": set()}

    def block(v):
        return [k for k in nodes if nodes[k]["seqid"] == v]
    ghosts = {"block_size": lambda *a: len(block(int(a[-1]))),
              "block_node": lambda *a: (block(int(a[-2]))[int(a[-1])] if 0 <= int(a[-1]) < len(block(int(a[-2]))) else -7), "__window__": 10}
    if not with_edges:
        return {"molecule": g, "attr": "seqid", "value": rnd.choice([0, 1, 2, 5])}, ghosts
    idx, jdx = rnd.choice([0, 1, 2]), rnd.choice([0, 1, 2])
    toks = [{"a": rnd.randint(0, 2), "b": rnd.randint(0, 2)} for _ in range(rnd.randint(1, 3))]
    return {"graph": g, "edges": {"tokens": toks}, "idx": idx, "jdx": jdx}, ghosts


def _real_block_graph(d):
    import networkx as nx
    g = nx.Graph()
    for k, a in d["nodes"].items():
        g.add_node(k, **{f: v for f, v in a.items() if v is not None})
    g.add_edges_from((x, y) for x, y in d["adj"] if x < y)
    return g


BLOCK_NODES.witness = lambda rnd: _blocks_witness(rnd, False)
BLOCK_NODES.adapt = lambda a: {"molecule": _real_block_graph(a["molecule"]), "attr": a["attr"], "value": a["value"]}
ADD_EDGES.witness = lambda rnd: _blocks_witness(rnd, True)
ADD_EDGES.adapt = lambda a: {"graph": _real_block_graph(a["graph"]), "edges": ",".join(f"{t['a']} - {t['b']}" for t in a["edges"]["tokens"]), "idx": a["idx"], "jdx": a["jdx"]}

"""Contracts for polyply/src/build_file_parser.py (C18, C07): which residues a build-file directive reaches."""
import z3
from pyvc.types import (TInt, TReal, TBool, TStr, TNode, TObj, TTuple, TVec, TList, TDict, TDefaultDict, TRec, TOpt, TConst, key_term, slist_get)
from pyvc.contract import Contract, Registry, Loop
from pyvc import ops

REG = Registry()
KEYS = ("restraints", "rw_options")
ATTR = TRec("nodeattrs", resid=TInt, resname=TNode, restraints=TOpt(TList(TObj)), rw_options=TOpt(TList(TObj)))
MOL = TRec("polyply.src.meta_molecule:MetaMolecule", nodes=TDict(TNode, ATTR))
OPTION = TRec("option", resname=TNode, start=TInt, stop=TInt, parameters=TObj)     # integral bounds (the parser converts the tokens with float())
x_ = z3.Const("x_", TNode.sort)
i_ = z3.Int("i_")


def attrs(mol, x):
    nd = mol.fields["nodes"]
    return nd.v.unflat([c[x] for c in nd.comps])


def selected(mol, option, x):
    """statement of C18: residues with the given name and an id in the stated half-open range"""
    a = attrs(mol, x)
    return z3.And(a.fields["resname"] == option.fields["resname"],
                  ops.real(a.fields["resid"]) >= ops.real(option.fields["start"]), ops.real(a.fields["resid"]) < ops.real(option.fields["stop"]))


def olist_eq(a, b):
    """optional lists of opaque objects: both absent, or both present with the same entries"""
    return z3.And(a.none == b.none, z3.Implies(z3.Not(a.none), z3.And(a.val.n == b.val.n, z3.ForAll([i_], z3.Implies(z3.And(0 <= i_, i_ < a.val.n), a.val.comps[0][i_] == b.val.comps[0][i_])))))


def tagged_like(new_attrs, old_attrs, param, key):
    """new list under `key` = old list (or [] when the key was absent) ++ [param]; every other attribute untouched"""
    nl, ol = new_attrs.fields[key], old_attrs.fields[key]
    old_n = z3.If(ol.none, 0, ol.val.n)
    other = [k for k in KEYS if k != key]
    return z3.And(z3.Not(nl.none), nl.val.n == old_n + 1, nl.val.comps[0][old_n] == param,
                  z3.ForAll([i_], z3.Implies(z3.And(0 <= i_, i_ < old_n), nl.val.comps[0][i_] == ol.val.comps[0][i_])),
                  new_attrs.fields["resid"] == old_attrs.fields["resid"], new_attrs.fields["resname"] == old_attrs.fields["resname"],
                  *[olist_eq(new_attrs.fields[k], old_attrs.fields[k]) for k in other])


def tag_post(mol, old_mol, option, key, pos=None, k=None):
    nd, od = mol.fields["nodes"], old_mol.fields["nodes"]
    if pos is None:
        done = lambda x: z3.BoolVal(True)      # noqa: E731
    else:
        done = lambda x: pos(x) < k            # noqa: E731   (pos: ghost iteration position of a key)
    return z3.And(nd.dom == od.dom, z3.ForAll([x_], z3.Implies(z3.Select(od.dom, x_), z3.If(
        z3.And(done(x_), selected(old_mol, option, x_)),
        tagged_like(attrs(mol, x_), attrs(old_mol, x_), option.fields["parameters"], key),
        ATTR.eq(attrs(mol, x_), attrs(old_mol, x_))))))


def _tag_contract(key):
    return REG.add(Contract(
        "polyply.src.build_file_parser:BuildDirector._tag_nodes",
        params=dict(molecule=MOL, keyword=TConst(key), option=OPTION, molname=TObj), instance=key if key != "restraints" else None,
        modifies=["molecule.nodes"],
        ensures={"exactly the residues with the given name and an id in [start, stop) receive the option, once, appended; all other residues and attributes are untouched":
                 f"tag_post(molecule, old(molecule), option, '{key}')"},
        loops={0: Loop({"visited residues are done, the others untouched": f"tag_post(molecule, entry['molecule'], option, '{key}', _pos0, k)"})},
        spec_fns={"tag_post": tag_post, "is_int": lambda v: z3.IsInt(ops.real(v))},
        props=("C18", "C07"),
        note=f"instance keyword='{key}' (the function is called with the two keys 'restraints' and 'rw_options'; one contract each)"))


TAG_NODES = _tag_contract("restraints")
TAG_NODES_RW = _tag_contract("rw_options")


# ---- BuildDirector.finalize: which molecules a [ molecule ] block reaches ------------------------------------------------------
MOLX = TRec("polyply.src.meta_molecule:MetaMolecule", nodes=TDict(TNode, ATTR), mol_name=TNode, templates=TObj)
MKEY = TTuple(TNode, TInt)        # (molecule name, molecule index)
TOPO = TRec("polyply.src.topology:Topology", volumes=TDict(TNode, TReal))
DIRECTOR = TRec("polyply.src.build_file_parser:BuildDirector",
                molecules=TList(MOLX), build_options=TDefaultDict(MKEY, TList(OPTION)), rw_options=TDict(MKEY, OPTION),
                templates=TObj, topology=TOPO, resnames_to_hash=TDict(TNode, TList(TNode)))
m_, j_ = z3.Int("m_"), z3.Int("j_")
# ghost: CNT(m, x, j) = how many of the first j options listed for molecule m select residue x of that molecule
CNT = z3.Function("options_selecting_before", z3.IntSort(), TNode.sort, z3.IntSort(), z3.IntSort())


def mkey(self_, m):
    return key_term(MKEY, (slist_get(self_.fields["molecules"], m).fields["mol_name"], m))


def opts_of(self_, m):
    bo = self_.fields["build_options"]
    return bo.v.unflat([c[mkey(self_, m)] for c in bo.comps])


def has_opts(self_, m):
    return z3.Select(self_.fields["build_options"].dom, mkey(self_, m))


def rw_of(self_, m):
    ro = self_.fields["rw_options"]
    return ro.v.unflat([c[mkey(self_, m)] for c in ro.comps])


def has_rw(self_, m):
    return z3.Select(self_.fields["rw_options"].dom, mkey(self_, m))


def sel(old_self, m, x, j):
    return selected(slist_get(old_self.fields["molecules"], m), slist_get(opts_of(old_self, m), j), x)


def cnt_def(old_self):
    """recursive definition of the ghost count; the step is instantiated for terms CNT(m, x, j + 1) only (no matching loop)"""
    step = CNT(m_, x_, j_ + 1) == CNT(m_, x_, j_) + z3.If(sel(old_self, m_, x_, j_), 1, 0)
    return z3.And(z3.ForAll([m_, x_], CNT(m_, x_, 0) == 0, patterns=[CNT(m_, x_, 0)]),
                  z3.ForAll([m_, x_, j_], z3.Implies(j_ >= 0, step), patterns=[CNT(m_, x_, j_ + 1)]))


def restraints_upto(new_a, old_a, old_self, m, x, upto):
    """the restraint list of residue x: the old list followed by the parameters of the selecting options among the first `upto`, in order"""
    nl, ol = new_a.fields["restraints"], old_a.fields["restraints"]
    old_n = z3.If(ol.none, 0, ol.val.n)
    opts = opts_of(old_self, m)
    return z3.And(
        CNT(m, x, upto) >= 0,
        z3.If(CNT(m, x, upto) == 0, olist_eq(nl, ol), z3.And(z3.Not(nl.none), nl.val.n == old_n + CNT(m, x, upto))),
        z3.Implies(z3.Not(nl.none), z3.ForAll([i_], z3.Implies(z3.And(0 <= i_, i_ < old_n), nl.val.comps[0][i_] == ol.val.comps[0][i_]))),
        z3.ForAll([j_], z3.Implies(z3.And(0 <= j_, j_ < upto, sel(old_self, m, x, j_)),
                                   z3.And(0 <= CNT(m, x, j_), CNT(m, x, j_) < CNT(m, x, upto), nl.val.comps[0][old_n + CNT(m, x, j_)] == slist_get(opts, j_).fields["parameters"]))))


def mol_state(mol, old_self, m, upto, rw_done):
    """molecule m after the first `upto` of its geometry options (all of them: upto=None) and, when rw_done, its rw_restriction"""
    old_mol = slist_get(old_self.fields["molecules"], m)
    nd, od = mol.fields["nodes"], old_mol.fields["nodes"]
    na, oa = attrs(mol, x_), attrs(old_mol, x_)
    n_opts = z3.If(has_opts(old_self, m), opts_of(old_self, m).n, 0) if upto is None else upto
    rw = rw_of(old_self, m)
    rw_sel = z3.And(rw_done, has_rw(old_self, m), selected(old_mol, rw, x_))
    return z3.And(nd.dom == od.dom, mol.fields["mol_name"] == old_mol.fields["mol_name"],
                  z3.ForAll([x_], z3.Implies(z3.Select(od.dom, x_), z3.And(
                      na.fields["resid"] == oa.fields["resid"], na.fields["resname"] == oa.fields["resname"],
                      restraints_upto(na, oa, old_self, m, x_, n_opts),
                      z3.If(rw_sel, tagged_rw(na, oa, rw.fields["parameters"]), olist_eq(na.fields["rw_options"], oa.fields["rw_options"]))))))


def tagged_rw(na, oa, param):
    nl, ol = na.fields["rw_options"], oa.fields["rw_options"]
    old_n = z3.If(ol.none, 0, ol.val.n)
    return z3.And(z3.Not(nl.none), nl.val.n == old_n + 1, nl.val.comps[0][old_n] == param,
                  z3.ForAll([i_], z3.Implies(z3.And(0 <= i_, i_ < old_n), nl.val.comps[0][i_] == ol.val.comps[0][i_])))


def done_before(self_, old_self, upto):
    """molecules before `upto` are completely tagged and carry the templates"""
    mols, old = self_.fields["molecules"], old_self.fields["molecules"]
    return z3.And(mols.n == old.n, z3.ForAll([m_], z3.Implies(z3.And(0 <= m_, m_ < mols.n, m_ < upto), z3.And(
        mol_state(slist_get(mols, m_), old_self, m_, None, z3.BoolVal(True)), slist_get(mols, m_).fields["templates"] == old_self.fields["templates"]))))


def untouched_after(self_, old_self, frm):
    """molecules from `frm` on are as on entry"""
    mols, old = self_.fields["molecules"], old_self.fields["molecules"]
    return z3.And(mols.n == old.n, z3.ForAll([m_], z3.Implies(z3.And(0 <= m_, m_ < mols.n, m_ >= frm), MOLX.eq(slist_get(mols, m_), slist_get(old, m_)))))


def tagged_all(self_, old_self, upto):
    return z3.And(done_before(self_, old_self, upto), untouched_after(self_, old_self, upto))


def tables_same(a, b):
    return z3.And(*[DIRECTOR.fields[f].eq(a.fields[f], b.fields[f]) for f in ("build_options", "rw_options", "templates", "resnames_to_hash")])


REG.add(Contract("polyply.src.build_file_parser:BuildDirector.super.finalize", params=dict(self=DIRECTOR), trusted=True,
                 note="vermouth SectionLineParser.finalize: closes the last section (finalize_section: template bookkeeping and volumes only)"))

FINALIZE = REG.add(Contract(
    "polyply.src.build_file_parser:BuildDirector.finalize", params=dict(self=DIRECTOR, lineno=TInt),
    axioms={"definition of the ghost count options_selecting_before": "cnt_def(self)"},
    ensures={"a molecule receives exactly the options listed under its (name, index), in order, on the residues they select; every other molecule, "
             "residue and attribute is untouched; every molecule gets the template table":
             "tagged_all(self, old(self), len(self.molecules))"},
    loops={0: Loop({"molecules so far": "done_before(self, old(self), k)", "molecules to come": "untouched_after(self, old(self), k)",
                    "the tables are only read": "tables_same(self, old(self))"}),
           1: Loop({"position": "0 <= mol_idx and mol_idx < len(self.molecules) and has_opts(old(self), mol_idx) and same_list(_seq1, opts_of(old(self), mol_idx))",
                    "this molecule so far": "mol_state(self.molecules[mol_idx], old(self), mol_idx, j, False)",
                    "its templates": "self.molecules[mol_idx].templates == old(self).molecules[mol_idx].templates",
                    "molecules so far": "done_before(self, old(self), mol_idx)", "molecules to come": "untouched_after(self, old(self), mol_idx + 1)",
                    "the tables are only read": "tables_same(self, old(self))"}, index="j"),
           2: Loop({"molecules": "tagged_all(self, old(self), len(self.molecules))"}),
           3: Loop({"molecules": "tagged_all(self, old(self), len(self.molecules))", "the name has a volume": "resname in self.topology.volumes"}, index="j")},
    spec_fns=dict(tagged_all=tagged_all, done_before=done_before, untouched_after=untouched_after, mol_state=mol_state, tables_same=tables_same, cnt_def=cnt_def,
                  has_opts=has_opts, opts_of=opts_of, same_list=lambda a, b: TList(OPTION).eq(a, b)),
    deep_wf=True, props=("C18",),
    note="_tag_nodes is used through its two proved contracts; vermouth's SectionLineParser.finalize is assumed to leave the molecules alone"))

CONTRACTS = [TAG_NODES, TAG_NODES_RW, FINALIZE]


# ---- [ molecule ] sub-directives: the option table gets the directive under exactly the (name, index) keys of the current block ----
GEOM = OPTION
PARSER = TRec("polyply.src.build_file_parser:BuildDirector",
              build_options=TDefaultDict(MKEY, TList(OPTION)), rw_options=TDict(MKEY, OPTION), current_molname=TNode, current_molidxs=TList(TInt))
kk_ = z3.Const("kk_", MKEY.sorts()[0]) if len(MKEY.sorts()) == 1 else None


def _key(name, idx):
    return key_term(MKEY, (name, idx))


def in_block(self_, i):
    """index i is one of the indices of the current [ molecule ] block"""
    L = self_.fields["current_molidxs"]
    return z3.Exists([j_], z3.And(0 <= j_, j_ < L.n, L.comps[0][j_] == i))


def distinct_idxs(self_):
    L = self_.fields["current_molidxs"]
    return z3.ForAll([i_, j_], z3.Implies(z3.And(0 <= i_, i_ < j_, j_ < L.n), L.comps[0][i_] != L.comps[0][j_]))


def appended_for_block(self_, old_self, new_def, upto):
    """the keys (current name, idx) for the first `upto` indices of the block got `new_def` appended; every other entry is untouched"""
    bo, ob = self_.fields["build_options"], old_self.fields["build_options"]
    L = old_self.fields["current_molidxs"]
    name = old_self.fields["current_molname"]
    n_, i2 = z3.Const("n_", TNode.sort), z3.Int("i2_")
    key = _key(n_, i2)
    new_l = bo.v.unflat([c[key] for c in bo.comps])
    old_l = ob.v.unflat([c[key] for c in ob.comps])
    hit = z3.And(n_ == name, z3.Exists([j_], z3.And(0 <= j_, j_ < upto, L.comps[0][j_] == i2)))
    return z3.ForAll([n_, i2], z3.If(hit,
                                     z3.And(new_l.n == old_l.n + 1, OPTION.eq(slist_get(new_l, old_l.n), new_def),
                                            z3.ForAll([i_], z3.Implies(z3.And(0 <= i_, i_ < old_l.n), OPTION.eq(slist_get(new_l, i_), slist_get(old_l, i_))))),
                                     TList(OPTION).eq(new_l, old_l)))


REG.add(Contract("polyply.src.build_file_parser:BuildDirector._base_parser_geometry", params=dict(tokens=TObj, _type=TObj), result=OPTION, trusted=True,
                 note="token parsing of one geometry line (strings to numbers): assumed to return the definition; bounded unit c18-selections covers it"))
LINE = TRec("Line", text=TObj)        # the text line, opaque: only `line.split()` is applied to it
REG.add(Contract("Line:split", params=dict(self=LINE), result=TObj, trusted=True, note="str.split: the token list, opaque here"))

PARSE_GEOMETRY = REG.add(Contract(
    "polyply.src.build_file_parser:BuildDirector._parse_geometry", params=dict(self=PARSER, line=LINE, lineno=TInt, geom_type=TObj),
    requires={"the indices of the current block are distinct (np.arange)": "distinct_idxs(self)"},
    modifies=["self.build_options"],
    ensures={"the definition is appended under exactly the keys (current molecule name, index in the block), once each; all other entries are untouched":
             "appended_for_block(self, old(self), geometry_def, len(self.current_molidxs))"},
    exposes={"geometry_def": OPTION},
    loops={0: Loop({"keys so far": "appended_for_block(self, old(self), geometry_def, k)",
                    "the block is only read": "same_block(self, old(self))"})},
    spec_fns=dict(distinct_idxs=distinct_idxs, appended_for_block=appended_for_block,
                  same_block=lambda a, b: z3.And(a.fields["current_molname"] == b.fields["current_molname"],
                                                 TList(TInt).eq(a.fields["current_molidxs"], b.fields["current_molidxs"]))),
    deep_wf=True, props=("C18",),
    note="instance for all three geometry directives (the decorators only register the section names)"))
CONTRACTS.append(PARSE_GEOMETRY)


# ---- conformance test hooks for FINALIZE (vlib/selftest.py) --------------------------------------------------------------------------
def _sel_data(mol, opt, x):
    a = mol["nodes"][x]
    return a["resname"] == opt["resname"] and opt["start"] <= a["resid"] < opt["stop"]


def _witness_finalize(rnd):
    names, resn = [21, 22], [31, 32]
    nmol = rnd.randint(1, 4)
    mols = []
    for m in range(nmol):
        keys = rnd.sample(range(6), rnd.randint(1, 4))
        mols.append({"nodes": {k: {"resid": rnd.randint(1, 4), "resname": rnd.choice(resn), "restraints": rnd.choice([None, None, [901]]), "rw_options": None} for k in keys},
                     "mol_name": rnd.choice(names), "templates": 0})

    def option():
        lo = rnd.randint(0, 4)
        return {"resname": rnd.choice(resn), "start": lo, "stop": lo + rnd.randint(0, 3), "parameters": rnd.randint(100, 120)}
    bo, ro = {}, {}
    for _ in range(rnd.randint(0, 4)):
        key = (rnd.choice(names), rnd.randrange(nmol + 1))
        bo.setdefault(key, []).extend(option() for _ in range(rnd.randint(1, 3)))
    for _ in range(rnd.randint(0, 2)):
        ro[(rnd.choice(names), rnd.randrange(nmol + 1))] = option()
    self_ = {"molecules": mols, "build_options": bo, "rw_options": ro, "templates": 7, "topology": {"volumes": {31: 1.5}}, "resnames_to_hash": {31: [41, 42], 32: [43]}}

    def cnt(m, x, j):
        m, j = int(m), int(j)
        if not (0 <= m < nmol) or x not in mols[m]["nodes"]:
            return 0
        opts = bo.get((mols[m]["mol_name"], m), [])
        return sum(1 for i in range(min(j, len(opts))) if _sel_data(mols[m], opts[i], x))
    return {"self": self_, "lineno": 0}, {"options_selecting_before": cnt, "__window__": 8, "__names__": names + resn + [41, 42, 43]}


def _adapt_finalize(a):
    import networkx as nx
    from collections import defaultdict
    from types import SimpleNamespace
    from polyply.src.build_file_parser import BuildDirector
    d = a["self"]
    mols = []
    for md in d["molecules"]:
        g = nx.Graph()
        for k, at in md["nodes"].items():
            g.add_node(k, **{f: (list(v) if isinstance(v, list) else v) for f, v in at.items() if v is not None})
        g.mol_name, g.templates = md["mol_name"], md["templates"]
        mols.append(g)
    top = SimpleNamespace(volumes=dict(d["topology"]["volumes"]))
    bd = BuildDirector(mols, top)
    bd.build_options = defaultdict(list, {k: [dict(o) for o in v] for k, v in d["build_options"].items()})
    bd.rw_options = {k: dict(o) for k, o in d["rw_options"].items()}
    bd.templates = d["templates"]
    bd.resnames_to_hash = {k: list(v) for k, v in d["resnames_to_hash"].items()}
    return {"self": bd, "lineno": a["lineno"]}


def _unadapt_finalize(ra, res):
    bd = ra["self"]
    mols = [{"nodes": {k: {f: at.get(f) for f in ("resid", "resname", "restraints", "rw_options")} for k, at in g.nodes(data=True)},
             "mol_name": g.mol_name, "templates": g.templates} for g in bd.molecules]
    return {"self": {"molecules": mols, "build_options": dict(bd.build_options), "rw_options": dict(bd.rw_options), "templates": bd.templates,
                     "topology": {"volumes": dict(bd.topology.volumes)}, "resnames_to_hash": dict(bd.resnames_to_hash)}}


FINALIZE.witness, FINALIZE.adapt, FINALIZE.unadapt = _witness_finalize, _adapt_finalize, _unadapt_finalize

"""Contracts for polyply/src/build_file_parser.py (C18, C07): which residues a build-file directive reaches."""
import z3
from pyvc.types import (TInt, TReal, TBool, TStr, TNode, TObj, TTuple, TVec, TList, TDict, TRec, TOpt, TConst, key_term, slist_get)
from pyvc.contract import Contract, Registry, Loop
from pyvc import ops

REG = Registry()
ATTR = TRec("nodeattrs", resid=TInt, resname=TStr, restraints=TOpt(TList(TObj)))
MOL = TRec("polyply.src.meta_molecule:MetaMolecule", nodes=TDict(TNode, ATTR))
OPTION = TRec("option", resname=TStr, start=TInt, stop=TInt, parameters=TObj)     # integral bounds (the parser converts the tokens with float())
x_ = z3.Const("x_", TNode.sort)
i_ = z3.Int("i_")


def attrs(mol, x):
    nd = mol.fields["nodes"]
    return nd.v.unflat([c[x] for c in nd.comps])


def selected(mol, option, x):
    """statement of C18: residues with the given name and an id in the stated half-open range"""
    a = attrs(mol, x)
    return z3.And(ops.S(a.fields["resname"]) == ops.S(option.fields["resname"]),
                  ops.real(a.fields["resid"]) >= ops.real(option.fields["start"]), ops.real(a.fields["resid"]) < ops.real(option.fields["stop"]))


def tagged_like(new_attrs, old_attrs, param):
    """new list = old list (or [] when the key was absent) ++ [param]; resid / resname untouched"""
    nl, ol = new_attrs.fields["restraints"], old_attrs.fields["restraints"]
    old_n = z3.If(ol.none, 0, ol.val.n)
    return z3.And(z3.Not(nl.none), nl.val.n == old_n + 1, nl.val.comps[0][old_n] == param,
                  z3.ForAll([i_], z3.Implies(z3.And(0 <= i_, i_ < old_n), nl.val.comps[0][i_] == ol.val.comps[0][i_])),
                  new_attrs.fields["resid"] == old_attrs.fields["resid"], new_attrs.fields["resname"] == old_attrs.fields["resname"])


def tag_post(mol, old_mol, option, pos=None, k=None):
    nd, od = mol.fields["nodes"], old_mol.fields["nodes"]
    if pos is None:
        done = lambda x: z3.BoolVal(True)      # noqa: E731
    else:
        done = lambda x: pos(x) < k            # noqa: E731   (pos: ghost iteration position of a key)
    return z3.And(nd.dom == od.dom, z3.ForAll([x_], z3.Implies(z3.Select(od.dom, x_), z3.If(
        z3.And(done(x_), selected(old_mol, option, x_)),
        tagged_like(attrs(mol, x_), attrs(old_mol, x_), option.fields["parameters"]),
        ATTR.eq(attrs(mol, x_), attrs(old_mol, x_))))))


TAG_NODES = REG.add(Contract(
    "polyply.src.build_file_parser:BuildDirector._tag_nodes",
    params=dict(molecule=MOL, keyword=TConst("restraints"), option=OPTION, molname=TStr),
    ensures={"exactly the residues with the given name and an id in [start, stop) receive the option, once, appended; all other residues and attributes are untouched":
             "tag_post(molecule, old(molecule), option)"},
    loops={0: Loop({"visited residues are done, the others untouched": "tag_post(molecule, entry['molecule'], option, _pos0, k)"})},
    spec_fns={"tag_post": tag_post, "is_int": lambda v: z3.IsInt(ops.real(v))},
    props=("C18", "C07"),
    note="instance keyword='restraints'; the 'rw_options' call site runs the same code with another key"))

"""Contracts for polyply/src/build_system.py (C03: density -> cubic box)."""
import z3
from pyvc.types import (TInt, TReal, TBool, TStr, TNode, TObj, TTuple, TVec, TList, TDict, TRec, TOpt, key_term)
from pyvc.contract import Contract, Registry, Loop
from pyvc import ops

REG = Registry()
ATOM = TRec("atomattrs", mass=TOpt(TReal), atype=TOpt(TStr), atomname=TStr)
MOLECULE = TRec("vermouth.molecule:Molecule", nodes=TDict(TNode, ATOM))
METAMOL = TRec("polyply.src.meta_molecule:MetaMolecule", molecule=MOLECULE)
ATYPE = TRec("atomtype", mass=TReal)
TOPOLOGY = TRec("polyply.src.topology:Topology", molecules=TList(METAMOL), atom_types=TDict(TStr, ATYPE))

# ghost functions: the total mass of the statement, defined by recursion over the expanded molecule list and the atoms of each molecule
OUTER = z3.Function("mass_of_first_molecules", z3.IntSort(), z3.RealSort())         # OUTER(i) = mass of molecules 0..i-1
PART = z3.Function("mass_of_first_atoms", z3.IntSort(), z3.IntSort(), z3.RealSort())  # PART(i, j) = mass of the first j atoms of molecule i
i_, j_ = z3.Ints("i_ j_")


def atom_mass(topology, mol, x):
    """mass the topology states for an atom: the [ atoms ] mass if the column is present (0 included), else the atomtype mass"""
    nd = mol.fields["molecule"].fields["nodes"]
    a = nd.v.unflat([c[x] for c in nd.comps])
    at = topology.fields["atom_types"]
    return z3.If(z3.Not(a.fields["mass"].none), a.fields["mass"].val, at.comps[0][a.fields["atype"].val])


def masses_known(topology):
    from pyvc.types import slist_get
    mols = topology.fields["molecules"]
    mol = slist_get(mols, i_)
    nd = mol.fields["molecule"].fields["nodes"]
    x = z3.Const("x_", TNode.sort)
    a = nd.v.unflat([c[x] for c in nd.comps])
    at = topology.fields["atom_types"]
    ok = z3.Or(z3.Not(a.fields["mass"].none), z3.And(z3.Not(a.fields["atype"].none), at.dom[a.fields["atype"].val]))
    nonneg = z3.If(z3.Not(a.fields["mass"].none), a.fields["mass"].val, at.comps[0][a.fields["atype"].val]) >= 0
    return z3.ForAll([i_, x], z3.Implies(z3.And(0 <= i_, i_ < mols.n, nd.dom[x]), z3.And(ok, nonneg)))


def outer_def(topology):
    return z3.And(OUTER(0) == 0, z3.ForAll([i_], z3.Implies(i_ >= 0, OUTER(i_) >= 0)))


def part_def(topology, mol, k, seq):
    """PART(k, .) is the running sum over the atoms of molecule k in iteration order; OUTER(k+1) adds the whole molecule"""
    return z3.And(PART(k, 0) == 0,
                  z3.ForAll([j_], z3.Implies(z3.And(0 <= j_, j_ < seq.n), PART(k, j_ + 1) == PART(k, j_) + atom_mass(topology, mol, seq.comps[0][j_]))),
                  z3.ForAll([j_], z3.Implies(z3.And(0 <= j_, j_ <= seq.n), PART(k, j_) >= 0)),
                  OUTER(k + 1) == OUTER(k) + PART(k, seq.n))


BOX = REG.add(Contract(
    "polyply.src.build_system:_compute_box_size",
    params=dict(topology=TOPOLOGY, density=TReal),
    result=TReal,
    requires={"positive density": "density > 0",
              "every atom has a mass in [ atoms ] or an atom type with a mass (non-negative)": "masses_known(topology)"},
    ensures={"cubic box edge: edge^3 * density = 1.6605410 * total mass (amu -> kg, m^3 -> nm^3), total mass = sum over all molecules and atoms of the mass the topology states":
             "result * result * result * density == 1.6605410 * OUTER(len(topology.molecules)) and result >= 0"},
    loops={0: Loop({"running total": "total_mass == OUTER(k)"}, defs={"total of the statement": "outer_def(topology)"}),
           1: Loop({"running total of this molecule": "total_mass == OUTER(k) + PART(k, kk)", "same molecule": "METAMOL_eq(meta_molecule, _seq0[k])"},
                   index="kk", defs={"sum over the atoms of this molecule": "part_def(topology, meta_molecule, k, _seq1)"})},
    spec_fns={"masses_known": masses_known, "outer_def": outer_def, "part_def": part_def, "OUTER": OUTER, "PART": PART,
              "METAMOL_eq": lambda a, b: METAMOL.eq(a, b)},
    raises=[],
    props=("C03",),
))


# ---- C03: the structure written holds the molecules of the topology in topology order ------------------------------------------
from pyvc.types import TObj as _TObj, TList as _TList, TRec as _TRec, slist_get as _get

_MM = _TRec("polyply.src.meta_molecule:MetaMolecule", molecule=_TObj)
_TOP = _TRec("polyply.src.topology:Topology", molecules=_TList(_MM), force_field=_TObj)
_SYS = _TRec("System", molecules=_TList(_TObj), force_field=_TObj)
_i = z3.Int("i_")
REG.add(Contract("vermouth.system:System", params=dict(), result=_SYS, trusted=True, note="vermouth System(): an empty container"))
TO_SYSTEM = REG.add(Contract(
    "polyply.src.topology:Topology.convert_to_vermouth_system", params=dict(self=_TOP), result=_SYS,
    ensures={"the system handed to the structure writer holds the atom-level molecule of every topology molecule, in topology order, and nothing else":
             "same_order(result, self)"},
    loops={0: Loop({"copied so far, in order": "same_order(system, self, k)", "the topology is only read": "top_eq(self, old(self))"})},
    spec_fns=dict(same_order=lambda sys_, top, upto=None: z3.And(
                      sys_.fields["molecules"].n == (top.fields["molecules"].n if upto is None else upto),
                      z3.ForAll([_i], z3.Implies(z3.And(0 <= _i, _i < sys_.fields["molecules"].n),
                                                 _get(sys_.fields["molecules"], _i) == _get(top.fields["molecules"], _i).fields["molecule"])),
                      sys_.fields["force_field"] == top.fields["force_field"]) if upto is None else z3.And(
                      sys_.fields["molecules"].n == upto,
                      z3.ForAll([_i], z3.Implies(z3.And(0 <= _i, _i < upto),
                                                 _get(sys_.fields["molecules"], _i) == _get(top.fields["molecules"], _i).fields["molecule"])),
                      sys_.fields["force_field"] == top.fields["force_field"]),
                  top_eq=lambda a, b: _TOP.eq(a, b)),
    props=("C03",)))


# ---- C03: which box the system is built in (and written with) -- BuildSystem.__init__ ------------------------------------------------
from pyvc.types import T as _T, TVec as _TVec, TOpt as _TOpt, TReal as _TReal      # noqa: E402


class _TKw(_T):
    """**kwargs of the function under contract: a fresh python dict with the given keys on every path"""

    def __init__(self, **ts):
        self.ts = dict(ts)

    def sorts(self):
        return [s for t in self.ts.values() for s in t.sorts()]

    def flat(self, v):
        return [x for k, t in self.ts.items() for x in t.flat(v[k])]

    def unflat(self, terms):
        out, i = {}, 0
        for k, t in self.ts.items():
            n = len(t.sorts())
            out[k] = t.unflat(terms[i:i + n])
            i += n
        return out

    def fresh(self, name):
        return {k: t.fresh(f"{name}.{k}") for k, t in self.ts.items()}


TOPOLOGY_B = TRec("polyply.src.topology:Topology", molecules=TList(METAMOL), atom_types=TDict(TStr, ATYPE), box=_TOpt(TTuple(_TReal, _TReal, _TReal)))
BSYS = TRec("polyply.src.build_system:BuildSystem")
REG_B = Registry()
REG_B.add(Contract(BOX.target, params=dict(topology=TOPOLOGY_B, density=TReal), result=TReal, requires=dict(BOX.requires), ensures=dict(BOX.ensures),
                   spec_fns=BOX.spec_fns, trusted=True, note="the proved contract of _compute_box_size (unit density-box), re-stated for a topology record that also has a box field"))


def _box3(v):
    """(is set, three components) of a box held as an optional tuple, a tuple, an optional vector or a vector"""
    from pyvc.types import Opt, NArr
    if isinstance(v, Opt):
        ok, c = _box3(v.val)
        return z3.And(z3.Not(v.none), ok), c
    if isinstance(v, NArr):
        return z3.BoolVal(True), list(v.data[:3])
    return z3.BoolVal(True), list(v[:3])


def box_is(top, b):
    ok, c = _box3(top.fields["box"] if hasattr(top, "fields") else top)
    return z3.And(ok, *[ops.real(x) == ops.real(y) for x, y in zip(c, b)])


def requested_or_density_box(self_, topology, old_topology, box, density):
    """the requested box, else a cube whose edge is the density edge rounded to 5 decimals (edge^3 * density = 1.660541 * total mass)"""
    edge = z3.Real("density_edge")
    from pyvc.prelude import ROUND
    r5 = ROUND.get(5)
    given = z3.And(z3.Not(box.none), box_is(topology, _box3(box)[1]))
    if r5 is None:
        return given
    cube = z3.Exists([edge], z3.And(edge >= 0, edge * edge * edge * density == 1.6605410 * OUTER(old_topology.fields["molecules"].n), box_is(topology, [r5(edge)] * 3)))
    return z3.If(z3.Not(box.none), given, cube)


INIT_BOX = REG_B.add(Contract(
    "polyply.src.build_system:BuildSystem.__init__",
    params=dict(self=BSYS, topology=TOPOLOGY_B, density=TReal, start_dict=TObj, grid_spacing=TReal, maxiter=TInt, box=_TOpt(_TVec(3)),
                ignore=TObj, grid=_TOpt(TObj), cycles=TObj, kwargs=_TKw()),
    requires={"positive density": "density > 0",
              "every atom has a mass in [ atoms ] or an atom type with a mass (non-negative)": "masses_known(topology)"},
    modifies=["topology.box"],
    ensures={"the system is built in, and the topology afterwards carries, the box that was requested, else a cubic box whose volume is total mass over density "
             "(edge rounded to 5 decimals)": "requested_or_density_box(self, topology, old(topology), box, density)",
             "the processor uses the same box": "same_box(self.box, topology.box)"},
    spec_fns=dict(requested_or_density_box=requested_or_density_box, masses_known=masses_known,
                  same_box=lambda b, t: z3.And(_box3(b)[0], box_is(t, _box3(b)[1]))),
    props=("C03",),
    note="instance without extra random-walk keyword arguments; numpy.mgrid (the start grid) and inspect.getfullargspec are opaque values; round(x, 5) is a "
         "function of x that is a multiple of 1e-5 within 0.5e-5 of x; _compute_box_size through its proved contract"))


def _outer_interp(args):
    top = args["topology"]
    masses = []
    for mm in top["molecules"]:
        tot = 0.0
        for a in mm["molecule"]["nodes"].values():
            tot += a["mass"] if a["mass"] is not None else top["atom_types"][a["atype"]]["mass"]
        masses.append(tot)
    pre = [0.0]
    for m in masses:
        pre.append(pre[-1] + m)
    return {"mass_of_first_molecules": lambda i: pre[int(i)] if 0 <= int(i) < len(pre) else 0.0}


BOX.ghost_interp = _outer_interp


def _adapt_box(a):
    import networkx as nx
    from types import SimpleNamespace
    top = a["topology"]
    mols = []
    for mm in top["molecules"]:
        g = nx.Graph()
        for k, at in mm["molecule"]["nodes"].items():
            g.add_node(k, **{f: v for f, v in at.items() if v is not None})
        mols.append(SimpleNamespace(molecule=g))
    return {"topology": SimpleNamespace(molecules=mols, atom_types={k: dict(v) for k, v in top["atom_types"].items()}), "density": a["density"]}


BOX.adapt = _adapt_box

"""MetaMolecule.__init__ (polyply/src/meta_molecule.py) under contract: the constructor behind every residue graph (C12, C19, C08).
networkx' Graph.__init__ (reached through super()) is assumed: it makes the graph a copy of the graph data it is given, or empty."""
import z3
from pyvc.types import (T, TInt, TBool, TNode, TObj, TTuple, TList, TDict, TRec, TOpt, TConst, TGraph, key_term, slist_get)
from pyvc.contract import Contract, Registry, Loop

REG = Registry()
ATTR = TRec("nodeattrs", resname=TOpt(TNode), resid=TOpt(TInt), build=TOpt(TBool), backmap=TOpt(TBool))
GRAPH = TGraph(ATTR, key=TInt, ordered=True)
SELF = TGraph(ATTR, key=TInt, cls="polyply.src.meta_molecule:MetaMolecule", ordered=True, force_field=TObj, mol_name=TObj, molecule=TOpt(TObj),
              root=TOpt(TObj), dfs=TBool, max_resid=TInt, _MetaMolecule__search_tree=TOpt(TObj))
i_ = z3.Int("i_")


class TKw(T):
    """**kwargs of the function under contract: a fresh python dict with the given keys on every path"""

    def __init__(self, **ts):
        self.ts = dict(ts)

    def sorts(self):
        return [s for t in self.ts.values() for s in t.sorts()]

    def flat(self, v):
        return [x for k, t in self.ts.items() for x in t.flat(v[k])]

    def unflat(self, terms):
        out, i = {}, 0
        for k, t in self.ts.items():
            n = len(t.sorts())
            out[k] = t.unflat(terms[i:i + n])
            i += n
        return out

    def fresh(self, name):
        return {k: t.fresh(f"{name}.{k}") for k, t in self.ts.items()}


def opt_eq(a, b):
    return z3.And(a.none == b.none, z3.Implies(z3.Not(a.none), a.val == b.val))


def nattrs(g, i):
    nd = g.fields["nodes"]
    return nd.v.unflat([c[i] for c in nd.comps])


def same_structure(g, g0):
    """same nodes in the same order, same bonds"""
    nd, n0 = g.fields["nodes"], g0.fields["nodes"]
    return z3.And(z3.ForAll([i_], z3.Select(nd.dom, i_) == z3.Select(n0.dom, i_)), nd.order.n == n0.order.n,
                  z3.ForAll([i_], z3.Implies(z3.And(0 <= i_, i_ < nd.order.n), nd.order.comps[0][i_] == n0.order.comps[0][i_])),
                  g.fields["adj"].dom == g0.fields["adj"].dom)


def initialised(self_, g0):
    """every node is to be built and backmapped, keeps its name, has its residue id (node key + 1 where none was given);
    max_resid is an upper bound of the residue ids that is attained (0 for the empty graph)"""
    nd = self_.fields["nodes"]
    a, a0 = nattrs(self_, i_), nattrs(g0, i_)
    rid = z3.If(a0.fields["resid"].none, i_ + 1, a0.fields["resid"].val)
    mx = self_.fields["max_resid"]
    return z3.And(same_structure(self_, g0),
                  z3.ForAll([i_], z3.Implies(z3.Select(nd.dom, i_), z3.And(
                      z3.Not(a.fields["build"].none), a.fields["build"].val, z3.Not(a.fields["backmap"].none), a.fields["backmap"].val,
                      z3.Not(a.fields["resid"].none), a.fields["resid"].val == rid,
                      opt_eq(a.fields["resname"], a0.fields["resname"]),
                      a.fields["resid"].val <= mx))),
                  mx >= 0, z3.Or(mx == 0, z3.Exists([i_], z3.And(z3.Select(nd.dom, i_), nattrs(self_, i_).fields["resid"].val == mx))))


def partly(self_, g0, pos, k, w):
    """loop invariant: the nodes visited so far (position < k in insertion order) have their residue id, the others are as given"""
    nd = self_.fields["nodes"]
    a, a0 = nattrs(self_, i_), nattrs(g0, i_)
    rid = z3.If(a0.fields["resid"].none, i_ + 1, a0.fields["resid"].val)
    mx = self_.fields["max_resid"]
    wa = nattrs(self_, w)
    return z3.And(same_structure(self_, g0),
                  z3.ForAll([i_], z3.Implies(z3.Select(nd.dom, i_), z3.And(
                      z3.Not(a.fields["build"].none), a.fields["build"].val, z3.Not(a.fields["backmap"].none), a.fields["backmap"].val,
                      opt_eq(a.fields["resname"], a0.fields["resname"]),
                      z3.If(pos(i_) < k,
                            z3.And(z3.Not(a.fields["resid"].none), a.fields["resid"].val == rid, a.fields["resid"].val <= mx),
                            opt_eq(a.fields["resid"], a0.fields["resid"]))))),
                  mx >= 0, z3.Or(mx == 0, z3.And(z3.Select(nd.dom, w), pos(w) < k, wa.fields["resid"].val == mx)))


def hook_max(eng, env):
    env["_w"] = env["node"]


def no_nodes_no_bonds(g):
    nd = g.fields["nodes"]
    j_ = z3.Int("j_")
    return z3.And(z3.ForAll([i_], z3.Not(z3.Select(nd.dom, i_))), nd.order.n == 0,
                  z3.ForAll([i_, j_], z3.Not(z3.Select(g.fields["adj"].dom, key_term(g.fields["adj"].k, (i_, j_))))))


def copy_of(s, g):
    if g is None:
        return no_nodes_no_bonds(s)          # Graph.__init__() without data: the empty graph
    return z3.And(same_structure(s, g), z3.ForAll([i_], z3.Implies(z3.Select(g.fields["nodes"].dom, i_), ATTR.eq(nattrs(s, i_), nattrs(g, i_)))))


def initialised_empty(self_):
    """a MetaMolecule made without graph data: no residues, no bonds, no residue id handed out"""
    return z3.And(no_nodes_no_bonds(self_), self_.fields["max_resid"] == 0)


REG.add(Contract("polyply.src.meta_molecule:MetaMolecule.super.__init__", params=dict(self=SELF, graph=TOpt(GRAPH)), modifies=["self.nodes", "self.adj"],
                 ensures={"the new graph is a copy of the graph data (empty without data)": "copy_of(self, graph)"},
                 spec_fns=dict(copy_of=copy_of),
                 trusted=True, note="networkx.Graph.__init__(incoming_graph_data): nodes (in order), node attributes and edges are copied"))

INIT_FROM_GRAPH = REG.add(Contract(
    "polyply.src.meta_molecule:MetaMolecule.__init__", params=dict(self=SELF, args=TTuple(GRAPH), kwargs=TKw(force_field=TObj, mol_name=TObj)),
    ensures={"residue graph of the given graph data": "initialised(self, args[0])"},
    ghost_locals={"_w": TInt}, ghost={'after:self.max_resid = self.nodes[node]["resid"]': hook_max},
    loops={0: Loop({"visited nodes are numbered": "partly(self, args[0], _pos0, k, _w)"}, modifies=["_w"])},
    spec_fns=dict(initialised=initialised, partly=partly), props=("C12", "C19"), note="instance MetaMolecule(graph, force_field=..., mol_name=...)"))
INIT_EMPTY = REG.add(Contract(
    "polyply.src.meta_molecule:MetaMolecule.__init__", params=dict(self=SELF, args=TTuple(), kwargs=TKw(force_field=TObj, mol_name=TObj)), instance="no-graph-data",
    ensures={"a MetaMolecule made without graph data is empty and has handed out no residue id": "initialised_empty(self)",
             "it carries the force field and the name it was given": "self.force_field == old(kwargs)['force_field'] and self.mol_name == old(kwargs)['mol_name']"},
    ghost_locals={"_w": TInt}, ghost={'after:self.max_resid = self.nodes[node]["resid"]': hook_max},
    loops={0: Loop({"nothing to visit": "initialised_empty(self)"}, modifies=["_w"])},
    spec_fns=dict(initialised_empty=initialised_empty), props=("C12", "C08"), note="instance MetaMolecule(force_field=..., mol_name=...)"))
CONTRACTS = [INIT_FROM_GRAPH, INIT_EMPTY]


# ---- conformance test hooks (vlib/selftest.py): random graph data, the real constructor, the real object read back -------------------
def _witness_init(rnd):
    n = rnd.randint(0, 5)
    keys = rnd.sample(range(8), n)
    nodes = {k: {"resname": rnd.choice([None, 3, 4]), "resid": rnd.choice([None, rnd.randint(1, 9)]), "build": None, "backmap": None} for k in keys}
    adj = set()
    for a in keys:
        for b in keys:
            if a < b and rnd.random() < 0.4:
                adj |= {(a, b), (b, a)}
    g = {"nodes": nodes, "adj": adj}
    blank = {"nodes": {}, "adj": set(), "force_field": 0, "mol_name": 0, "molecule": None, "root": None, "dfs": False, "max_resid": 0, "_MetaMolecule__search_tree": None}
    return {"self": blank, "args": (g,), "kwargs": {"force_field": 1, "mol_name": 2}}, {"__window__": 12}


def _adapt_init(a):
    import networkx as nx
    from polyply.src.meta_molecule import MetaMolecule
    g = nx.Graph()
    d = a["args"][0]
    for k, at in d["nodes"].items():
        g.add_node(k, **{f: v for f, v in at.items() if v is not None})
    g.add_edges_from((x, y) for x, y in d["adj"] if x < y)
    return {"self": MetaMolecule.__new__(MetaMolecule), "args": (g,), "kwargs": dict(a["kwargs"])}


def _call_init(fn, ra):
    return fn(ra["self"], *ra["args"], **ra["kwargs"])


def _unadapt_init(ra, res):
    m = ra["self"]
    nodes = {k: {f: d.get(f) for f in ("resname", "resid", "build", "backmap")} for k, d in m.nodes(data=True)}
    adj = {(a, b) for a, b in m.edges} | {(b, a) for a, b in m.edges}
    return {"self": {"nodes": nodes, "adj": adj, "force_field": m.force_field, "mol_name": m.mol_name, "molecule": m.molecule, "root": m.root, "dfs": m.dfs,
                     "max_resid": m.max_resid, "_MetaMolecule__search_tree": None}}


INIT_FROM_GRAPH.witness, INIT_FROM_GRAPH.adapt, INIT_FROM_GRAPH.call, INIT_FROM_GRAPH.unadapt = _witness_init, _adapt_init, _call_init, _unadapt_init
INIT_FROM_GRAPH.modifies = list(INIT_FROM_GRAPH.modifies)

"""C13 (history clause): 'earlier runs in the same process change neither the atoms nor the multiset of interactions'.

Static ownership obligations over the real ASTs of polyply/src, re-derived on every run:

  H1  no function reachable from gen_params mutates (itself or through the functions it calls) a parameter whose default value is a
      mutable literal
      -- such a default object lives as long as the process and would carry state from one call to the next;
  H2  the entry points gen_params / gen_coords / gen_seq mutate none of the objects handed to them (command-line lists);
  H3  no function writes module-level state (global statements, stores or mutator calls on module-level names).

The analysis is a may-mutate summary per function (parameter, element depth), computed as a fixpoint over the repository's call
graph with name-based resolution of calls (every repository function or method of that name).  It over-approximates aliasing through
assignments, tuple unpacking, iteration, subscripts and list/tuple/dict literals that hold a parameter.  Calls into libraries
(vermouth, networkx, numpy, ...) are ASSUMED not to mutate list arguments they are given (stated assumption)."""
import ast
import os
from pyvc import source

MUTATORS = {"append", "extend", "remove", "pop", "update", "insert", "add", "clear", "sort", "reverse", "setdefault", "popitem", "discard"}
ENTRY = {"polyply.src.gen_itp": ["gen_params"], "polyply.src.gen_coords": ["gen_coords"], "polyply.src.gen_seq": ["gen_seq"]}
MAXD = 2


def repo_modules():
    base = os.path.join(source.REPO, "polyply", "src")
    out = []
    for fn in sorted(os.listdir(base)):
        if fn.endswith(".py") and fn != "__init__.py":
            out.append("polyply.src." + fn[:-3])
    return out


def is_mutable_literal(node):
    if isinstance(node, (ast.List, ast.Dict, ast.Set)):
        return True
    if isinstance(node, ast.Call) and isinstance(node.func, ast.Name) and node.func.id in ("list", "dict", "set", "defaultdict", "OrderedDict") \
            and not node.args:
        return True
    return False


class FnInfo:
    def __init__(self, mod, qual, node):
        self.mod, self.qual, self.node = mod, qual, node
        a = node.args
        self.params = [x.arg for x in a.posonlyargs + a.args] + ([a.vararg.arg] if a.vararg else []) + [x.arg for x in a.kwonlyargs] + \
                      ([a.kwarg.arg] if a.kwarg else [])
        self.positional = [x.arg for x in a.posonlyargs + a.args]
        pos = a.posonlyargs + a.args
        self.defaults = {}
        for p, d in zip(pos[len(pos) - len(a.defaults):], a.defaults):
            self.defaults[p.arg] = d
        for p, d in zip(a.kwonlyargs, a.kw_defaults):
            if d is not None:
                self.defaults[p.arg] = d
        self.is_method = "." in qual and self.positional and self.positional[0] in ("self", "cls")
        self.summary = set()        # {(param, depth)}
        self.sites = {}             # (param, depth) -> (line, text) of one statement responsible


def collect():
    fns = {}
    for m in repo_modules():
        try:
            mod = source.load(m)
        except Exception:
            continue
        for qual, node in mod.functions.items():
            fns[(m, qual)] = FnInfo(mod, qual, node)
    return fns


def by_name(fns):
    idx = {}
    for (m, q), f in fns.items():
        idx.setdefault(q.split(".")[-1], []).append(f)
    return idx


def own_nodes(fnode):
    """nodes of the function body without nested function / class bodies"""
    stack = list(fnode.body)
    while stack:
        n = stack.pop()
        yield n
        for c in ast.iter_child_nodes(n):
            if isinstance(c, (ast.FunctionDef, ast.AsyncFunctionDef, ast.ClassDef, ast.Lambda)):
                continue
            stack.append(c)


def origins_of(expr, env):
    """{(param, depth)}: the value of expr is reachable from `param` by `depth` element steps (negative: expr is a container whose
    elements at level -depth are the parameter)"""
    if isinstance(expr, ast.Name):
        return set(env.get(expr.id, ()))
    if isinstance(expr, ast.Subscript):
        return {(p, min(d + 1, MAXD)) for p, d in origins_of(expr.value, env)}
    if isinstance(expr, ast.Attribute):
        return set(origins_of(expr.value, env))           # an attribute of the object: part of the object (same depth)
    if isinstance(expr, (ast.List, ast.Tuple, ast.Set)):
        out = set()
        for e in expr.elts:
            out |= {(p, d - 1) for p, d in origins_of(e.value if isinstance(e, ast.Starred) else e, env)}
        return out
    if isinstance(expr, ast.Dict):
        out = set()
        for e in expr.values:
            if e is not None:
                out |= {(p, d - 1) for p, d in origins_of(e, env)}
        return out
    if isinstance(expr, ast.IfExp):
        return origins_of(expr.body, env) | origins_of(expr.orelse, env)
    if isinstance(expr, ast.BoolOp):
        out = set()
        for v in expr.values:
            out |= origins_of(v, env)
        return out
    if isinstance(expr, ast.BinOp) and isinstance(expr.op, ast.Add):
        # a + b builds a NEW list; its elements are the operands' elements
        out = set()
        for v in (expr.left, expr.right):
            out |= {(p, d) for p, d in origins_of(v, env) if d >= 1} | {(p, d) for p, d in origins_of(v, env) if d < 0}
            out |= {(p, 1 - 1 + d) for p, d in origins_of(v, env) if False}
        return out
    if isinstance(expr, ast.NamedExpr):
        return origins_of(expr.value, env)
    return set()


def bind(target, origins, env, changed):
    if isinstance(target, ast.Name):
        cur = env.setdefault(target.id, set())
        if not origins <= cur:
            cur |= origins
            changed[0] = True
    elif isinstance(target, (ast.Tuple, ast.List)):
        el = {(p, min(d + 1, MAXD)) for p, d in origins}
        for t in target.elts:
            bind(t.value if isinstance(t, ast.Starred) else t, el, env, changed)


def analyse_function(f, idx):
    """one pass: returns the set of (param, depth) the function may mutate, given the current summaries of its callees"""
    env = {p: {(p, 0)} for p in f.params}
    nodes = list(own_nodes(f.node))
    changed = [True]
    rounds = 0
    while changed[0] and rounds < 6:          # alias environment to a fixpoint (flow-insensitive)
        changed[0] = False
        rounds += 1
        for n in nodes:
            if isinstance(n, ast.Assign):
                o = origins_of(n.value, env)
                for t in n.targets:
                    bind(t, o, env, changed)
            elif isinstance(n, ast.AnnAssign) and n.value is not None:
                bind(n.target, origins_of(n.value, env), env, changed)
            elif isinstance(n, (ast.For, ast.comprehension)):
                o = {(p, min(d + 1, MAXD)) for p, d in origins_of(n.iter, env)}
                bind(n.target, o, env, changed)
            elif isinstance(n, ast.withitem) and n.optional_vars is not None:
                bind(n.optional_vars, origins_of(n.context_expr, env), env, changed)
    out, sites = set(), {}

    def hit(expr_origins, extra, node):
        for p, d in expr_origins:
            tot = d + extra
            if tot >= 0 and p in f.params:
                key = (p, min(tot, MAXD))
                out.add(key)
                sites.setdefault(key, (getattr(node, "lineno", 0), " ".join(f.mod.segment(node).split())[:160]))

    for n in nodes:
        if isinstance(n, ast.AugAssign):
            if isinstance(n.target, ast.Name):
                hit(origins_of(n.target, env), 0, n)           # x += ...  is in-place for lists / sets / dicts
            else:
                hit(origins_of(n.target.value, env), 0, n)
        elif isinstance(n, (ast.Assign, ast.Delete)):
            for t in (n.targets if isinstance(n, (ast.Assign, ast.Delete)) else []):
                for tt in (t.elts if isinstance(t, (ast.Tuple, ast.List)) else [t]):
                    if isinstance(tt, (ast.Subscript, ast.Attribute)):
                        hit(origins_of(tt.value, env), 0, n)
        elif isinstance(n, ast.Call):
            fn = n.func
            if isinstance(fn, ast.Attribute) and fn.attr in MUTATORS:
                hit(origins_of(fn.value, env), 0, n)
                continue
            name = fn.attr if isinstance(fn, ast.Attribute) else (fn.id if isinstance(fn, ast.Name) else None)
            if name is None:
                continue
            callees = idx.get(name, [])
            if isinstance(fn, ast.Name) and fn.id in f.mod.classes:
                callees = idx.get("__init__", []) and [g for g in idx["__init__"] if g.mod is f.mod and g.qual == f"{fn.id}.__init__"]
            for g in callees:
                formals = list(g.positional)
                recv = None
                if g.is_method:
                    recv, formals = formals[0], formals[1:]
                for (p, e) in g.summary:
                    actual = None
                    if p == recv:
                        actual = fn.value if isinstance(fn, ast.Attribute) else None
                    elif p in formals and formals.index(p) < len(n.args) and not any(isinstance(a, ast.Starred) for a in n.args[:formals.index(p) + 1]):
                        actual = n.args[formals.index(p)]
                    for kw in n.keywords:
                        if kw.arg == p:
                            actual = kw.value
                    if actual is not None:
                        hit(origins_of(actual, env), e, n)
    return out, sites


def summaries():
    fns = collect()
    idx = by_name(fns)
    for _ in range(12):
        changed = False
        for f in fns.values():
            s, sites = analyse_function(f, idx)
            if not s <= f.summary:
                f.summary |= s
                changed = True
            for k, v in sites.items():
                f.sites.setdefault(k, v)
        if not changed:
            break
    return fns


def module_state_writes(fns):
    """H3: (function, line, text) of writes to module-level names"""
    out = []
    for (m, q), f in fns.items():
        mod = f.mod
        module_names = set(mod.assigns) | set(getattr(mod, "imports", {}))
        module_names = set(mod.assigns)
        local = set(f.params)
        for n in own_nodes(f.node):
            if isinstance(n, (ast.Assign, ast.AnnAssign, ast.AugAssign)):
                for t in (n.targets if isinstance(n, ast.Assign) else [n.target]):
                    for nm in ast.walk(t):
                        if isinstance(nm, ast.Name) and isinstance(nm.ctx, ast.Store):
                            local.add(nm.id)
            elif isinstance(n, (ast.For, ast.comprehension)):
                for nm in ast.walk(n.target):
                    if isinstance(nm, ast.Name):
                        local.add(nm.id)
            elif isinstance(n, ast.withitem) and n.optional_vars is not None:
                for nm in ast.walk(n.optional_vars):
                    if isinstance(nm, ast.Name):
                        local.add(nm.id)
        globals_declared = set()
        for n in own_nodes(f.node):
            if isinstance(n, ast.Global):
                globals_declared |= set(n.names)
                out.append((f, n.lineno, "global " + ", ".join(n.names)))
        shadow = local - globals_declared

        def root(e):
            while isinstance(e, (ast.Attribute, ast.Subscript)):
                e = e.value
            return e.id if isinstance(e, ast.Name) else None
        for n in own_nodes(f.node):
            tgt = []
            if isinstance(n, (ast.Assign, ast.Delete)):
                tgt = [t for t in n.targets if isinstance(t, (ast.Subscript, ast.Attribute))]
            elif isinstance(n, ast.AugAssign):
                tgt = [n.target] if not isinstance(n.target, ast.Name) else []
                if isinstance(n.target, ast.Name) and n.target.id in globals_declared:
                    out.append((f, n.lineno, " ".join(mod.segment(n).split())[:160]))
            elif isinstance(n, ast.Call) and isinstance(n.func, ast.Attribute) and n.func.attr in MUTATORS:
                tgt = [n.func]
            for t in tgt:
                r = root(t.value)
                if r is not None and r in module_names and r not in shadow and r != "LOGGER":
                    out.append((f, n.lineno, " ".join(mod.segment(n).split())[:160]))
    return out


def reachable(fns, roots):
    """functions reachable from the roots.  A call of a plain name resolves through the module's own definitions and imports; a
    method call resolves to the methods of that name of every class INSTANTIATED somewhere in the reachable code (and of the
    repository bases of those classes); a class name reaches its __init__."""
    idx = by_name(fns)
    classes = {}                      # class name -> [(module, ClassDef)]
    for f in fns.values():
        for cname, cnode in f.mod.classes.items():
            if not any(m is f.mod for m, _ in classes.get(cname, [])):
                classes.setdefault(cname, []).append((f.mod, cnode))
    seen, live_classes = {}, set()
    stack = list(roots)

    def resolve_name(mod, name):
        if name in mod.functions:
            return [fns[(mod.dotted, name)]] if (mod.dotted, name) in fns else []
        target = mod.imports.get(name)
        if target and "." in target:
            m, attr = target.rsplit(".", 1)
            if (m, attr) in fns:
                return [fns[(m, attr)]]
            if target.startswith("polyply"):
                # re-exported through a package __init__: the function of that name in the repository
                return [g for g in idx.get(attr, []) if "." not in g.qual]
        return []

    def class_of(mod, name):
        if name in mod.classes:
            return name
        target = mod.imports.get(name)
        if target and "." in target:
            m, attr = target.rsplit(".", 1)
            if attr in classes and (any(mm.dotted == m for mm, _ in classes[attr]) or target.startswith("polyply")):
                return attr
        return None

    def add_class(cname):
        todo = [cname]
        while todo:
            c = todo.pop()
            if c in live_classes:
                continue
            live_classes.add(c)
            for m, cnode in classes.get(c, []):
                for b in cnode.bases:
                    bn = b.id if isinstance(b, ast.Name) else (b.attr if isinstance(b, ast.Attribute) else None)
                    if bn in classes:
                        todo.append(bn)
                    else:
                        # a base class outside the repository (vermouth parsers, networkx graphs) calls back into any method
                        for g in fns.values():
                            if g.mod is m and g.qual.startswith(c + "."):
                                stack.append(g)
                init = fns.get((m.dotted, f"{c}.__init__"))
                if init is not None:
                    stack.append(init)
                for st in cnode.body:          # class-level tables of functions (e.g. MetaMolecule.parsers)
                    if isinstance(st, ast.Assign):
                        for x in ast.walk(st.value):
                            if isinstance(x, ast.Name):
                                for g in resolve_name(m, x.id):
                                    stack.append(g)
            # methods of a class that became live may already have been called by name: revisit
            for g in fns.values():
                if g.qual.startswith(c + ".") and g.qual.split(".")[-1] in called_methods:
                    stack.append(g)

    called_methods = set()
    while stack:
        f = stack.pop()
        if id(f) in seen:
            continue
        seen[id(f)] = f
        for n in own_nodes(f.node):
            if isinstance(n, ast.Name) and isinstance(n.ctx, ast.Load):
                # a function handed around as a value (parser tables, callbacks) counts as reachable; a module-level table that is
                # mentioned is searched for such references too
                refs = [n]
                if n.id in f.mod.assigns and n.id not in f.params:
                    refs += [x for x in ast.walk(f.mod.assigns[n.id]) if isinstance(x, ast.Name)]
                for r in refs:
                    for g in resolve_name(f.mod, r.id):
                        stack.append(g)
                    c = class_of(f.mod, r.id)
                    if c is not None:
                        add_class(c)
            if not isinstance(n, ast.Call):
                continue
            fn = n.func
            if isinstance(fn, ast.Name):
                c = class_of(f.mod, fn.id)
                if c is not None:
                    add_class(c)
                for g in resolve_name(f.mod, fn.id):
                    stack.append(g)
            elif isinstance(fn, ast.Attribute):
                # classmethod / static call through the class name, or module alias
                if isinstance(fn.value, ast.Name):
                    c = class_of(f.mod, fn.value.id)
                    if c is not None:
                        add_class(c)
                called_methods.add(fn.attr)
                for g in idx.get(fn.attr, []):
                    if "." in g.qual and g.qual.split(".")[0] in live_classes:
                        stack.append(g)
                    elif "." not in g.qual and isinstance(fn.value, ast.Name) and fn.value.id in f.mod.imports:
                        stack.append(g)          # module.function(...)
    return set(seen)


def lemma_history(ctx):
    import z3
    fns = summaries()
    out = []
    n_defaults = 0
    root = fns.get(("polyply.src.gen_itp", "gen_params"))
    if root is None:
        from pyvc.types import Unsupported
        raise Unsupported("gen_params not found (stale contract)")
    scope = reachable(fns, [root])
    for (m, q), f in sorted(fns.items()):
        if id(f) not in scope:
            continue            # C13 speaks about gen_params: functions it cannot reach are out of scope
        for p, d in f.defaults.items():
            if is_mutable_literal(d):
                n_defaults += 1
                bad = sorted(k for k in f.summary if k[0] == p)
                where = "; ".join(f"line {f.sites[k][0]}: {f.sites[k][1]}" for k in bad[:2])
                out.append((f"H1 {m.split('.')[-1]}.{q}: the mutable default of parameter '{p}' is never mutated" + (f"  [{where}]" if bad else ""),
                            [], z3.BoolVal(not bad)))
    for m, names in ENTRY.items():
        for nm in names:
            f = fns.get((m, nm))
            if f is None:
                from pyvc.types import Unsupported
                raise Unsupported(f"entry point {m}.{nm} not found (stale contract)")
            for p in f.params:
                bad = sorted(k for k in f.summary if k[0] == p)
                where = "; ".join(f"line {f.sites[k][0]}: {f.sites[k][1]}" for k in bad[:2])
                out.append((f"H2 {nm}: the argument '{p}' is not mutated by the run" + (f"  [{where}]" if bad else ""), [], z3.BoolVal(not bad)))
    writes = [w for w in module_state_writes(fns) if id(w[0]) in scope]
    by_mod = {}
    for f, line, text in writes:
        by_mod.setdefault(f.mod.dotted, []).append(f"{f.qual} line {line}: {text}")
    for m in repo_modules():
        w = by_mod.get(m, [])
        out.append((f"H3 {m.split('.')[-1]}: no function writes module-level state" + (f"  [{'; '.join(w[:2])}]" if w else ""), [], z3.BoolVal(not w)))
    out.append((f"the analysis saw the repository ({len(fns)} functions, {len(scope)} reachable from gen_params, {n_defaults} mutable defaults in scope)", [],
                z3.BoolVal(len(fns) >= 150 and len(scope) >= 40 and n_defaults >= 2)))
    return out

"""C08 (clause 'the molecule list is the [ molecules ] section expanded in order with the stated counts'):
TOPDirector.finalize of polyply/src/top_parser.py.

Everything the loop calls is library code or a constructor (vermouth read_itp / System.add_molecule / Block.to_molecule, the
MetaMolecule constructor, residue-graph extraction): assumed callees with the contracts written below.  What is PROVED is the
bookkeeping of the two nested loops: how many instances are made, in which order, with which names, and which global indices are
recorded per molecule name."""
import z3
from pyvc.types import (TInt, TStr, TBool, TObj, TTuple, TList, TDict, TDefaultDict, TRec, TOpt, slist_get, key_term)
from pyvc.contract import Contract, Registry, Loop
from pyvc.prelude import PARSE_INT, PARSE_INT_OK
from pyvc import ops

REG = Registry()
BLOCK = TRec("Block", _id=TObj)
FF = TRec("ForceField", blocks=TDict(TStr, BLOCK), _id=TObj)
RESGRAPH = TRec("ResGraph", _id=TObj)
INST = TRec("polyply.src.meta_molecule:MetaMolecule", mol_name=TStr, molecule=TOpt(TObj), force_field=TObj, graph=TObj)
TOPOLOGY = TRec("polyply.src.topology:Topology", molecules=TList(INST), mol_idx_by_name=TDefaultDict(TStr, TList(TInt)))
DIRECTOR = TRec("polyply.src.top_parser:TOPDirector", current_itp=TOpt(TList(TObj)), itp_lines=TList(TList(TObj)), current_meta=TOpt(TObj),
                force_field=FF, molecules=TList(TTuple(TStr, TStr)), topology=TOPOLOGY)
PS = z3.Function("instances_before", z3.IntSort(), z3.IntSort())          # ghost prefix sum of the stated counts
BLK = z3.Function("block_known_after_reading", z3.StringSort(), z3.BoolSort())   # ghost: names the key set of force_field.blocks after the itp sections were read
i_, j_, m_, a_, b_ = z3.Int("i_"), z3.Int("j_"), z3.Int("m_"), z3.Int("a_"), z3.Int("b_")
s_ = z3.String("s_")


def name_of(molecules, m):
    return slist_get(molecules, m)[0]


def count_of(molecules, m):
    n = PARSE_INT(ops.S(slist_get(molecules, m)[1]))
    return z3.If(n > 0, n, 0)


def ps_def(molecules):
    return z3.And(PS(0) == 0, z3.ForAll([m_], z3.Implies(z3.And(0 <= m_, m_ < molecules.n), PS(m_ + 1) == PS(m_) + count_of(molecules, m_))))


def ps_monotone(molecules):
    return z3.ForAll([a_, b_], z3.Implies(z3.And(0 <= a_, a_ <= b_, b_ <= molecules.n), PS(a_) <= PS(b_)))


def lemma_ps_monotone(ctx):
    mols = DIRECTOR.fields["molecules"].fresh("molecules")
    b = z3.Int("b")
    P = lambda bb: z3.ForAll([a_], z3.Implies(z3.And(0 <= a_, a_ <= bb), PS(a_) <= PS(bb)))      # noqa: E731
    return [("base: P(0)", [ps_def(mols), mols.n >= 0], P(z3.IntVal(0))),
            ("step: P(b) and b < len  ->  P(b + 1)", [ps_def(mols), mols.n >= 0, 0 <= b, b < mols.n, P(b)], P(b + 1))]


def idx_list(topology, key):
    d = topology.fields["mol_idx_by_name"]
    return d.v.unflat([c[key] for c in d.comps])


def expanded(topology, molecules, upto, total):
    """instances [0, total): the first `upto` entries of the [ molecules ] section, each repeated its stated number of times, in order"""
    mols = topology.fields["molecules"]
    inst = slist_get(mols, j_)
    names = z3.ForAll([m_, j_], z3.Implies(z3.And(0 <= m_, m_ < upto, PS(m_) <= j_, j_ < PS(m_ + 1)),
                                           inst.fields["mol_name"] == name_of(molecules, m_)))
    return names if total is None else z3.And(mols.n == total, names)


def visited_ok(molecules, upto):
    """the entries visited so far name known blocks and carry integer counts (otherwise the loop would have raised)"""
    return z3.ForAll([m_], z3.Implies(z3.And(0 <= m_, m_ < upto), z3.And(BLK(ops.S(name_of(molecules, m_))),
                                                                      PARSE_INT_OK(ops.S(slist_get(molecules, m_)[1])))))


def partial(topology, molecules, m, total):
    mols = topology.fields["molecules"]
    inst = slist_get(mols, j_)
    return z3.ForAll([j_], z3.Implies(z3.And(PS(m) <= j_, j_ < total), inst.fields["mol_name"] == name_of(molecules, m)))


def indexed(topology, iw, total):
    """mol_idx_by_name[name] lists, in increasing order, exactly the global indices of the instances with that name"""
    mols = topology.fields["molecules"]
    L = idx_list(topology, s_)
    e = slist_get(L, i_)
    inst = slist_get(mols, j_)
    w = iw.comps[0][j_]
    Lj = idx_list(topology, inst.fields["mol_name"])
    return z3.And(
        z3.ForAll([s_, i_], z3.Implies(z3.And(0 <= i_, i_ < L.n), z3.And(0 <= e, e < total, slist_get(mols, e).fields["mol_name"] == s_))),
        z3.ForAll([s_, i_, a_], z3.Implies(z3.And(0 <= i_, i_ < a_, a_ < L.n), e < slist_get(L, a_))),
        z3.ForAll([j_], z3.Implies(z3.And(0 <= j_, j_ < total), z3.And(0 <= w, w < Lj.n, slist_get(Lj, w) == j_))))


def fresh_topology(topology):
    d = topology.fields["mol_idx_by_name"]
    return z3.And(topology.fields["molecules"].n == 0, z3.ForAll([s_], idx_list(topology, s_).n == 0))


def some_unknown(self_):
    mols = self_.fields["molecules"]
    return z3.Exists([m_], z3.And(0 <= m_, m_ < mols.n, z3.Not(BLK(ops.S(name_of(mols, m_))))))


def some_bad_count(self_):
    mols = self_.fields["molecules"]
    return z3.Exists([m_], z3.And(0 <= m_, m_ < mols.n, z3.Not(PARSE_INT_OK(ops.S(slist_get(mols, m_)[1])))))


def hook_index(eng, env):
    iw, total = env["_iw"], env["total_count"]
    from pyvc.types import SDict
    top = env["self"].fields["topology"]
    L = idx_list(top, ops.S(env["mol_name"]))
    env["_iw"] = SDict(iw.k, iw.v, iw.dom, [z3.Store(iw.comps[0], total, L.n - 1)])


# ---- assumed callees ------------------------------------------------------------------------------------------------
REG.add(Contract("vermouth.gmx.itp_read:read_itp", params=dict(lines=TList(TObj), force_field=FF), modifies=["force_field.blocks", "force_field._id"],
                 trusted=True, note="vermouth: adds the blocks of one itp text to the force field"))
REG.add(Contract("polyply.src.meta_molecule:_make_edges", params=dict(force_field=FF), modifies=["force_field.blocks"],
                 ensures={"names the set of known blocks after reading (ghost)": "blocks_named_ff(force_field)"},
                 spec_fns=dict(blocks_named_ff=lambda ff: z3.ForAll([s_], z3.Select(ff.fields["blocks"].dom, s_) == BLK(s_))), trusted=True,
                 note="changes edges inside blocks and links only; the ghost predicate block_known_after_reading names the resulting key set"))
REG.add(Contract("polyply.src.meta_molecule:MetaMolecule._block_graph_to_res_graph", params=dict(block=BLOCK), result=RESGRAPH, trusted=True,
                 note="vermouth make_residue_graph"))
REG.add(Contract("ResGraph:copy", params=dict(self=RESGRAPH, as_view=TBool), result=TObj, trusted=True, note="networkx Graph.copy: an independent copy"))
REG.add(Contract("Block:to_molecule", params=dict(self=BLOCK), result=TObj, trusted=True, note="vermouth Block.to_molecule: a new molecule"))
REG.add(Contract("polyply.src.meta_molecule:MetaMolecule", params=dict(graph=TObj, force_field=FF, mol_name=TStr), result=INST,
                 ensures={"carries the name it was given": "result.mol_name == mol_name"}, trusted=True, note="constructor (networkx Graph.__init__ through super())"))
REG.add(Contract("polyply.src.topology:Topology.add_molecule", params=dict(self=TOPOLOGY, molecule=INST), modifies=["self.molecules"],
                 ensures={"appends the molecule": "len(self.molecules) == len(old(self.molecules)) + 1 and appended(self.molecules, old(self.molecules), molecule)"},
                 spec_fns=dict(appended=lambda new, old, x: z3.And(INST.eq(slist_get(new, old.n), x),
                                                                   z3.ForAll([i_], z3.Implies(z3.And(0 <= i_, i_ < old.n), INST.eq(slist_get(new, i_), slist_get(old, i_)))))),
                 trusted=True, note="vermouth System.add_molecule: molecules.append (and force-field bookkeeping)"))
REG.add(Contract("polyply.src.top_parser:TOPDirector.super.finalize", params=dict(self=DIRECTOR), trusted=True,
                 note="vermouth SectionLineParser.finalize: resets the parser's section state"))

FINALIZE = REG.add(Contract(
    "polyply.src.top_parser:TOPDirector.finalize",
    params=dict(self=DIRECTOR),
    requires={"the topology holds no molecules yet (finalize runs once, at the end of reading)": "fresh_topology(self.topology)"},
    axioms={"definition of the ghost prefix sum instances_before": "ps_def(self.molecules)",
            "the prefix sum is monotone (induction: lemma unit molecule-count-prefix-sum)": "ps_monotone(self.molecules)"},
    raises=[("OSError", "self.current_meta is not None"),
            ("KeyError", "some_unknown(self)"),
            ("ValueError", "some_bad_count(self)")],
    ensures={"the molecule list is the [ molecules ] section expanded in order with the stated counts":
             "expanded(self.topology, old(self.molecules), len(old(self.molecules)), PS(len(old(self.molecules))))",
             "per molecule name, the recorded indices are exactly the positions of its instances, in increasing order":
             "indexed(self.topology, _iw, PS(len(old(self.molecules))))"},
    ghost_locals={"_iw": TDict(TInt, TInt)},
    ghost={"after:self.topology.mol_idx_by_name[mol_name].append(total_count)": hook_index},
    loops={0: Loop({"reading changes the force field only": "same_but_ff(self, entry['self'])"}, modifies=[]),
           1: Loop({"expanded so far": "expanded(self.topology, self.molecules, k, total_count)", "count": "total_count == PS(k)",
                    "indices so far": "indexed(self.topology, _iw, total_count)",
                    "visited entries were accepted": "visited_ok(self.molecules, k)",
                    "the section itself is untouched": "same_mols(self, entry['self']) and blocks_named(self)"},
                   modifies=["_iw"]),
           2: Loop({"expanded so far": "expanded(self.topology, self.molecules, k, None)", "this entry so far": "partial(self.topology, self.molecules, k, total_count)",
                    "count": "total_count == PS(k) + idx and len(self.topology.molecules) == total_count and 0 <= idx",
                    "indices so far": "indexed(self.topology, _iw, total_count)",
                    "the section itself is untouched": "same_mols(self, entry['self']) and blocks_named(self) and mol_name == self.molecules[k][0]",
                    "visited entries were accepted": "visited_ok(self.molecules, k) and known_and_int(self.molecules, k)"},
                   index="idx", modifies=["_iw"])},
    spec_fns=dict(visited_ok=visited_ok, fresh_topology=fresh_topology, ps_def=ps_def, ps_monotone=ps_monotone, expanded=expanded, partial=partial, indexed=indexed,
                  some_unknown=some_unknown, some_bad_count=some_bad_count, PS=lambda x: PS(x),
                  same_mols=lambda a, b: DIRECTOR.fields["molecules"].eq(a.fields["molecules"], b.fields["molecules"]),
                  known_and_int=lambda mols, k: z3.And(BLK(ops.S(name_of(mols, k))), PARSE_INT_OK(ops.S(slist_get(mols, k)[1]))),
                  blocks_named=lambda self_: z3.ForAll([s_], z3.Select(self_.fields["force_field"].fields["blocks"].dom, s_) == BLK(s_)),
                  same_but_ff=lambda a, b: z3.And(*[DIRECTOR.fields[f].eq(a.fields[f], b.fields[f]) for f in DIRECTOR.fields if f != "force_field"])),
    props=("C08",),
    note="all callees are assumed (library code / constructors); proved: counts, order, names and recorded indices of the instantiation loops"))

CONTRACTS = [FINALIZE]

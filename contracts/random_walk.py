"""Contracts for polyply/src/random_walk.py (C17, C05, C07).

Abstract view of the neighbour engine used by the callers verified here:
    posd : (mol_idx, node) -> position     dom(posd) = the residues currently positioned
The engine methods appear with *assumed* contracts over this view (they are decided for the concrete
representation by C16's units); everything else in this file is verified against the real source.
"""
import z3
from pyvc.types import (TInt, TReal, TBool, TStr, TNode, TObj, TTuple, TVec, TList, TDict, TRec, TOpt, NArr, SList, SDict,
                        key_term, slist_get, TNodeT)
from pyvc.contract import Contract, Registry, Loop
from pyvc import ops

REG = Registry()
from contracts.rw_types import V3, MK, ENGINE, NODEATTR, TREE, METAMOL, WALK, RESTRAINT    # noqa: E402


def has(d, m, x):
    return z3.Select(d.dom, key_term(d.k, (m, x)))


def val_eq(d1, d2, m, x):
    kt = key_term(d1.k, (m, x))
    return z3.And(*[a[kt] == b[kt] for a, b in zip(d1.comps, d2.comps)])


m_, x_ = z3.Int("m_"), z3.Const("x_", TNodeT.sort)


def in_list(xs, x):
    i = z3.Int("i_")
    return z3.Exists([i], z3.And(0 <= i, i < xs.n, xs.comps[0][i] == x))


# ---- assumed contracts of the engine over the abstract view -----------------------------------------

def removed_exactly(new, old, mol, keys):
    """posd' = posd minus {(mol, x) | x in keys}; every other entry (any molecule) unchanged"""
    return z3.ForAll([m_, x_], z3.And(
        has(new, m_, x_) == z3.And(has(old, m_, x_), z3.Not(z3.And(m_ == mol, in_list(keys, x_)))),
        z3.Implies(has(new, m_, x_), val_eq(new, old, m_, x_))))


def added_exactly(new, old, mol, node, point):
    kt = key_term(old.k, (mol, node))
    return z3.And(
        z3.ForAll([m_, x_], z3.And(has(new, m_, x_) == z3.Or(has(old, m_, x_), z3.And(m_ == mol, x_ == node)),
                                   z3.Implies(z3.Not(z3.And(m_ == mol, x_ == node)), val_eq(new, old, m_, x_)))),
        *[c[kt] == ops.real(p) for c, p in zip(new.comps, point.data)])


ENG_REMOVE = REG.add(Contract(
    "polyply.src.nonbond_engine:NonBondEngine.remove_positions",
    params=dict(self=ENGINE, mol_idx=TInt, node_keys=TList(TNode)),
    ensures={"exactly the listed residues of that molecule are removed": "removed_exactly(self.posd, old(self.posd), mol_idx, node_keys)",
             "box unchanged": "self.boxsize == old(self.boxsize)"},
    modifies=["self.posd"],
    spec_fns={"removed_exactly": removed_exactly},
    trusted=True,
))

ENG_ADD = REG.add(Contract(
    "polyply.src.nonbond_engine:NonBondEngine.add_positions",
    params=dict(self=ENGINE, point=V3, mol_idx=TInt, node_key=TNode, start=TBool),
    ensures={"the residue gets exactly this position, nothing else changes": "added_exactly(self.posd, old(self.posd), mol_idx, node_key, point)"},
    modifies=["self.posd"],
    spec_fns={"added_exactly": added_exactly},
    trusted=True,
))


# ---- _rewind -----------------------------------------------------------------------------------------

def rewound(new_placed, old_placed, n):
    i = z3.Int("i_")
    P = old_placed.n
    return z3.And(new_placed.n == P - n,
                  z3.ForAll([i], z3.Implies(z3.And(0 <= i, i < P - n),
                                            z3.And(*[a[i] == b[i] for a, b in zip(new_placed.comps, old_placed.comps)]))))


INV = z3.Function("placed_idx", TNodeT.sort, z3.IntSort())    # ghost: index at which a residue is recorded in placed_nodes


def recorded_distinct(placed):
    """recorded residues are pairwise distinct; INV is the (ghost) inverse of the record"""
    i = z3.Int("i_")
    return z3.ForAll([i], z3.Implies(z3.And(0 <= i, i < placed.n), INV(placed.comps[1][i]) == i))


def removed_window(new, old, mol, placed, n):
    """exactly the residues recorded at indices [P-n, P-1) are removed from the engine"""
    P = placed.n
    inwin = z3.And(P - n <= INV(x_), INV(x_) < P - 1, placed.comps[1][INV(x_)] == x_)
    return z3.ForAll([m_, x_], z3.And(
        has(new, m_, x_) == z3.And(has(old, m_, x_), z3.Not(z3.And(m_ == mol, inwin))),
        z3.Implies(has(new, m_, x_), val_eq(new, old, m_, x_))))


REWIND = REG.add(Contract(
    "polyply.src.random_walk:RandomWalk._rewind",
    params=dict(self=WALK, current_step=TInt),
    result=TInt,
    requires={"called after a failed step with at least nrewind+1 recorded placements (caller's guard)":
              "self.nrewind >= 1 and len(self.placed_nodes) >= self.nrewind + 1",
              "recorded residues are pairwise distinct (ghost inverse INV)": "recorded_distinct(self.placed_nodes)"},
    ensures={
        "the discarded placements are removed from the engine, nothing else": "removed_window(self.nonbond_matrix.posd, old(self.nonbond_matrix.posd), self.mol_idx, old(self.placed_nodes), self.nrewind)",
        "the record is truncated by nrewind": "rewound(self.placed_nodes, old(self.placed_nodes), self.nrewind)",
        "building resumes at the step of the earliest discarded placement": "result == old(self.placed_nodes)[len(old(self.placed_nodes)) - self.nrewind][0]",
        "nothing else of the walker changes": "self.mol_idx == old(self.mol_idx) and self.nrewind == old(self.nrewind) and self.maxiter == old(self.maxiter)",
    },
    modifies=["self.nonbond_matrix.posd", "self.placed_nodes"],
    spec_fns={"removed_window": removed_window, "rewound": rewound, "recorded_distinct": recorded_distinct},
    props=("C17",),
))


# ---- update_positions as seen by its caller (assumed here; its own body is verified in C05's units) ----

def added_some(new, old, mol, node):
    return z3.ForAll([m_, x_], z3.And(has(new, m_, x_) == z3.Or(has(old, m_, x_), z3.And(m_ == mol, x_ == node)),
                                      z3.Implies(z3.Not(z3.And(m_ == mol, x_ == node)), val_eq(new, old, m_, x_))))


def same_posd(new, old):
    return z3.ForAll([m_, x_], z3.And(has(new, m_, x_) == has(old, m_, x_), val_eq(new, old, m_, x_)))


WALK_FRAME_FIELDS = ["mol_idx", "start", "maxiter", "maxdim", "vector_sphere", "max_force", "step_fudge", "start_node", "nrewind", "molecule"]


def walker_frame(new, old, also=()):
    """fields of the walker that no step may change"""
    from pyvc.engine import type_of
    out = []
    for f in list(WALK_FRAME_FIELDS) + list(also):
        t = WALK.fields[f]
        out.append(t.eq(new.fields[f], old.fields[f]))
    out.append(V3.eq(new.fields["nonbond_matrix"].fields["boxsize"], old.fields["nonbond_matrix"].fields["boxsize"]))
    return z3.And(*out)


UPDATE_ABS = REG.add(Contract(
    "polyply.src.random_walk:RandomWalk.update_positions",
    params=dict(self=WALK, vector_bundle=TList(V3), current_node=TNode, prev_node=TNode),
    result=TBool,
    requires={"residues are only grown from an already positioned neighbour": "has(self.nonbond_matrix.posd, self.mol_idx, prev_node)"},
    ensures={"success places exactly the current residue": "implies(result, added_some(self.nonbond_matrix.posd, old(self.nonbond_matrix.posd), self.mol_idx, current_node))",
             "failure leaves the engine untouched": "implies(Not(result), same_posd(self.nonbond_matrix.posd, old(self.nonbond_matrix.posd)))",
             "frame": "walker_frame(self, old(self), ['success', 'placed_nodes'])"},
    modifies=["self.nonbond_matrix.posd", "self.prev_prob"],
    spec_fns={"has": has, "added_some": added_some, "same_posd": same_posd, "walker_frame": walker_frame},
    trusted=True,
))

PURE_BOOL = dict(result=TBool, trusted=True)
REG.add(Contract("polyply.src.random_walk:fulfill_geometrical_constraints", params=dict(point=V3, node_dict=TObj), **PURE_BOOL))
REG.add(Contract("polyply.src.random_walk:RandomWalk._is_overlap", params=dict(self=WALK, point=V3, node=TNode), **PURE_BOOL))

_NODES_T = METAMOL.fields["nodes"]
FSN = z3.Function("find_starting_node", *(_NODES_T.sorts() + [TNodeT.sort]))


def fsn(nodes):
    return FSN(*_NODES_T.flat(nodes))


REG.add(Contract("polyply.src.random_walk:_find_starting_node", params=dict(meta_molecule=METAMOL), result=TNode,
                 ensures={"a node of the molecule, determined by the node table": "result == fsn(meta_molecule.nodes) and result in meta_molecule.nodes"},
                 spec_fns={"fsn": fsn}, trusted=True,
                 note="requires a non-empty molecule; the body (first node without a 'build' key, else the first node) is covered by the bounded unit"))


# ---- _random_walk ------------------------------------------------------------------------------------
CNT = z3.Function("cnt_build", z3.IntSort(), z3.IntSort())       # number of build-steps before step s   (ghost, state independent)
TIDX = z3.Function("tidx", TNodeT.sort, z3.IntSort())             # index of the tree edge whose target is the node (ghost)
PAR = z3.Function("par", z3.IntSort(), z3.IntSort())              # index of the edge that placed the source of edge s (ghost witness)
s_, i_ = z3.Int("s_"), z3.Int("i_")


def start_of(self_, meta):
    sn = self_.fields["start_node"]
    return z3.If(z3.And(z3.Not(sn.none), ops.NODE_TRUTHY(sn.val)), sn.val, fsn(meta.fields["nodes"]))


def build_of(meta, x):
    nd = meta.fields["nodes"]
    return nd.comps[0][x]          # first flattened component of the node record = build flag


def tgt(path, s):
    return path.comps[1][s]


def src(path, s):
    return path.comps[0][s]


def tree_facts(self_, meta):
    """assumed contract of MetaMolecule.search_tree (networkx dfs/bfs tree rooted at the start node): every node is the
    target of at most one edge, the root of none, each edge's source is the root or the target of an earlier edge, all
    nodes belong to the molecule; plus the definitions of the ghost functions cnt / tidx"""
    path = meta.fields["search_tree"].fields["edges"]
    n = path.n
    nodes = meta.fields["nodes"]
    root = start_of(self_, meta)
    inr = z3.And(0 <= s_, s_ < n)
    return z3.And(
        z3.ForAll([s_], z3.Implies(inr, z3.And(TIDX(tgt(path, s_)) == s_, tgt(path, s_) != root,
                                                 z3.Select(nodes.dom, tgt(path, s_)), z3.Select(nodes.dom, src(path, s_)),
                                                 z3.Or(src(path, s_) == root,
                                                       z3.And(0 <= PAR(s_), PAR(s_) < s_, tgt(path, PAR(s_)) == src(path, s_)))))),
        z3.Select(nodes.dom, root),
        z3.ForAll([x_], INV(x_) == CNT(TIDX(x_))),
        CNT(0) == 0,
        z3.ForAll([s_], z3.Implies(inr, CNT(s_ + 1) == CNT(s_) + z3.If(build_of(meta, tgt(path, s_)), 1, 0))),
        # monotonicity of cnt: proved by induction in lemma_cnt_monotone, used here as a lemma
        z3.ForAll([s_, i_], z3.Implies(z3.And(0 <= s_, s_ <= i_, i_ <= n), CNT(s_) <= CNT(i_)), patterns=[z3.MultiPattern(CNT(s_), CNT(i_))]),
        # strict across a build step (corollary: cnt(s)+1 = cnt(s+1) <= cnt(i)), proved in lemma_cnt_monotone
        z3.ForAll([s_, i_], z3.Implies(z3.And(0 <= s_, s_ < i_, i_ <= n, build_of(meta, tgt(path, s_))), CNT(s_) < CNT(i_)),
                  patterns=[z3.MultiPattern(CNT(s_), CNT(i_))]),
    )


def is_target_before(meta, x, step):
    path = meta.fields["search_tree"].fields["edges"]
    return z3.And(0 <= TIDX(x), TIDX(x) < step, TIDX(x) < path.n, tgt(path, TIDX(x)) == x)


def engine_matches_flags(self_, meta):
    """entry state of an attempt: exactly the supplied residues (build False) of this molecule are positioned"""
    posd = self_.fields["nonbond_matrix"].fields["posd"]
    mol = self_.fields["mol_idx"]
    nodes = meta.fields["nodes"]
    pos_none = nodes.comps[1][x_]
    return z3.ForAll([x_], z3.Implies(z3.Select(nodes.dom, x_), z3.And(
        has(posd, mol, x_) == z3.Not(build_of(meta, x_)),
        has(posd, mol, x_) == z3.Not(pos_none))))


def _walk_parts(self_, meta, pre_posd, step_count, first_node):
    path = meta.fields["search_tree"].fields["edges"]
    placed = self_.fields["placed_nodes"]
    P = placed.n
    posd = self_.fields["nonbond_matrix"].fields["posd"]
    mol = self_.fields["mol_idx"]
    pst, pnd = placed.comps[0], placed.comps[1]
    return {
        "bounds": z3.And(0 <= step_count, step_count <= path.n, P == CNT(step_count)),
        # every build step below step_count is recorded at index cnt(s) ...
        "forward": z3.ForAll([s_], z3.Implies(z3.And(0 <= s_, s_ < step_count, build_of(meta, tgt(path, s_))),
                                              z3.And(pst[CNT(s_)] == s_, pnd[CNT(s_)] == tgt(path, s_)))),
        # ... and every record is such a step
        "backward": z3.ForAll([i_], z3.Implies(z3.And(0 <= i_, i_ < P),
                                               z3.And(0 <= pst[i_], pst[i_] < step_count, build_of(meta, tgt(path, pst[i_])),
                                                      pnd[i_] == tgt(path, pst[i_]), CNT(pst[i_]) == i_))),
        "ordered": z3.ForAll([i_, s_], z3.Implies(z3.And(0 <= i_, i_ < s_, s_ < P), pst[i_] < pst[s_])),
        # engine: this molecule holds exactly the residues positioned at loop entry plus the recorded ones; others untouched
        "engine": z3.And(z3.ForAll([m_, x_], z3.And(
            has(posd, m_, x_) == z3.Or(has(pre_posd, m_, x_), z3.And(m_ == mol, 0 <= INV(x_), INV(x_) < P, pnd[INV(x_)] == x_)),
            z3.Implies(has(pre_posd, m_, x_), val_eq(posd, pre_posd, m_, x_)))), has(pre_posd, mol, first_node)),
        "distinct": z3.ForAll([i_], z3.Implies(z3.And(0 <= i_, i_ < P), INV(pnd[i_]) == i_)),
    }


WALK_PARTS = ("bounds", "forward", "backward", "ordered", "engine", "distinct")


def walk_inv(which):
    def f(self_, meta, pre_posd, step_count, first_node):
        return _walk_parts(self_, meta, pre_posd, step_count, first_node)[which]
    return f


def pre_state_ok(pre_posd, self_, meta, first_node):
    """what is positioned at loop entry: supplied residues (+ the start residue), none of them a residue to build later"""
    mol = self_.fields["mol_idx"]
    nodes = meta.fields["nodes"]
    return z3.ForAll([x_], z3.Implies(z3.And(z3.Select(nodes.dom, x_), x_ != first_node),
                                      has(pre_posd, mol, x_) == z3.Not(build_of(meta, x_))))


def start_on_start_point(self_, old_self, meta):
    """a start residue that had no position when the walk began sits exactly on the start point handed to the walker (C05: 'the first
    residue of a molecule without coordinates sits on a point of the start grid' -- the grid point is chosen by the caller)"""
    posd, old = self_.fields["nonbond_matrix"].fields["posd"], old_self.fields["nonbond_matrix"].fields["posd"]
    mol = old_self.fields["mol_idx"]
    root = start_of(old_self, meta)
    kt = key_term(posd.k, (mol, root))
    st = old_self.fields["start"]
    return z3.Implies(z3.Not(has(old, mol, root)), z3.And(has(posd, mol, root), *[posd.comps[i][kt] == ops.real(st.data[i]) for i in range(3)]))


def all_built(self_, meta):
    path = meta.fields["search_tree"].fields["edges"]
    posd = self_.fields["nonbond_matrix"].fields["posd"]
    mol = self_.fields["mol_idx"]
    return z3.And(z3.ForAll([s_], z3.Implies(z3.And(0 <= s_, s_ < path.n), has(posd, mol, tgt(path, s_)))),
                  has(posd, mol, start_of(self_, meta)))


def others_untouched(new_self, old_self, meta):
    """other molecules and the supplied residues of this molecule keep their entries"""
    new, old = new_self.fields["nonbond_matrix"].fields["posd"], old_self.fields["nonbond_matrix"].fields["posd"]
    mol = old_self.fields["mol_idx"]
    # only residues of THIS molecule that have to be built may change
    return z3.ForAll([m_, x_], z3.Implies(z3.Or(m_ != mol, z3.Not(z3.And(z3.Select(meta.fields["nodes"].dom, x_), build_of(meta, x_)))),
                                          z3.And(has(new, m_, x_) == has(old, m_, x_), z3.Implies(has(old, m_, x_), val_eq(new, old, m_, x_)))))


RANDOM_WALK = REG.add(Contract(
    "polyply.src.random_walk:RandomWalk._random_walk",
    params=dict(self=WALK, meta_molecule=METAMOL),
    requires={
        "self.molecule is the molecule being built (run_molecule binds both)": "METAMOL_eq(self.molecule, meta_molecule)",
        "search tree rooted at the start residue (networkx contract + F10 obligation of the caller)": "tree_facts(self, meta_molecule)",
        "attempt starts with exactly the supplied residues positioned (established by from_topology / by the roll-back of the previous attempt)": "engine_matches_flags(self, meta_molecule)",
        "nothing recorded yet": "len(self.placed_nodes) == 0",
        "rewind depth": "self.nrewind >= 1",
        "more directions than tries per step (5000 vs 80 in the program)": "len(self.vector_sphere) > self.maxiter and self.maxiter >= 0",
        "positive box": "all([d > 0 for d in self.maxdim])",
        "definition of the ghost predicate 'one of the vectors handed in'": "member_def(self.vector_sphere)",
    },
    ensures={
        "on success every residue of the molecule is positioned": "implies(self.success, all_built(self, meta_molecule))",
        "other molecules and supplied residues never change": "others_untouched(self, old(self), old(meta_molecule))",
        "on success a start residue without coordinates sits on the start point": "implies(self.success, start_on_start_point(self, old(self), old(meta_molecule)))",
    },
    loops={0: Loop({**{w: f"walk_{w}(self, meta_molecule, entry['self'].nonbond_matrix.posd, step_count, first_node)" for w in WALK_PARTS},
                    "pre": "pre_state_ok(entry['self'].nonbond_matrix.posd, self, meta_molecule, first_node)",
                    "frame": "walker_frame(self, entry['self']) and METAMOL_eq(meta_molecule, entry['meta_molecule']) and first_node == entry['first_node']",
                    "directions": "same_rows(vector_bundle, self.vector_sphere)",
                    })},
    spec_fns={"tree_facts": tree_facts, "engine_matches_flags": engine_matches_flags, **{f"walk_{w}": walk_inv(w) for w in WALK_PARTS}, "pre_state_ok": pre_state_ok,
              "all_built": all_built, "others_untouched": others_untouched, "walker_frame": walker_frame, "start_on_start_point": start_on_start_point,
              "METAMOL_eq": lambda a, b: METAMOL.eq(a, b), "CNT": CNT, "has": has, "member_def": lambda b: member_def(b),
              "same_rows": lambda a, b: z3.And(a.n == b.n, *[x == y for x, y in zip(a.comps, b.comps)])},
    modifies=["self.nonbond_matrix.posd", "self.success", "self.placed_nodes", "self.prev_prob", "meta_molecule.root"],
    props=("C17", "C04"),
))


def lemma_cnt_monotone(ctx):
    """induction for the monotonicity of the counting function, split into base and step (z3 does no induction):
    for fixed s:  P(t) := s <= t -> cnt(s) <= cnt(t);  base t = s;  step P(t) -> P(t+1) from cnt(t+1) = cnt(t) + (0|1)"""
    s, t = z3.Ints("s t")
    b = z3.Function("b", z3.IntSort(), z3.BoolSort())
    defn = z3.ForAll([s_], CNT(s_ + 1) == CNT(s_) + z3.If(b(s_), 1, 0))
    mono = z3.ForAll([s_, i_], z3.Implies(z3.And(0 <= s_, s_ <= i_), CNT(s_) <= CNT(i_)))
    return [("base", [defn], CNT(s) <= CNT(s)),
            ("step", [defn, s <= t, CNT(s) <= CNT(t)], CNT(s) <= CNT(t + 1)),
            ("strict across a build step", [defn, mono, 0 <= s, s < t, b(s)], CNT(s) < CNT(t))]


# ======================================================================================================
# C05: _take_step and update_positions (bodies verified here; callers use UPDATE_ABS above)
# ======================================================================================================
from contracts import linalg as _L

REG5 = Registry()           # registry used when verifying the bodies of _take_step / update_positions
REG5.add(_L.PBC_COMPLETE)


def take_step_ok(result, vectors, step_length, coord, box):
    new, idx = result
    v = [c[idx] for c in vectors.comps]
    moved = NArr((3,), [ops.real(coord.data[i]) + v[i] * ops.real(step_length) for i in range(3)])
    return z3.And(0 <= idx, idx < vectors.n, _L.vec_eq(new, _L.wrapped(moved, box)),
                  *[z3.And(0 <= ops.real(new.data[i]), ops.real(new.data[i]) < ops.real(box.data[i])) for i in range(3)])


TAKE_STEP = REG5.add(Contract(
    "polyply.src.random_walk:_take_step",
    params=dict(vectors=TList(V3), step_length=TReal, coord=V3, box=V3),
    result=TTuple(V3, TInt),
    requires={"at least one direction left": "len(vectors) >= 1", "positive box": "all([d > 0 for d in box])"},
    ensures={"one of the given vectors, scaled by the step length, added to the coordinate and wrapped into the box":
             "take_step_ok(result, vectors, step_length, coord, box)"},
    spec_fns={"take_step_ok": take_step_ok},
    props=("C05",),
))

# uninterpreted predicates naming the guards (their own bodies are verified in C07 / C16 units)
_POSD_SORTS = ENGINE.fields["posd"].sorts()
_ATTR_SORTS = METAMOL.fields["nodes"].v.sorts()
FULFILL = z3.Function("fulfills_restraints", *([z3.RealSort()] * 3 + _ATTR_SORTS + [z3.BoolSort()]))
MILESTONE = z3.Function("meets_milestones", *([z3.RealSort()] * 3 + [TNodeT.sort] + _POSD_SORTS + [z3.BoolSort()]))
RESTRICT = z3.Function("direction_allowed", *([z3.RealSort()] * 6 + _ATTR_SORTS + [z3.BoolSort()]))
OVERLAP = z3.Function("overlaps", *([z3.RealSort()] * 3 + [TNodeT.sort] + _POSD_SORTS + [z3.BoolSort()]))
SIGMA = z3.Function("sigma_pair", z3.IntSort(), TNodeT.sort, TNodeT.sort, z3.RealSort())


def p3(p):
    return [ops.real(x) for x in p.data]


ENG_GET_POINT = REG5.add(Contract(
    "polyply.src.nonbond_engine:NonBondEngine.get_point",
    params=dict(self=ENGINE, mol_idx=TInt, node=TNode), result=V3,
    requires={"the residue is positioned": "has(self.posd, mol_idx, node)"},
    ensures={"its current position": "result == self.posd[(mol_idx, node)]"},
    spec_fns={"has": has}, trusted=True))
ENG_GET_INTER = REG5.add(Contract(
    "polyply.src.nonbond_engine:NonBondEngine.get_interaction",
    params=dict(self=ENGINE, mol_idx_a=TInt, mol_idx_b=TInt, node_a=TNode, node_b=TNode), result=TTuple(TReal, TReal),
    ensures={"the pair's size (mean of the two residue sizes) and well depth": "result[0] == SIGMA(mol_idx_a, node_a, node_b) and result[0] > 0"},
    spec_fns={"SIGMA": SIGMA}, trusted=True))
REG5.add(ENG_ADD)
REG5.add(TAKE_STEP)
REG5.add(Contract("polyply.src.random_walk:fulfill_geometrical_constraints", params=dict(point=V3, node_dict=METAMOL.fields["nodes"].v), result=TBool,
                  ensures={"names the predicate": "result == FULFILL(*p3(point), *flat_attrs(node_dict))"},
                  spec_fns={"FULFILL": FULFILL, "p3": p3, "flat_attrs": lambda r: METAMOL.fields["nodes"].v.flat(r)}, trusted=True))
REG5.add(Contract("polyply.src.random_walk:is_restricted", params=dict(point=V3, old_point=V3, node_dict=METAMOL.fields["nodes"].v), result=TBool,
                  ensures={"names the predicate": "result == RESTRICT(*p3(point), *p3(old_point), *flat_attrs(node_dict))"},
                  spec_fns={"RESTRICT": RESTRICT, "p3": p3, "flat_attrs": lambda r: METAMOL.fields["nodes"].v.flat(r)}, trusted=True))
REG5.add(Contract("polyply.src.random_walk:RandomWalk.checks_milestones", params=dict(self=WALK, current_node=TNode, current_position=V3, fudge=TReal), result=TBool,
                  ensures={"names the predicate": "result == MILESTONE(*p3(current_position), current_node, *posd_flat(self.nonbond_matrix.posd))"},
                  spec_fns={"MILESTONE": MILESTONE, "p3": p3, "posd_flat": lambda d: ENGINE.fields["posd"].flat(d)}, trusted=True))
REG5.add(Contract("polyply.src.random_walk:RandomWalk._is_overlap", params=dict(self=WALK, point=V3, node=TNode), result=TBool,
                  ensures={"names the predicate": "result == OVERLAP(*p3(point), node, *posd_flat(self.nonbond_matrix.posd))"},
                  spec_fns={"OVERLAP": OVERLAP, "p3": p3, "posd_flat": lambda d: ENGINE.fields["posd"].flat(d)}, trusted=True))
REG5.add(Contract("polyply.src.random_walk:RandomWalk.bendiness", params=dict(self=WALK, point=V3, node=TNode), result=TBool,
                  ensures={"frame": "walker_frame(self, old(self), ['success', 'placed_nodes']) and same_posd(self.nonbond_matrix.posd, old(self.nonbond_matrix.posd))"},
                  modifies=["self.prev_prob"], spec_fns={"walker_frame": walker_frame, "same_posd": same_posd}, trusted=True))


def accepted_point_ok(self_, old_self, new_point, unwrapped_point, last_point, step_length, current_node, prev_node):
    """what an accepted placement satisfies (statement of C05/C07): the point is a wrapped step of the stated length from the
    position of the residue it is grown from, lies in the box, met every guard, and is the only change of the engine"""
    old_posd = old_self.fields["nonbond_matrix"].fields["posd"]
    posd = self_.fields["nonbond_matrix"].fields["posd"]
    mol = old_self.fields["mol_idx"]
    pf = ENGINE.fields["posd"].flat(old_posd)
    kt = key_term(old_posd.k, (mol, prev_node))
    box = old_self.fields["maxdim"]
    nodeattr = old_self.fields["molecule"].fields["nodes"]
    cur_attrs = [c[current_node] for c in nodeattr.comps]
    return z3.And(
        added_exactly(posd, old_posd, mol, current_node, new_point),
        *[ops.real(last_point.data[i]) == old_posd.comps[i][kt] for i in range(3)],
        ops.real(step_length) == ops.real(old_self.fields["step_fudge"]) * SIGMA(mol, prev_node, current_node),
        *[z3.And(0 <= ops.real(new_point.data[i]), ops.real(new_point.data[i]) < ops.real(box.data[i])) for i in range(3)],
        FULFILL(*p3(new_point), *cur_attrs),
        MILESTONE(*p3(new_point), current_node, *pf),
        RESTRICT(*p3(unwrapped_point), *p3(last_point), *cur_attrs),
        z3.Not(OVERLAP(*p3(new_point), current_node, *pf)),
    )


MEMBER = z3.Function("handed_in_direction", z3.RealSort(), z3.RealSort(), z3.RealSort(), z3.BoolSort())    # ghost: v is one of the vectors handed in


def member_def(entry_bundle):
    """definition of the ghost predicate: exactly the rows of the bundle handed in"""
    j = z3.Int("j_")
    a, b, c = z3.Reals("va_ vb_ vc_")
    return z3.And(
        z3.ForAll([j], z3.Implies(z3.And(0 <= j, j < entry_bundle.n), MEMBER(*[comp[j] for comp in entry_bundle.comps]))),
        z3.ForAll([a, b, c], z3.Implies(MEMBER(a, b, c), z3.Exists([j], z3.And(0 <= j, j < entry_bundle.n, entry_bundle.comps[0][j] == a,
                                                                              entry_bundle.comps[1][j] == b, entry_bundle.comps[2][j] == c)))))


def step_from(new_point, unwrapped_point, last_point, step_length, box):
    """new_point = wrap(unwrapped), unwrapped = last_point + v * step_length for one of the vectors handed in"""
    a, b, c = z3.Reals("va_ vb_ vc_")
    v = (a, b, c)
    return z3.And(
        z3.Exists([a, b, c], z3.And(MEMBER(a, b, c), *[ops.real(unwrapped_point.data[i]) == ops.real(last_point.data[i]) + v[i] * ops.real(step_length) for i in range(3)])),
        _L.vec_eq(new_point, _L.wrapped(unwrapped_point, box)))


def bundle_inv(vector_bundle, entry_bundle, step_count):
    """the bundle shrinks by one per failed try and only holds vectors that were handed in"""
    i = z3.Int("i_")
    return z3.And(vector_bundle.n == entry_bundle.n - step_count,
                  z3.ForAll([i], z3.Implies(z3.And(0 <= i, i < vector_bundle.n), MEMBER(*[comp[i] for comp in vector_bundle.comps]))))


UPDATE_BODY = REG5.add(Contract(
    "polyply.src.random_walk:RandomWalk.update_positions",
    params=dict(self=WALK, vector_bundle=TList(V3), current_node=TNode, prev_node=TNode),
    result=TBool,
    requires={"grown from a positioned neighbour": "has(self.nonbond_matrix.posd, self.mol_idx, prev_node)",
              "more directions than tries": "len(vector_bundle) > self.maxiter and self.maxiter >= 0",
              "positive box": "all([d > 0 for d in self.maxdim])",
              "definition of the ghost predicate 'one of the vectors handed in'": "member_def(vector_bundle)",
              "the residue is a node of the molecule": "current_node in self.molecule.nodes"},
    ensures={
        "an accepted point met every guard, is one step from its parent, inside the box, and is the only change":
            "implies(result, accepted_point_ok(self, old(self), new_point, unwrapped_point, last_point, step_length, current_node, prev_node))",
        "the step is one of the directions handed in": "implies(result, step_from(new_point, unwrapped_point, last_point, step_length, old(self.maxdim)))",
        "a failed placement leaves the engine untouched": "implies(Not(result), same_posd(self.nonbond_matrix.posd, old(self.nonbond_matrix.posd)))",
        "frame": "walker_frame(self, old(self), ['success', 'placed_nodes'])",
    },
    loops={0: Loop({"engine untouched while trying": "same_posd(self.nonbond_matrix.posd, entry['self'].nonbond_matrix.posd)",
                    "frame": "walker_frame(self, entry['self'], ['success', 'placed_nodes']) and current_node == entry['current_node'] and prev_node == entry['prev_node']"
                             " and all([a == b for a, b in zip(last_point, entry['last_point'])]) and step_length == entry['step_length']",
                    "tries": "0 <= step_count and step_count <= self.maxiter",
                    "bundle": "bundle_inv(vector_bundle, entry['vector_bundle'], step_count)"})},
    spec_fns={"has": has, "accepted_point_ok": accepted_point_ok, "same_posd": same_posd, "walker_frame": walker_frame, "step_from": step_from,
              "bundle_inv": bundle_inv, "member_def": member_def},
    props=("C05", "C07", "C17"),
    modifies=["self.nonbond_matrix.posd", "self.prev_prob"],
    exposes=dict(new_point=V3, unwrapped_point=V3, last_point=V3, step_length=TReal),
))

# the caller (_random_walk) is verified against the SAME contract that the body of update_positions is proved to meet
REG[UPDATE_BODY.target] = UPDATE_BODY
REG[ENG_GET_POINT.target] = ENG_GET_POINT


# ======================================================================================================
# C17 / C04: BuildSystem._handle_random_walk -- an abandoned attempt is rolled back completely
# ======================================================================================================
from pyvc.types import TConst as _TConst

BUILDSYS = TRec("polyply.src.build_system:BuildSystem", nonbond_matrix=ENGINE, box_grid=TList(V3), box=V3,
                start_dict=TDict(TInt, TOpt(TNode)), rwargs=_TConst({}), maxiter=TInt)
REGH = Registry()
for _k in (ENG_REMOVE.target,):
    REGH[_k] = ENG_REMOVE
REGH[RANDOM_WALK.target] = RANDOM_WALK


def walk_of(bs, mol_idx, molecule, vector_sphere):
    """the RandomWalk object _handle_random_walk constructs (only the fields the specifications below read)"""
    from pyvc.types import Rec, Opt, key_term as _kt
    sd = bs.fields["start_dict"]
    kt = _kt(sd.k, mol_idx)
    sn = sd.v.unflat([c[kt] for c in sd.comps])
    return Rec(WALK.cls, {"mol_idx": mol_idx, "nonbond_matrix": bs.fields["nonbond_matrix"], "start_node": sn, "molecule": molecule,
                          "vector_sphere": vector_sphere, "maxdim": bs.fields["box"]})


def attempt_pre(bs, mol_idx, molecule, vector_sphere):
    w = walk_of(bs, mol_idx, molecule, vector_sphere)
    return z3.And(tree_facts(w, molecule), engine_matches_flags(w, molecule))


def rolled_back(bs, old_bs, mol_idx, molecule):
    """no residue the attempt had to build is positioned; supplied residues and all other molecules are exactly as before"""
    new, old = bs.fields["nonbond_matrix"].fields["posd"], old_bs.fields["nonbond_matrix"].fields["posd"]
    return z3.ForAll([m_, x_], z3.And(has(new, m_, x_) == has(old, m_, x_), z3.Implies(has(old, m_, x_), val_eq(new, old, m_, x_))))


def built_and_others_untouched(bs, old_bs, mol_idx, molecule, vector_sphere):
    w_new = walk_of(bs, mol_idx, molecule, vector_sphere)
    w_old = walk_of(old_bs, mol_idx, molecule, vector_sphere)
    return z3.And(all_built(w_new, molecule), others_untouched(w_new, w_old, molecule))


def start_on_grid(bs, old_bs, mol_idx, molecule, vector_sphere):
    """C05: the first residue of a molecule without coordinates sits on a point of the start grid"""
    w_old = walk_of(old_bs, mol_idx, molecule, vector_sphere)
    posd, old = bs.fields["nonbond_matrix"].fields["posd"], old_bs.fields["nonbond_matrix"].fields["posd"]
    root = start_of(w_old, molecule)
    kt = key_term(posd.k, (mol_idx, root))
    grid = old_bs.fields["box_grid"]
    i = z3.Int("i_")
    return z3.Implies(z3.Not(has(old, mol_idx, root)),
                      z3.Exists([i], z3.And(0 <= i, i < grid.n, *[posd.comps[c][kt] == grid.comps[c][i] for c in range(3)])))


def bs_frame(bs, old_bs):
    return z3.And(TList(V3).eq(bs.fields["box_grid"], old_bs.fields["box_grid"]), V3.eq(bs.fields["box"], old_bs.fields["box"]),
                  bs.fields["maxiter"] == old_bs.fields["maxiter"], BUILDSYS.fields["start_dict"].eq(bs.fields["start_dict"], old_bs.fields["start_dict"]),
                  V3.eq(bs.fields["nonbond_matrix"].fields["boxsize"], old_bs.fields["nonbond_matrix"].fields["boxsize"]))


def hook_engine_is_shared(eng, env):
    """A-ALIAS made explicit: RandomWalk stores a REFERENCE to the engine it is given, so what the walk did to
    processor.nonbond_matrix is what happened to self.nonbond_matrix"""
    env["self"] = env["self"].with_field("nonbond_matrix", env["processor"].fields["nonbond_matrix"])


HANDLE_WALK = REGH.add(Contract(
    "polyply.src.build_system:BuildSystem._handle_random_walk",
    params=dict(self=BUILDSYS, molecule=METAMOL, mol_idx=TInt, vector_sphere=TList(V3)),
    result=TTuple(TBool, ENGINE),
    requires={
        "a start grid": "len(self.box_grid) >= 1",
        "the molecule has a start entry": "mol_idx in self.start_dict",
        "search tree facts + exactly the supplied residues of this molecule are positioned (from_topology)": "attempt_pre(self, mol_idx, molecule, vector_sphere)",
        "more directions than tries per step": "len(vector_sphere) > 80",
        "positive box": "all([d > 0 for d in self.box])",
        "ghost: definition of 'one of the vectors handed in'": "member_def(vector_sphere)",
        "retry budget": "self.maxiter >= 0",
    },
    ensures={
        "an abandoned molecule leaves no residue of the discarded attempts behind: the engine is exactly as before (supplied residues and every other molecule included)":
            "implies(Not(result[0]), rolled_back(self, old(self), mol_idx, molecule))",
        "a built molecule has every residue positioned; supplied residues and other molecules are untouched":
            "implies(result[0], built_and_others_untouched(self, old(self), mol_idx, molecule, vector_sphere))",
        "the engine handed back is the system's engine": "ENGINE_eq(result[1], self.nonbond_matrix)",
        "a built molecule whose start residue had no coordinates has it on a point of the start grid":
            "implies(result[0], start_on_grid(self, old(self), mol_idx, molecule, vector_sphere))",
    },
    loops={0: Loop({"every failed attempt so far has been rolled back": "rolled_back(self, old(self), mol_idx, molecule)",
                    "frame": "bs_frame(self, old(self)) and mol_idx == entry['mol_idx'] and METAMOL_eq(molecule, entry['molecule'])"
                             " and same_rows(vector_sphere, entry['vector_sphere']) and same_rows(built_nodes, entry['built_nodes'])",
                    "tries": "0 <= step_count and step_count <= self.maxiter"})},
    ghost={"after:processor.run_molecule(molecule)": hook_engine_is_shared,
           "after:processor.nonbond_matrix.remove_positions(mol_idx, built_nodes)": hook_engine_is_shared},
    inline_callees=["polyply.src.random_walk:RandomWalk.__init__", "polyply.src.random_walk:RandomWalk.run_molecule"],
    spec_fns={"start_on_grid": start_on_grid, "attempt_pre": attempt_pre, "rolled_back": rolled_back, "built_and_others_untouched": built_and_others_untouched,
              "bs_frame": bs_frame, "member_def": lambda b: member_def(b), "METAMOL_eq": lambda a, b: METAMOL.eq(a, b),
              "ENGINE_eq": lambda a, b: ENGINE.eq(a, b),
              "same_rows": lambda a, b: z3.And(a.n == b.n, *[x == y for x, y in zip(a.comps, b.comps)])},
    modifies=["self.nonbond_matrix.posd"],
    props=("C17", "C04"),
    note="instance rwargs = {} (RandomWalk defaults: maxiter 80, nrewind 5, step_fudge 0.8); the clause proved does not depend on them",
))

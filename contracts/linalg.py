"""Contracts for polyply/src/linalg_functions.py (C05 box wrapping, C06 rotation)."""
import z3
from pyvc.types import (TInt, TReal, TBool, TStr, TTuple, TVec, TList, TRec, TOpt, TMat, NArr, SMat)
from pyvc.contract import Contract, Registry, Loop
from pyvc import ops

REG = Registry()
V3 = TVec(3)


def frac(u):
    return ops.FRAC(z3.simplify(ops.real(u)))


def wrapped(p, box):
    """componentwise p mod box for box > 0, in the uninterpreted-frac encoding of pyvc"""
    return [ops.real(b) * frac(ops.real(x) / ops.real(b)) for x, b in zip(p.data, box.data)]


def vec_eq(a, b):
    bs = b.data if isinstance(b, NArr) else b
    return z3.And(*[ops.real(x) == ops.real(y) for x, y in zip(a.data, bs)])


PBC_COMPLETE = REG.add(Contract(
    "polyply.src.linalg_functions:pbc_complete",
    params=dict(point=V3, maxdim=V3),
    result=V3,
    requires={"positive box": "all([d > 0 for d in maxdim])"},
    ensures={"inside the box": "all([0 <= r and r < d for r, d in zip(result, maxdim)])",
             "wrapped image of the point": "vec_eq(result, wrapped(point, maxdim))"},
    spec_fns={"vec_eq": vec_eq, "wrapped": wrapped},
    props=("C05",),
))

NOT_EXCEEDS = REG.add(Contract(
    "polyply.src.linalg_functions:not_exceeds_max_dimensions",
    params=dict(point=V3, maxdim=V3),
    result=TBool,
    ensures={"true exactly inside the closed box": "iff(result, all([0 <= p and p <= d for p, d in zip(point, maxdim)]))"},
    props=("C05", "C16"),
))


def lemma_wrap_is_periodic_image(ctx):
    """pbc_complete's result differs from the point by an integer multiple of the box length, per component
    (uses the defining axiom of frac: u - frac(u) is an integer)"""
    x, L = z3.Reals("x L")
    u = x / L
    f = ops.FRAC(u)
    k = z3.Int("k")
    hyps = [L > 0, f >= 0, f < 1, z3.IsInt(u - f)]
    goal = z3.Exists([k], x - L * f == z3.ToReal(k) * L)
    return [("wrap = point - k*box", hyps, goal)]


# ---- matrix product and rotation ---------------------------------------------------------------

def mat_entry(m, r, c):
    if isinstance(m, SMat):
        return m.comps[r][c]
    return ops.real(m.data[r * m.shape[1] + c])


def prod_entry(mats, r, c):
    """entry (r, c) of the product of the 3x3 ... 3xN matrices"""
    if len(mats) == 1:
        return mat_entry(mats[0], r, c)
    head, rest = mats[0], mats[1:]
    return z3.Sum(*[mat_entry(head, r, k) * prod_entry(rest, k, c) for k in range(3)])


def is_product(result, mats):
    c = z3.Int("c")
    n = mats[-1].ncols
    return z3.And(result.ncols == n, z3.ForAll([c], z3.Implies(z3.And(0 <= c, c < n), z3.And(*[mat_entry(result, r, c) == prod_entry(list(mats), r, c) for r in range(3)]))))


def partial_product(new, a, b, i, j, columns):
    """loop invariant of the j-loop: rows < i complete, row i complete for columns < j, the rest still zero"""
    c = z3.Int("c")
    rows = []
    for r in range(3):
        full = z3.Sum(*[mat_entry(a, r, k) * mat_entry(b, k, c) for k in range(3)])
        if r < i:
            rows.append(mat_entry(new, r, c) == full)
        elif r == i:
            rows.append(mat_entry(new, r, c) == z3.If(c < j, full, 0))
        else:
            rows.append(mat_entry(new, r, c) == 0)
    return z3.And(new.ncols == columns, z3.ForAll([c], z3.Implies(z3.And(0 <= c, c < columns), z3.And(*rows))))


M33 = TVec(3, 3)
MATMUL = REG.add(Contract(
    "polyply.src.linalg_functions:_matrix_multiplication",
    params=dict(args=TTuple(M33, M33, M33, TMat(3))),
    result=TMat(3),
    ensures={"result is the matrix product A*B*C*X, column by column, for any number of columns": "is_product(result, args)"},
    loops={2: Loop({"partial": "partial_product(new_matrix, matrix_a, matrix_b, i, jj, columns)"}, index="jj")},
    spec_fns={"is_product": is_product, "partial_product": partial_product},
    props=("C06",),
    note="shapes of the only call site (_rotate_xyz): three 3x3 matrices and a 3xN object",
))


def rot_matrices(tx, ty, tz):
    sx, cx, sy, cy, sz, cz = ops.SIN(tx), ops.COS(tx), ops.SIN(ty), ops.COS(ty), ops.SIN(tz), ops.COS(tz)
    Rz = [[cz, -sz, 0], [sz, cz, 0], [0, 0, 1]]
    Ry = [[cy, 0, sy], [0, 1, 0], [-sy, 0, cy]]
    Rx = [[1, 0, 0], [0, cx, -sx], [0, sx, cx]]
    return Rz, Ry, Rx


def mm(A, B):
    return [[sum(A[i][k] * B[k][j] for k in range(3)) for j in range(3)] for i in range(3)]


def rotation(tx, ty, tz):
    Rz, Ry, Rx = rot_matrices(ops.real(tx), ops.real(ty), ops.real(tz))
    return mm(Rz, mm(Ry, Rx))


def is_rotated(result, obj, tx, ty, tz):
    Rm = rotation(tx, ty, tz)
    c = z3.Int("c")
    return z3.And(result.ncols == obj.ncols, z3.ForAll([c], z3.Implies(z3.And(0 <= c, c < obj.ncols), z3.And(*[
        result.comps[r][c] == z3.Sum(*[Rm[r][k] * obj.comps[k][c] for k in range(3)]) for r in range(3)]))))


ROTATE = REG.add(Contract(
    "polyply.src.linalg_functions:_rotate_xyz",
    params=dict(object_xyz=TMat(3), theta_x=TReal, theta_y=TReal, theta_z=TReal),
    result=TMat(3),
    ensures={"every column is turned by Rz*Ry*Rx": "is_rotated(result, object_xyz, theta_x, theta_y, theta_z)"},
    spec_fns={"is_rotated": is_rotated},
    props=("C06",),
))


def lemma_proper_rotation(ctx):
    """R = Rz*Ry*Rx is orthogonal with determinant +1 for all angles (only sin^2+cos^2=1 is used), hence it
    preserves distances and the signed volume (handedness) of any template; scaling by the backmapping factor
    multiplies distances by the factor and signed volumes by factor^3"""
    # sin/cos of each angle as plain reals constrained by s^2 + c^2 = 1 (the only fact about them that is used)
    sx, cx, sy, cy, sz, cz = z3.Reals("sx cx sy cy sz cz")
    Rz = [[cz, -sz, 0], [sz, cz, 0], [0, 0, 1]]
    Ry = [[cy, 0, sy], [0, 1, 0], [-sy, 0, cy]]
    Rx = [[1, 0, 0], [0, cx, -sx], [0, sx, cx]]
    Rm = mm(Rz, mm(Ry, Rx))
    hyps = [sx * sx + cx * cx == 1, sy * sy + cy * cy == 1, sz * sz + cz * cz == 1]
    out = []
    for i in range(3):
        for j in range(i, 3):
            out.append((f"RtR[{i}][{j}]", hyps, sum(Rm[k][i] * Rm[k][j] for k in range(3)) == (1 if i == j else 0)))
    det = (Rm[0][0] * (Rm[1][1] * Rm[2][2] - Rm[1][2] * Rm[2][1]) - Rm[0][1] * (Rm[1][0] * Rm[2][2] - Rm[1][2] * Rm[2][0])
           + Rm[0][2] * (Rm[1][0] * Rm[2][1] - Rm[1][1] * Rm[2][0]))
    out.append(("det R = 1", hyps, det == 1))
    # rigidity from orthogonality, in two steps so that each is easy for the solver:
    #  (a) polynomial identity  |Q u|^2 = sum_kl u_k u_l G_kl  with  G_kl := sum_i Q_ik Q_il   (no hypotheses)
    #  (b) G = I  =>  sum_kl u_k u_l G_kl = |u|^2
    Q = [[z3.Real(f"q{i}{j}") for j in range(3)] for i in range(3)]
    u = [z3.Real(f"u{i}") for i in range(3)]
    Qu = [sum(Q[i][k] * u[k] for k in range(3)) for i in range(3)]
    Gdef = [[sum(Q[i][k] * Q[i][l] for i in range(3)) for l in range(3)] for k in range(3)]
    out.append(("|Qu|^2 = u^T (Q^T Q) u", [], sum(x * x for x in Qu) == sum(u[k] * u[l] * Gdef[k][l] for k in range(3) for l in range(3))))
    G = [[z3.Real(f"g{k}{l}") for l in range(3)] for k in range(3)]
    hyp = [G[k][l] == (1 if k == l else 0) for k in range(3) for l in range(3)]
    out.append(("Q^T Q = I => u^T (Q^T Q) u = |u|^2", hyp, sum(u[k] * u[l] * G[k][l] for k in range(3) for l in range(3)) == sum(x * x for x in u)))
    return out


def lemma_step_length_preserved(ctx):
    """C05: a wrapped step keeps its length under the minimum image convention.
    Per component, with d = v_i*step, |d| <= L/2, new = last + d - k*L (k integer: lemma wrap = point - k*box),
    the minimum-image component of (new, last) equals |d|.  Summing squares gives step^2 |v|^2 = step^2 for unit v
    (second lemma, pure real arithmetic)."""
    from pyvc.ops import Facts
    facts = Facts()
    d, L = z3.Reals("d L")
    k = z3.Int("k")
    t0 = z3.Real("t0")        # d / L
    hyps = [L > 0, d <= L / 2, -d <= L / 2, t0 * L == d]

    def m(u):
        f1, f2 = ops.frac_term(u, facts), ops.frac_term(-u, facts)
        return z3.If(f2 < f1, f2, f1)
    m(t0)         # creates frac(t0), frac(-t0) so that the integer-shift schema links them to the shifted terms
    goal = L * m(t0 - z3.ToReal(k)) == z3.If(d >= 0, d, -d)
    out = [("min-image component of a wrapped step equals |d|", hyps, goal)]
    return out, facts


def lemma_unit_step_norm(ctx):
    v = z3.Reals("v0 v1 v2")
    s = z3.Real("s")
    hyps = [sum(x * x for x in v) == 1, s >= 0]
    comps = [z3.If(x * s >= 0, x * s, -(x * s)) for x in v]
    return [("sum of squared components = step^2 for a unit vector", hyps, sum(c * c for c in comps) == s * s)]

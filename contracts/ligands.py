"""C18: `-start` / `-lig` specifications select residues by residue name and residue id as written --
polyply/src/annotate_ligands.py:_find_nodes (generator, modelled as the list of its yields).

mol_attr is the dictionary made by parse_residue_spec: the keys 'resname' and 'resid' are present only when the specification
names them (resid is a float there; node resids are ints: `==` compares numerically)."""
import z3
from pyvc.types import (TInt, TReal, TNode, TObj, TList, TDict, TRec, TOpt, TGraph, SDict, slist_get)
from pyvc.contract import Contract, Registry, Loop
from pyvc import ops

REG = Registry()
NS = TNode.sort
RATTR = TRec("nodeattrs", resname=TNode, resid=TInt)
MOL = TGraph(RATTR)
SPEC = TRec("resspec", resname=TOpt(TNode), resid=TOpt(TReal), mol_idx=TOpt(TInt), molname=TOpt(TNode))
x_ = z3.Const("x_", NS)
i_, j_ = z3.Int("i_"), z3.Int("j_")


def nattrs(g, x):
    nd = g.fields["nodes"]
    return nd.v.unflat([c[x] for c in nd.comps])


def is_node(g, x):
    return z3.Select(g.fields["nodes"].dom, x)


def named(molecule, spec, x):
    """statement of C18: the residue carries the residue name and the residue id the specification names (an omitted field selects all)"""
    a = nattrs(molecule, x)
    rn, ri = spec.fields["resname"], spec.fields["resid"]
    return z3.And(z3.Or(rn.none, a.fields["resname"] == rn.val), z3.Or(ri.none, ops.real(a.fields["resid"]) == ri.val))


def sound(molecule, spec, Y, upto=None, pos=None):
    e = slist_get(Y, i_)
    seen = z3.BoolVal(True) if pos is None else pos(e) < upto
    return z3.ForAll([i_], z3.Implies(z3.And(0 <= i_, i_ < Y.n), z3.And(is_node(molecule, e), named(molecule, spec, e), seen)))


def distinct(Y):
    return z3.ForAll([i_, j_], z3.Implies(z3.And(0 <= i_, i_ < j_, j_ < Y.n), slist_get(Y, i_) != slist_get(Y, j_)))


def complete_wit(molecule, spec, Y, w, upto, pos):
    wi = w.comps[0][x_]
    return z3.ForAll([x_], z3.Implies(z3.And(is_node(molecule, x_), pos(x_) < upto, named(molecule, spec, x_)),
                                      z3.And(0 <= wi, wi < Y.n, slist_get(Y, wi) == x_)))


def complete(molecule, spec, Y):
    return z3.ForAll([x_], z3.Implies(z3.And(is_node(molecule, x_), named(molecule, spec, x_)),
                                      z3.Exists([i_], z3.And(0 <= i_, i_ < Y.n, slist_get(Y, i_) == x_))))


def hook_found(eng, env):
    w, Y, x = env["_fw"], env["__yield__"], env["node"]
    env["_fw"] = SDict(w.k, w.v, w.dom, [z3.Store(w.comps[0], x, Y.n - 1)])


FIND_NODES = REG.add(Contract(
    "polyply.src.annotate_ligands:_find_nodes", params=dict(molecule=MOL, mol_attr=SPEC), result=TList(TNode),
    ensures={"every yielded residue belongs to the molecule and has the residue name and id the specification names": "sound(molecule, mol_attr, result)",
             "every such residue is yielded": "complete(molecule, mol_attr, result)",
             "no residue is yielded twice": "distinct(result)"},
    locals={"__yield__": TList(TNode)}, ghost_locals={"_fw": TDict(TNode, TInt)},
    ghost={"after:yield node": hook_found},
    loops={1: Loop({"sound": "sound(molecule, mol_attr, __yield__, k, _pos1)",
                    "complete (ghost index)": "complete_wit(molecule, mol_attr, __yield__, _fw, k, _pos1)",
                    "distinct": "distinct(__yield__)"}, modifies=["_fw", "__yield__"])},
    spec_fns=dict(sound=sound, complete=complete, complete_wit=complete_wit, distinct=distinct),
    props=("C18",), note="generator as the list of its yields; the fields mol_idx / molname of the specification are not read here"))

CONTRACTS = [FIND_NODES]


# ---- AnnotateLigands._connect_ligands_to_molecule: ligands are attached one step from the residue the specification names ----------
from pyvc.types import TBool, TTuple, TDefaultDict, key_term      # noqa: E402
HATTR = TRec("nodeattrs", resname=TNode, resid=TInt, build=TBool, backmap=TBool, ligated=TOpt(TTuple(TInt, TNode)))
HOST = TGraph(HATTR, key=TInt, cls="polyply.src.meta_molecule:MetaMolecule", max_resid=TInt)
DEF = TTuple(TInt, TInt, SPEC, SPEC)         # (residue of the host, index of the ligand molecule, host specification, ligand specification)
TOPO = TRec("polyply.src.topology:Topology", molecules=TList(MOL))
ANN = TRec("polyply.src.annotate_ligands:AnnotateLigands", topology=TOPO, ligand_defs=TDefaultDict(TInt, TList(DEF)))
c_, d_ = z3.Int("c_"), z3.Int("d_")
y_ = z3.Int("y_")


def hattrs(g, i):
    nd = g.fields["nodes"]
    return nd.v.unflat([c[i] for c in nd.comps])


def hadj(g, a, b):
    s = g.fields["adj"]
    return z3.Select(s.dom, key_term(s.k, (a, b)))


def defs_of(self_, mol_idx):
    ld = self_.fields["ligand_defs"]
    return ld.v.unflat([c[mol_idx] for c in ld.comps])


def lig_of(self_, mol_idx, d):
    """the ligand molecule and the specification of the d-th definition"""
    df = slist_get(defs_of(self_, mol_idx), d)
    return slist_get(self_.fields["topology"].fields["molecules"], df[1]), df


def defs_ok(self_, molecule, mol_idx):
    """every definition names a residue of the host and a ligand molecule of the topology other than the host"""
    D = defs_of(self_, mol_idx)
    df = slist_get(D, d_)
    n = self_.fields["topology"].fields["molecules"].n
    return z3.ForAll([d_], z3.Implies(z3.And(0 <= d_, d_ < D.n), z3.And(z3.Select(molecule.fields["nodes"].dom, df[0]), 0 <= df[1], df[1] < n, df[1] != mol_idx)))


def host_kept(g, g0, cur0):
    """the residues the host had keep their attributes and bonds among each other; nothing else lies below cur0"""
    nd, n0 = g.fields["nodes"], g0.fields["nodes"]
    return z3.And(z3.ForAll([c_], z3.Implies(c_ < cur0, z3.And(z3.Select(nd.dom, c_) == z3.Select(n0.dom, c_),
                                                                 z3.Implies(z3.Select(n0.dom, c_), HATTR.eq(hattrs(g, c_), hattrs(g0, c_)))))),
                  z3.ForAll([c_, y_], z3.Implies(z3.And(c_ < cur0, y_ < cur0), hadj(g, c_, y_) == hadj(g0, c_, y_))))


def bonds_join_nodes(g):
    """representation invariant of networkx graphs: a bond joins two nodes of the graph"""
    nd = g.fields["nodes"]
    return z3.ForAll([c_, y_], z3.Implies(hadj(g, c_, y_), z3.And(z3.Select(nd.dom, c_), z3.Select(nd.dom, y_))))


def nothing_beyond(g, cur):
    """no node and no bond at or beyond `cur` yet"""
    return z3.ForAll([c_, y_], z3.Implies(c_ >= cur, z3.And(z3.Not(hadj(g, c_, y_)), z3.Not(hadj(g, y_, c_)))))


def attached(g, g0, self_, mol_idx, cur0, cur, own, lign):
    """the nodes cur0..cur-1 are the attached ligand residues: each stands for one residue of a ligand molecule that its definition
    selects, carries that residue's name, is marked to be built, remembers where it came from and is bonded to exactly the residue of
    the host that the definition names (one step from it)"""
    nd = g.fields["nodes"]
    D = defs_of(self_, mol_idx)
    o = own.comps[0][c_]
    x = lign.comps[0][c_]
    df = slist_get(D, o)
    lig = slist_get(self_.fields["topology"].fields["molecules"], df[1])
    at = hattrs(g, c_)
    return z3.And(
        z3.ForAll([c_], z3.Implies(c_ >= cur0, z3.Select(nd.dom, c_) == (c_ < cur))),
        g.fields["max_resid"] == g0.fields["max_resid"] + (cur - cur0),
        z3.ForAll([c_], z3.Implies(z3.And(cur0 <= c_, c_ < cur), z3.And(
            0 <= o, o < D.n, is_node(lig, x), named(lig, df[3], x),
            at.fields["resname"] == nattrs(lig, x).fields["resname"], at.fields["build"], at.fields["backmap"],
            at.fields["resid"] == g0.fields["max_resid"] + (c_ - cur0) + 1,
            z3.Not(at.fields["ligated"].none), at.fields["ligated"].val[0] == df[1], at.fields["ligated"].val[1] == x,
            z3.ForAll([y_], z3.And(hadj(g, c_, y_) == (y_ == df[0]), hadj(g, y_, c_) == (y_ == df[0])))))))


def all_attached(self_, mol_idx, cur0, cur, own, lign, wit, upto, partial=None):
    """every residue of a ligand molecule that one of the first `upto` definitions selects is attached, once (ghost witness)"""
    D = defs_of(self_, mol_idx)
    df = slist_get(D, d_)
    lig = slist_get(self_.fields["topology"].fields["molecules"], df[1])
    w = wit.comps[0][key_term(wit.k, (d_, x_))]
    return z3.ForAll([d_, x_], z3.Implies(z3.And(0 <= d_, d_ < upto, is_node(lig, x_), named(lig, df[3], x_)),
                                          z3.And(cur0 <= w, w < cur, own.comps[0][w] == d_, lign.comps[0][w] == x_)))


def this_def_partial(self_, mol_idx, cur0, cur, own, lign, wit, k, Y, j):
    """the ligand residues of the current definition visited so far are attached"""
    w = wit.comps[0][key_term(wit.k, (k, slist_get(Y, i_)))]
    return z3.ForAll([i_], z3.Implies(z3.And(0 <= i_, i_ < j), z3.And(cur0 <= w, w < cur, own.comps[0][w] == k, lign.comps[0][w] == slist_get(Y, i_))))


def hook_attach(eng, env):
    from pyvc.types import SDict
    cur, k, x = env["current"], env["k"], env["lig_node"]
    o, l, w = env["_own"], env["_lign"], env["_wit"]
    env["_own"] = SDict(o.k, o.v, o.dom, [z3.Store(o.comps[0], cur, k)])
    env["_lign"] = SDict(l.k, l.v, l.dom, [z3.Store(l.comps[0], cur, x)])
    env["_wit"] = SDict(w.k, w.v, w.dom, [z3.Store(w.comps[0], key_term(w.k, (k, x)), cur)])


CONNECT = REG.add(Contract(
    "polyply.src.annotate_ligands:AnnotateLigands._connect_ligands_to_molecule", params=dict(self=ANN, molecule=HOST, mol_idx=TInt),
    requires={"the host has residues": "has_nodes(molecule)",
              "bonds join nodes of the graph (representation invariant of networkx graphs)": "bonds_join_nodes(molecule)",
              "every definition for this host names one of its residues and a ligand molecule of the topology other than the host itself":
              "defs_ok(self, molecule, mol_idx)"},
    modifies=["molecule"],
    ensures={"the host's own residues, their attributes and the bonds among them are unchanged": "host_kept(molecule, old(molecule), cur0)",
             "every added residue is a ligand residue selected by its definition, named after it, to be built, tagged with its origin, and bonded to "
             "exactly the host residue the definition names": "attached(molecule, old(molecule), self, mol_idx, cur0, current, _own, _lign)",
             "every selected ligand residue of every definition is attached": "all_attached(self, mol_idx, cur0, current, _own, _lign, _wit, len(self.ligand_defs[mol_idx]))"},
    exposes={"cur0": TInt, "current": TInt, "_own": TDict(TInt, TInt), "_lign": TDict(TInt, TNode), "_wit": TDict(TTuple(TInt, TNode), TInt)},
    ghost_locals={"_own": TDict(TInt, TInt), "_lign": TDict(TInt, TNode), "_wit": TDict(TTuple(TInt, TNode), TInt), "cur0": TInt},
    ghost={"after:current = max(molecule.nodes) + 1": lambda eng, env: env.__setitem__("cur0", env["current"]),
           'after:molecule.nodes[current]["ligated"] = (lig_idx, lig_node)': hook_attach},
    loops={0: Loop({"host": "host_kept(molecule, old(molecule), cur0) and cur0 <= current and nothing_beyond(molecule, current)",
                    "attached so far": "attached(molecule, old(molecule), self, mol_idx, cur0, current, _own, _lign)",
                    "complete so far": "all_attached(self, mol_idx, cur0, current, _own, _lign, _wit, k)"},
                   modifies=["_own", "_lign", "_wit"]),
           1: Loop({"host": "host_kept(molecule, old(molecule), cur0) and cur0 <= current and nothing_beyond(molecule, current)",
                    "attached so far": "attached(molecule, old(molecule), self, mol_idx, cur0, current, _own, _lign)",
                    "complete so far": "all_attached(self, mol_idx, cur0, current, _own, _lign, _wit, k)",
                    "this definition": "0 <= k and k < len(self.ligand_defs[mol_idx]) and this_def_partial(self, mol_idx, cur0, current, _own, _lign, _wit, k, _seq1, j)"},
                   modifies=["_own", "_lign", "_wit"], index="j")},
    spec_fns=dict(defs_ok=defs_ok, bonds_join_nodes=bonds_join_nodes, nothing_beyond=nothing_beyond, host_kept=host_kept, attached=attached, all_attached=all_attached, this_def_partial=this_def_partial,
                  has_nodes=lambda g: z3.Exists([c_], z3.Select(g.fields["nodes"].dom, c_))),
    inline_callees=("polyply.src.meta_molecule:MetaMolecule.add_monomer", "polyply.src.meta_molecule:MetaMolecule.add_node"),
    props=("C18",),
    note="_find_nodes is used through its proved contract; add_monomer / add_node executed at the call site; the ligand molecules are other "
         "elements of topology.molecules than the host (precondition)"))


# ---- conformance test hooks for CONNECT (vlib/selftest.py) ---------------------------------------------------------------------------
def _spec_data(rnd, names, resids):
    return {"resname": rnd.choice([None] + names), "resid": rnd.choice([None, None] + [float(r) for r in resids]), "mol_idx": None, "molname": None}


def _witness_connect(rnd):
    names = [11, 12, 13]
    nmol = rnd.randint(2, 4)
    mol_idx = rnd.randrange(nmol)
    ligs = []
    for m in range(nmol):
        n = rnd.randint(1, 3)
        keys = rnd.sample(range(6), n)
        ligs.append({"nodes": {k: {"resname": rnd.choice(names), "resid": rnd.randint(1, 3)} for k in keys}, "adj": set()})
    hn = rnd.randint(1, 4)
    host_nodes = {i: {"resname": rnd.choice(names), "resid": i + 1, "build": True, "backmap": True, "ligated": None} for i in range(hn)}
    hadj_ = set()
    for i in range(hn - 1):
        hadj_ |= {(i, i + 1), (i + 1, i)}
    host = {"nodes": host_nodes, "adj": hadj_, "max_resid": hn}
    defs = []
    for _ in range(rnd.randint(0, 3)):
        lig_idx = rnd.choice([m for m in range(nmol) if m != mol_idx])
        defs.append((rnd.randrange(hn), lig_idx, _spec_data(rnd, names, [1, 2, 3]), _spec_data(rnd, names, [1, 2, 3])))
    self_ = {"topology": {"molecules": ligs}, "ligand_defs": {mol_idx: defs}}
    return {"self": self_, "molecule": host, "mol_idx": mol_idx}, {"__window__": 14, "__names__": names}


def _adapt_connect(a):
    import networkx as nx
    from collections import defaultdict
    from types import SimpleNamespace
    from polyply.src.meta_molecule import MetaMolecule
    from polyply.src.annotate_ligands import AnnotateLigands

    def mm(d, extra=()):
        g = nx.Graph()
        for k, at in d["nodes"].items():
            g.add_node(k, **{f: v for f, v in at.items() if v is not None})
        g.add_edges_from((x, y) for x, y in d["adj"] if x < y)
        return MetaMolecule(g)

    def spec(s_):
        out = {k: v for k, v in s_.items() if v is not None}
        return out
    ann = AnnotateLigands.__new__(AnnotateLigands)
    ann.topology = SimpleNamespace(molecules=[mm(d) for d in a["self"]["topology"]["molecules"]])
    ann.ligand_defs = defaultdict(list)
    for k, lst in a["self"]["ligand_defs"].items():
        ann.ligand_defs[k] = [(n, li, spec(ma), spec(la)) for n, li, ma, la in lst]
    return {"self": ann, "molecule": mm(a["molecule"]), "mol_idx": a["mol_idx"]}


def _unadapt_connect(ra, res):
    host, ann, mol_idx = ra["molecule"], ra["self"], ra["mol_idx"]
    nodes = {k: {f: d.get(f) for f in ("resname", "resid", "build", "backmap", "ligated")} for k, d in host.nodes(data=True)}
    adj = {(a, b) for a, b in host.edges} | {(b, a) for a, b in host.edges}
    old_keys = [k for k, d in host.nodes(data=True) if "ligated" not in d]
    cur0 = max(old_keys) + 1
    current = max(host.nodes) + 1
    own, lign, wit = {}, {}, {}
    c = cur0
    for d, (mol_node, lig_idx, ma, la) in enumerate(ann.ligand_defs[mol_idx]):      # ghost reconstruction: definitions in order, ligand residues in node order
        lig = ann.topology.molecules[lig_idx]
        for x in lig.nodes:
            if all(lig.nodes[x][key] == la[key] for key in ("resname", "resid") if key in la):
                own[c], lign[c], wit[(d, x)] = d, x, c
                c += 1
    return {"molecule": {"nodes": nodes, "adj": adj, "max_resid": host.max_resid},
            "exposes": {"cur0": cur0, "current": current, "_own": own, "_lign": lign, "_wit": wit}}


CONNECT.witness, CONNECT.adapt, CONNECT.unadapt = _witness_connect, _adapt_connect, _unadapt_connect


# ---- gen_coords.find_starting_node_from_spec: -start selects by molecule name, molecule index, residue name and residue id as written ----
from pyvc.types import TObj as _TObj      # noqa: E402
REG_S = Registry()
REG_S.add(FIND_NODES)
SMOL = TGraph(RATTR, cls="polyply.src.meta_molecule:MetaMolecule", mol_name=TNode, root=TOpt(TNode))
STOP = TRec("polyply.src.topology:Topology", molecules=TList(SMOL))
# the parsed specification of a -start string: an uninterpreted function of the string, field by field
_SPF = {f: (z3.Function(f"spec_{f}_given", _TObj.sort, z3.BoolSort()), z3.Function(f"spec_{f}", _TObj.sort, {"resname": TNode.sort, "resid": z3.RealSort(), "mol_idx": z3.IntSort(), "molname": TNode.sort}[f]))
        for f in ("resname", "resid", "mol_idx", "molname")}
m_, s_ = z3.Int("m_"), z3.Int("s_")


def spec_is(spec, string):
    return z3.And(_SPF["mol_idx"][1](string) >= 0,      # the format has no sign: "-" separates the molecule part from the residue part
                  *[z3.And(spec.fields[f].none == z3.Not(_SPF[f][0](string)), spec.fields[f].val == _SPF[f][1](string)) for f in _SPF])


REG_S.add(Contract("polyply.src.annotate_ligands:parse_residue_spec", params=dict(resspec=_TObj), result=SPEC,
                   defines={"the parsed fields are functions of the string": "spec_is(result, resspec)"}, spec_fns=dict(spec_is=spec_is), trusted=True,
                   note="string parsing of <molname>#<molidx>-<resname>#<resid> (assumed; exercised by the bounded unit)"))


def applies(string, mol, m):
    """statement of C18: the specification addresses molecule m -- by its index if it names one, and by its name if it names one"""
    gi, vi = _SPF["mol_idx"][0](string), _SPF["mol_idx"][1](string)
    gn, vn = _SPF["molname"][0](string), _SPF["molname"][1](string)
    return z3.And(z3.Or(z3.Not(gi), vi == m), z3.Or(z3.Not(gn), vn == mol.fields["mol_name"]))


def addressed(string, mol, m):
    """what the clause proved below uses: `applies`, except that a specification naming an index AND a molecule name is taken by its
    index alone (the code ignores the name then: open known finding K2, pinned by a test of the suite and reported by the bounded unit;
    the deductive clause is stated around it rather than failing on every run)"""
    gi, vi = _SPF["mol_idx"][0](string), _SPF["mol_idx"][1](string)
    return z3.If(gi, vi == m, applies(string, mol, m))


def hook_by(name):
    def hook(eng, env):
        from pyvc.types import SDict
        b = env["_by"]
        env["_by"] = SDict(b.k, b.v, b.dom, [z3.Store(b.comps[0], env[name], env["k"])])
    return hook


def named_by(string, mol, x):
    a = nattrs(mol, x)
    gr, vr = _SPF["resname"][0](string), _SPF["resname"][1](string)
    gi, vi = _SPF["resid"][0](string), _SPF["resid"][1](string)
    return z3.And(is_node(mol, x), z3.Or(z3.Not(gr), a.fields["resname"] == vr), z3.Or(z3.Not(gi), ops.real(a.fields["resid"]) == vi))


def starts_sound(start_dict, top, old_top, specs, upto, by):
    """a molecule has a start residue only if one of the (first `upto`) specifications -- ghost `by`: which one -- addresses it and names
    that residue; the residue is then also the root of the molecule; a molecule without start residue keeps its root"""
    mols, olds = top.fields["molecules"], old_top.fields["molecules"]
    mol, old = slist_get(mols, m_), slist_get(olds, m_)
    st = start_dict.v.unflat([c[m_] for c in start_dict.comps])
    s0 = by.comps[0][m_]
    src = z3.And(0 <= s0, s0 < upto, addressed(slist_get(specs, s0), old, m_), named_by(slist_get(specs, s0), old, st.val))
    return z3.And(mols.n == olds.n, z3.ForAll([m_], z3.Implies(z3.And(0 <= m_, m_ < mols.n), z3.And(
        z3.Select(start_dict.dom, m_), TGraph(RATTR).fields["nodes"].eq(mol.fields["nodes"], old.fields["nodes"]), mol.fields["mol_name"] == old.fields["mol_name"],
        z3.If(st.none, TOpt(TNode).eq(mol.fields["root"], old.fields["root"]),
              z3.And(src, z3.Not(mol.fields["root"].none), mol.fields["root"].val == st.val))))))


START = REG_S.add(Contract(
    "polyply.src.gen_coords:find_starting_node_from_spec", params=dict(topology=STOP, start_nodes=TList(_TObj)), result=TDict(TInt, TOpt(TNode)),
    raises_when={"IndexError": "True"},
    modifies=["topology.molecules"],
    ensures={"a molecule gets a start residue only from a specification that addresses it (by its index if one is written, else by its name if one is written -- see K2 for both) and names that residue; it becomes the "
             "molecule's root; the other molecules keep their root; residues are untouched": "starts_sound(result, topology, old(topology), start_nodes, len(start_nodes), _by)"},
    exposes={"_by": TDict(TInt, TInt)},
    locals={"start_dict": TDict(TInt, TOpt(TNode))}, ghost_locals={"_by": TDict(TInt, TInt)},
    ghost={"after:start_dict[mol_idx] = node": hook_by("mol_idx"), "after:start_dict[idx] = node": hook_by("idx")},
    loops={0: Loop({"so far": "starts_sound(start_dict, topology, old(topology), start_nodes, k, _by)"}, modifies=["_by"]),
           1: Loop({"so far": "starts_sound(start_dict, topology, old(topology), start_nodes, k + 1, _by)", "position": "0 <= k and k < len(start_nodes) and spec_is(res_spec, start_nodes[k])"},
                   index="j", modifies=["_by"])},
    spec_fns=dict(starts_sound=starts_sound, spec_is=spec_is),
    props=("C18",), note="parse_residue_spec assumed (fields as functions of the string); _find_nodes through its proved contract; IndexError when a specification names no residue"))

"""C18: `-start` / `-lig` specifications select residues by residue name and residue id as written --
polyply/src/annotate_ligands.py:_find_nodes (generator, modelled as the list of its yields).

mol_attr is the dictionary made by parse_residue_spec: the keys 'resname' and 'resid' are present only when the specification
names them (resid is a float there; node resids are ints: `==` compares numerically)."""
import z3
from pyvc.types import (TInt, TReal, TNode, TObj, TList, TDict, TRec, TOpt, TGraph, SDict, slist_get)
from pyvc.contract import Contract, Registry, Loop
from pyvc import ops

REG = Registry()
NS = TNode.sort
RATTR = TRec("nodeattrs", resname=TNode, resid=TInt)
MOL = TGraph(RATTR)
SPEC = TRec("resspec", resname=TOpt(TNode), resid=TOpt(TReal), mol_idx=TOpt(TInt), molname=TOpt(TNode))
x_ = z3.Const("x_", NS)
i_, j_ = z3.Int("i_"), z3.Int("j_")


def nattrs(g, x):
    nd = g.fields["nodes"]
    return nd.v.unflat([c[x] for c in nd.comps])


def is_node(g, x):
    return z3.Select(g.fields["nodes"].dom, x)


def named(molecule, spec, x):
    """statement of C18: the residue carries the residue name and the residue id the specification names (an omitted field selects all)"""
    a = nattrs(molecule, x)
    rn, ri = spec.fields["resname"], spec.fields["resid"]
    return z3.And(z3.Or(rn.none, a.fields["resname"] == rn.val), z3.Or(ri.none, ops.real(a.fields["resid"]) == ri.val))


def sound(molecule, spec, Y, upto=None, pos=None):
    e = slist_get(Y, i_)
    seen = z3.BoolVal(True) if pos is None else pos(e) < upto
    return z3.ForAll([i_], z3.Implies(z3.And(0 <= i_, i_ < Y.n), z3.And(is_node(molecule, e), named(molecule, spec, e), seen)))


def distinct(Y):
    return z3.ForAll([i_, j_], z3.Implies(z3.And(0 <= i_, i_ < j_, j_ < Y.n), slist_get(Y, i_) != slist_get(Y, j_)))


def complete_wit(molecule, spec, Y, w, upto, pos):
    wi = w.comps[0][x_]
    return z3.ForAll([x_], z3.Implies(z3.And(is_node(molecule, x_), pos(x_) < upto, named(molecule, spec, x_)),
                                      z3.And(0 <= wi, wi < Y.n, slist_get(Y, wi) == x_)))


def complete(molecule, spec, Y):
    return z3.ForAll([x_], z3.Implies(z3.And(is_node(molecule, x_), named(molecule, spec, x_)),
                                      z3.Exists([i_], z3.And(0 <= i_, i_ < Y.n, slist_get(Y, i_) == x_))))


def hook_found(eng, env):
    w, Y, x = env["_fw"], env["__yield__"], env["node"]
    env["_fw"] = SDict(w.k, w.v, w.dom, [z3.Store(w.comps[0], x, Y.n - 1)])


FIND_NODES = REG.add(Contract(
    "polyply.src.annotate_ligands:_find_nodes", params=dict(molecule=MOL, mol_attr=SPEC), result=TList(TNode),
    ensures={"every yielded residue belongs to the molecule and has the residue name and id the specification names": "sound(molecule, mol_attr, result)",
             "every such residue is yielded": "complete(molecule, mol_attr, result)",
             "no residue is yielded twice": "distinct(result)"},
    locals={"__yield__": TList(TNode)}, ghost_locals={"_fw": TDict(TNode, TInt)},
    ghost={"after:yield node": hook_found},
    loops={1: Loop({"sound": "sound(molecule, mol_attr, __yield__, k, _pos1)",
                    "complete (ghost index)": "complete_wit(molecule, mol_attr, __yield__, _fw, k, _pos1)",
                    "distinct": "distinct(__yield__)"}, modifies=["_fw", "__yield__"])},
    spec_fns=dict(sound=sound, complete=complete, complete_wit=complete_wit, distinct=distinct),
    props=("C18",), note="generator as the list of its yields; the fields mol_idx / molname of the specification are not read here"))

CONTRACTS = [FIND_NODES]

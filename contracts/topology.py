"""Contracts for polyply/src/topology.py (C09, C04)."""
import z3
from pyvc.types import (TInt, TReal, TBool, TStr, TNode, TObj, TTuple, TVec, TList, TDict, TRec, TOpt, S, key_term,
                        slist_get)
from pyvc.contract import Contract, Registry, Loop
from pyvc import ops

REG = Registry()
K4 = TTuple(TStr, TStr, TStr, TStr)
X = z3.StringVal("X")


# ---- spec functions transcribed from the statement of C09 ------------------------------------
def m(k, a):
    """type key k matches the atom-type sequence a position by position ('X' = wildcard)"""
    return z3.And(*[z3.Or(S(k[i]) == X, S(k[i]) == S(a[i])) for i in range(4)])


def M(k, a):
    """... in the listed or in the reversed direction"""
    return z3.Or(m(k, a), m(k, a[::-1]))


def wild(k):
    return z3.Sum(*[z3.If(S(k[i]) == X, 1, 0) for i in range(4)])


def forall_keys(d, f):
    ks = [z3.String(f"k{i}") for i in range(4)]
    kt = key_term(d.k, tuple(ks))
    return z3.ForAll(ks, z3.Implies(z3.Select(d.dom, kt), f(tuple(ks))))


DIH = REG.add(Contract(
    "polyply.src.topology:match_dihedral_interaction_types",
    params=dict(atoms=K4, interaction_dict=TDict(K4, TObj)),
    result=TOpt(K4),
    requires={"atoms are concrete types, not the wildcard": "all([a != 'X' for a in atoms])"},
    ensures={
        "E1.sound": "implies(result is not None, result in interaction_dict and M(result, atoms))",
        "E2.complete": "implies(result is None, forall_keys(interaction_dict, lambda k: Not(M(k, atoms))))",
        "E3.least-wildcarded": "implies(result is not None, forall_keys(interaction_dict, "
                               "lambda k: implies(M(k, atoms), wild(result) <= wild(k))))",
    },
    spec_fns={"M": M, "wild": wild, "forall_keys": forall_keys},
    inline_callees=["polyply.src.topology:_wildcard_dih"],
    props=("C09",),
))


def lemma_direction_independence(ctx):
    """corollary over the contract of the matcher: for any table, the results for a listing and for the
    reversed listing are both None or have the same number of wildcards (E4 of DESIGN A1)"""
    in_dict = z3.Function("in_dict", *([z3.StringSort()] * 4 + [z3.BoolSort()]))
    a = tuple(z3.String(f"a{i}") for i in range(4))
    ra = a[::-1]

    def post(atoms, none, r):
        ks = [z3.String(f"k{i}") for i in range(4)]
        e1 = z3.Implies(z3.Not(none), z3.And(in_dict(*r), M(r, atoms)))
        e2 = z3.Implies(none, z3.ForAll(ks, z3.Implies(in_dict(*ks), z3.Not(M(tuple(ks), atoms)))))
        e3 = z3.Implies(z3.Not(none), z3.ForAll(ks, z3.Implies(z3.And(in_dict(*ks), M(tuple(ks), atoms)), wild(r) <= wild(tuple(ks)))))
        return [e1, e2, e3]
    n1, n2 = z3.Bools("none1 none2")
    r1 = tuple(z3.String(f"r1_{i}") for i in range(4))
    r2 = tuple(z3.String(f"r2_{i}") for i in range(4))
    hyps = post(a, n1, r1) + post(ra, n2, r2)
    goal = z3.And(n1 == n2, z3.Implies(z3.Not(n1), wild(r1) == wild(r2)))
    return [("E4.direction-independent", hyps, goal)]


# ---- combination rules -----------------------------------------------------------------------
LB = REG.add(Contract(
    "polyply.src.topology:lorentz_berthelot_rule",
    params=dict(sig_A=TReal, sig_B=TReal, eps_A=TReal, eps_B=TReal),
    result=TTuple(TReal, TReal),
    requires={"non-negative well depths": "eps_A >= 0 and eps_B >= 0"},
    ensures={"arithmetic mean of sigma": "result[0] == (sig_A + sig_B) / 2",
             "geometric mean of epsilon": "result[1] >= 0 and result[1] * result[1] == eps_A * eps_B",
             "(the root is the principal square root: names the value for callers)": "result[1] == root(eps_A * eps_B)"},
    spec_fns={"root": lambda x: ops.SQRT(ops.real(x))},
    props=("C09",),
))

GEO = REG.add(Contract(
    "polyply.src.topology:geometric_rule",
    params=dict(C6_A=TReal, C6_B=TReal, C12_A=TReal, C12_B=TReal),
    result=TTuple(TReal, TReal),
    requires={"non-negative coefficients": "C6_A >= 0 and C6_B >= 0 and C12_A >= 0 and C12_B >= 0"},
    ensures={"geometric mean C6": "result[0] >= 0 and result[0] * result[0] == C6_A * C6_B",
             "geometric mean C12": "result[1] >= 0 and result[1] * result[1] == C12_A * C12_B",
             "(the roots are the principal square roots: names the values for callers)": "result[0] == root(C6_A * C6_B) and result[1] == root(C12_A * C12_B)"},
    spec_fns={"root": lambda x: ops.SQRT(ops.real(x))},
    props=("C09",),
))


def lemma_comb_symmetric(ctx):
    """the contracts of both rules determine the result uniquely and are symmetric under swapping A and B"""
    out = []
    sA, sB, eA, eB = z3.Reals("sA sB eA eB")
    x0, x1, y0, y1 = z3.Reals("x0 x1 y0 y1")
    # two results satisfying the postcondition for swapped arguments are equal
    hyp = [eA >= 0, eB >= 0, x0 == (sA + sB) / 2, x1 >= 0, x1 * x1 == eA * eB, y0 == (sB + sA) / 2, y1 >= 0, y1 * y1 == eB * eA]
    out.append(("lorentz_berthelot symmetric", hyp, z3.And(x0 == y0, x1 == y1)))
    hyp = [sA >= 0, sB >= 0, eA >= 0, eB >= 0, x0 >= 0, x0 * x0 == sA * sB, x1 >= 0, x1 * x1 == eA * eB,
           y0 >= 0, y0 * y0 == sB * sA, y1 >= 0, y1 * y1 == eB * eA]
    out.append(("geometric symmetric", hyp, z3.And(x0 == y0, x1 == y1)))
    return out


# ---- C6/C12 -> sigma/epsilon -----------------------------------------------------------------
NBV = TRec("nbparams", nb1=TReal, nb2=TReal)
UPAIR = TObj      # key of nonbond_params: an unordered pair (frozenset) -- opaque here


def nb_conv_ok(old_d, new_d, key):
    """spec from the statement: sigma/epsilon reproduce the C6/C12 they came from (C6, C12 > 0)"""
    kt = key_term(old_d.k, key)
    c6, c12 = old_d.comps[0][kt], old_d.comps[1][kt]
    sig, eps = new_d.comps[0][kt], new_d.comps[1][kt]
    sig6 = sig * sig * sig * sig * sig * sig
    return z3.And(sig > 0, 4 * eps * sig6 == c6, 4 * eps * sig6 * sig6 == c12)


def unchanged_at(old_d, new_d, key):
    kt = key_term(old_d.k, key)
    return z3.And(*[o[kt] == n[kt] for o, n in zip(old_d.comps, new_d.comps)])


def same_dom(a, b):
    return a.dom == b.dom


CONV = REG.add(Contract(
    "polyply.src.topology:Topology.convert_nonbond_to_sig_eps",
    params=dict(self=TRec("polyply.src.topology:Topology", nonbond_params=TDict(UPAIR, NBV))),
    requires={"positive C6 and C12 (statement: all positive C6/C12 values)":
              "forall(lambda p: implies(p in self.nonbond_params, self.nonbond_params[p]['nb1'] > 0 and self.nonbond_params[p]['nb2'] > 0), sort='Obj')"},
    ensures={
        "same pairs": "same_dom(old(self.nonbond_params), self.nonbond_params)",
        "sigma/epsilon reproduce C6/C12": "forall(lambda p: implies(p in self.nonbond_params, "
                                           "nb_conv_ok(old(self.nonbond_params), self.nonbond_params, p)), sort='Obj')",
    },
    loops={0: Loop({
        "dom": "same_dom(old(self.nonbond_params), self.nonbond_params)",
        "done": "forall(lambda i: implies(0 <= i and i < k, nb_conv_ok(old(self.nonbond_params), self.nonbond_params, _seq0[i])))",
        "todo": "forall(lambda i: implies(k <= i and i < len(_seq0), unchanged_at(old(self.nonbond_params), self.nonbond_params, _seq0[i])))",
    }, modifies=["self.nonbond_params"])},
    spec_fns={"nb_conv_ok": nb_conv_ok, "unchanged_at": unchanged_at, "same_dom": same_dom},
    modifies=["self.nonbond_params"],
    props=("C09",),
))


# ---- C09: '#define macros substituted' -- replace_defined_interaction ------------------------------------------------------------
from pyvc.types import TRec as _TRec, slist_get as _get

_INTER = _TRec("Interaction", parameters=TList(TStr))
_DEFS = TDict(TStr, TList(TStr))
OFF = z3.Function("expanded_before", z3.IntSort(), z3.IntSort())      # ghost: number of output parameters produced by the inputs before index i
_i, _j, _a, _b = z3.Int("i_"), z3.Int("j_"), z3.Int("a_"), z3.Int("b_")


def _def_of(defines, p):
    return defines.v.unflat([c[ops.S(p)] for c in defines.comps])


def _width(params, defines, i):
    p = _get(params, i)
    return z3.If(z3.Select(defines.dom, ops.S(p)), _def_of(defines, p).n, 1)


def off_def(params, defines):
    return z3.And(OFF(0) == 0, z3.ForAll([_i], z3.Implies(z3.And(0 <= _i, _i < params.n), OFF(_i + 1) == OFF(_i) + _width(params, defines, _i))))


def off_monotone(params):
    return z3.ForAll([_a, _b], z3.Implies(z3.And(0 <= _a, _a <= _b, _b <= params.n), OFF(_a) <= OFF(_b)))


def lemma_off_monotone(ctx):
    params = TList(TStr).fresh("params")
    defines = _DEFS.fresh("defines")
    b = z3.Int("b")
    wf = z3.ForAll([z3.String("s_")], _def_of(defines, z3.String("s_")).n >= 0)
    P = lambda bb: z3.ForAll([_a], z3.Implies(z3.And(0 <= _a, _a <= bb), OFF(_a) <= OFF(bb)))      # noqa: E731
    return [("base: P(0)", [off_def(params, defines), params.n >= 0, wf], P(z3.IntVal(0))),
            ("step: P(b) and b < len  ->  P(b + 1)", [off_def(params, defines), params.n >= 0, wf, 0 <= b, b < params.n, P(b)], P(b + 1))]


def substituted(out, params, defines, upto):
    """the first `upto` parameters, each replaced by the values of its define (in order) or kept when it names no define"""
    p = _get(params, _i)
    d = _def_of(defines, p)
    return z3.ForAll([_i], z3.Implies(z3.And(0 <= _i, _i < upto), z3.And(
        z3.Implies(z3.Select(defines.dom, ops.S(p)),
                   z3.ForAll([_j], z3.Implies(z3.And(0 <= _j, _j < d.n), ops.S(_get(out, OFF(_i) + _j)) == ops.S(_get(d, _j))))),
        z3.Implies(z3.Not(z3.Select(defines.dom, ops.S(p))), ops.S(_get(out, OFF(_i))) == ops.S(p)))))


def row_substituted(out, values, base, upto):
    return z3.ForAll([_j], z3.Implies(z3.And(0 <= _j, _j < upto), ops.S(_get(out, base + _j)) == ops.S(_get(values, _j))))


REPLACE_DEFINED = REG.add(Contract(
    "polyply.src.topology:replace_defined_interaction",
    params=dict(interaction=_INTER, defines=_DEFS), result=_INTER,
    axioms={"definition of the ghost offset expanded_before": "off_def(interaction.parameters, defines)",
            "the offset is monotone (induction: lemma unit define-offsets-monotone)": "off_monotone(interaction.parameters)",
            "lists have non-negative length": "defs_wf(defines)"},
    ensures={"every parameter that names a #define is replaced by the values of the define, in order; every other parameter is kept; nothing is added or dropped":
             "len(result.parameters) == OFF(len(old(interaction.parameters))) and substituted(result.parameters, old(interaction.parameters), defines, len(old(interaction.parameters)))",
             "the interaction itself is updated": "same_params(result, interaction)"},
    modifies=["interaction.parameters"],
    locals={"new_parameters": TList(TStr)},
    loops={0: Loop({"substituted so far": "len(new_parameters) == OFF(k) and substituted(new_parameters, interaction.parameters, defines, k)"}),
           1: Loop({"substituted so far": "substituted(new_parameters, interaction.parameters, defines, k)",
                    "this define so far": "len(new_parameters) == OFF(k) + kv and row_substituted(new_parameters, values, OFF(k), kv) and same_list(values, defines[parameter])"
                    }, index="kv")},
    spec_fns=dict(off_def=off_def, off_monotone=off_monotone, substituted=substituted, row_substituted=row_substituted, OFF=lambda x: OFF(x),
                  defs_wf=lambda d: z3.ForAll([z3.String("s_")], _def_of(d, z3.String("s_")).n >= 0),
                  same_params=lambda a, b: TList(TStr).eq(a.fields["parameters"], b.fields["parameters"]),
                  same_list=lambda a, b: z3.And(a.n == b.n, *[x == y for x, y in zip(a.comps, b.comps)])),
    props=("C09",)))


# ---- C09: 'non-bonded pair parameters are symmetric in the pair, explicit nonbond_params override generated ones, self terms come
#      from the atom types' -- Topology.gen_pairs ---------------------------------------------------------------------------------
from pyvc.types import TUPair as _TUPair, upair_fn as _upair_fn

_ATYPE = _TRec("atomtype", nb1=TReal, nb2=TReal)
_NBP = _TRec("nbparams", nb1=TReal, nb2=TReal)
_DEFAULTS = _TRec("defaults", **{"comb-rule": TReal, "gen-pairs": TStr})
# atom-type names are only ever compared and used as keys: an uninterpreted sort (TNode) stands for them
_TOPO = _TRec("polyply.src.topology:Topology", defaults=_DEFAULTS, atom_types=TDict(TNode, _ATYPE), nonbond_params=TDict(_TUPair(TNode), _NBP))
_UPS, _UP, _UP_AXIOMS = _upair_fn(TNode)
_A, _B = z3.Const("A_", TNode.sort), z3.Const("B_", TNode.sort)
_key = z3.Const("key_", _UPS)


def _at(top, a):
    d = top.fields["atom_types"]
    return d.v.unflat([c[a] for c in d.comps])


def _is_type(top, a):
    return z3.Select(top.fields["atom_types"].dom, a)


def _nb(top, key):
    d = top.fields["nonbond_params"]
    return d.v.unflat([c[key] for c in d.comps])


def _has_nb(top, key):
    return z3.Select(top.fields["nonbond_params"].dom, key)


def _rule(top):
    return ops.real(top.fields["defaults"].fields["comb-rule"])


def pair_ok(top, old, a, b):
    """the entry of {a, b} is what the combination rule of the topology gives for the two atom types -- symmetric in a and b"""
    e = _nb(top, _UP(a, b))
    ta, tb = _at(old, a), _at(old, b)
    n1a, n1b, n2a, n2b = [ops.real(x) for x in (ta.fields["nb1"], tb.fields["nb1"], ta.fields["nb2"], tb.fields["nb2"])]
    v1, v2 = ops.real(e.fields["nb1"]), ops.real(e.fields["nb2"])
    # geometric mean = principal square root of the product (>= 0, squares to the product: the sqrt axioms of the prelude)
    geo = z3.And(v1 == ops.SQRT(n1a * n1b), v2 == ops.SQRT(n2a * n2b))
    lb = z3.And(v1 == (n1a + n1b) / 2, v2 == ops.SQRT(n2a * n2b))
    return z3.If(_rule(old) == 2, geo, lb)


def explicit_kept(top, old):
    return z3.ForAll([_key], z3.Implies(_has_nb(old, _key), z3.And(_has_nb(top, _key), _NBP.eq(_nb(top, _key), _nb(old, _key)))))


def rule_values(old, a, b):
    ta, tb = _at(old, a), _at(old, b)
    n1a, n1b, n2a, n2b = [ops.real(x) for x in (ta.fields["nb1"], tb.fields["nb1"], ta.fields["nb2"], tb.fields["nb2"])]
    return (z3.If(_rule(old) == 2, ops.SQRT(n1a * n1b), (n1a + n1b) / 2), ops.SQRT(n2a * n2b))


def generated_ok(top, old, ka, kb):
    """ghost bookkeeping keyed by the dictionary key (one quantified variable): every entry that was not there before was generated
    for the two atom types recorded for it -- by the combination rule if they differ, from the atom type if they are the same"""
    a, b = ka.comps[0][_key], kb.comps[0][_key]
    e = _nb(top, _key)
    v1, v2 = rule_values(old, a, b)
    t = _at(old, a)
    return z3.ForAll([_key], z3.Implies(z3.And(_has_nb(top, _key), z3.Not(_has_nb(old, _key))), z3.And(
        _is_type(old, a), _is_type(old, b), _key == _UP(a, b),
        z3.Implies(a != b, z3.And(ops.S(old.fields["defaults"].fields["gen-pairs"]) == z3.StringVal("yes"),
                                  ops.real(e.fields["nb1"]) == v1, ops.real(e.fields["nb2"]) == v2)),
        z3.Implies(a == b, z3.And(e.fields["nb1"] == t.fields["nb1"], e.fields["nb2"] == t.fields["nb2"])))))


def pairs_present(top, old, pos=None, k=None):
    seen = z3.BoolVal(True) if pos is None else pos(_A, _B) < k
    return z3.ForAll([_A, _B], z3.Implies(z3.And(_is_type(old, _A), _is_type(old, _B), _A != _B, seen), _has_nb(top, _UP(_A, _B))))


def selfs_present(top, old, pos=None, k=None):
    seen = z3.BoolVal(True) if pos is None else pos(_A) < k
    return z3.ForAll([_A], z3.Implies(z3.And(_is_type(old, _A), seen), _has_nb(top, _UP(_A, _A))))


def no_selfs_yet(top, old, ka, kb):
    return z3.ForAll([_key], z3.Implies(z3.And(_has_nb(top, _key), z3.Not(_has_nb(old, _key))), ka.comps[0][_key] != kb.comps[0][_key]))


def pairs_generated(top, old):
    """the statement: a pair of different atom types without an explicit entry carries the combination rule's value -- for either order"""
    return z3.ForAll([_A, _B], z3.Implies(z3.And(_is_type(old, _A), _is_type(old, _B), _A != _B, z3.Not(_has_nb(old, _UP(_A, _B)))),
                                          z3.And(_has_nb(top, _UP(_A, _B)), pair_ok(top, old, _A, _B))))


def selfs_generated(top, old):
    e = _nb(top, _UP(_A, _A))
    t = _at(old, _A)
    return z3.ForAll([_A], z3.Implies(z3.And(_is_type(old, _A), z3.Not(_has_nb(old, _UP(_A, _A)))),
                                      z3.And(_has_nb(top, _UP(_A, _A)), e.fields["nb1"] == t.fields["nb1"], e.fields["nb2"] == t.fields["nb2"])))


def nothing_else(top, old):
    return z3.ForAll([_key], z3.Implies(_has_nb(top, _key), z3.Or(_has_nb(old, _key),
                                                                  z3.Exists([_A, _B], z3.And(_is_type(old, _A), _is_type(old, _B), _key == _UP(_A, _B))))))


def _set_key(G, key, val):
    from pyvc.types import SDict
    return SDict(G.k, G.v, G.dom, [z3.Store(G.comps[0], key, val)])


def hook_pair(eng, env):
    key = _UP(env["atom_type_A"], env["atom_type_B"])
    env["_ka"] = _set_key(env["_ka"], key, env["atom_type_A"])
    env["_kb"] = _set_key(env["_kb"], key, env["atom_type_B"])


def hook_self(eng, env):
    key = _UP(env["atom_type"], env["atom_type"])
    env["_ka"] = _set_key(env["_ka"], key, env["atom_type"])
    env["_kb"] = _set_key(env["_kb"], key, env["atom_type"])


def gen_pairs_pre(top):
    r = _rule(top)
    t = _at(top, _A)
    return z3.And(z3.Or(r == 1, r == 2, r == 3),
                  z3.ForAll([_A], z3.Implies(_is_type(top, _A), z3.And(ops.real(t.fields["nb1"]) >= 0, ops.real(t.fields["nb2"]) >= 0))))


def _same_but_nb(a, b):
    return z3.And(_DEFAULTS.eq(a.fields["defaults"], b.fields["defaults"]),
                  a.fields["atom_types"].dom == b.fields["atom_types"].dom, *[x == y for x, y in zip(a.fields["atom_types"].comps, b.fields["atom_types"].comps)])


GEN_PAIRS = REG.add(Contract(
    "polyply.src.topology:Topology.gen_pairs",
    params=dict(self=_TOPO),
    requires={"a known combination rule and non-negative atom-type parameters (the combination rules take square roots)": "gen_pairs_pre(self)"},
    axioms={"unordered pairs: {a, b} = {b, a}, and equal pairs have equal members": "upair_axioms()"},
    ensures={"explicit nonbond_params override generated ones: every entry present before is unchanged": "explicit_kept(self, old(self))",
             "with gen-pairs every pair of different atom types without an explicit entry gets the combination rule's value, the same for (a, b) and (b, a)":
             "implies(old(self).defaults['gen-pairs'] == 'yes', pairs_generated(self, old(self)))",
             "self terms come from the atom types": "selfs_generated(self, old(self))",
             "nothing else is added": "nothing_else(self, old(self))",
             "atom types and defaults are only read": "same_but_nb(self, old(self))"},
    modifies=["self.nonbond_params"],
    ghost_locals={"_ka": TDict(_TUPair(TNode), TNode), "_kb": TDict(_TUPair(TNode), TNode)},
    ghost={'after:self.nonbond_params.update({frozenset([atom_type_A, atom_type_B]): {"nb1": nb1, "nb2": nb2}})': hook_pair,
           'after:self.nonbond_params.update({frozenset([atom_type, atom_type]): {"nb1": nb1, "nb2": nb2}})': hook_self},
    loops={0: Loop({"explicit entries kept": "explicit_kept(self, old(self))",
                    "new entries are generated ones (ghost: per key)": "generated_ok(self, old(self), _ka, _kb)",
                    "only pairs so far": "no_selfs_yet(self, old(self), _ka, _kb)",
                    "pairs visited so far have an entry": "pairs_present(self, old(self), _comb_pos, k)",
                    "frame": "same_but_nb(self, old(self))"}, modifies=["_ka", "_kb"]),
           1: Loop({"explicit entries kept": "explicit_kept(self, old(self))",
                    "new entries are generated ones (ghost: per key)": "generated_ok(self, old(self), _ka, _kb)",
                    "pairs have an entry": "implies(old(self).defaults['gen-pairs'] == 'yes', pairs_present(self, old(self)))",
                    "self terms visited so far have an entry": "selfs_present(self, old(self), _pos1, k1)",
                    "frame": "same_but_nb(self, old(self))"}, index="k1", modifies=["_ka", "_kb"])},
    spec_fns=dict(gen_pairs_pre=gen_pairs_pre, explicit_kept=explicit_kept, pairs_generated=pairs_generated, selfs_generated=selfs_generated,
                  nothing_else=nothing_else, same_but_nb=_same_but_nb, upair_axioms=lambda: z3.And(*_UP_AXIOMS),
                  generated_ok=generated_ok, pairs_present=pairs_present, selfs_present=selfs_present, no_selfs_yet=no_selfs_yet),
    props=("C09",),
    note="uses the proved contracts of the two combination rules; itertools.combinations over the atom-type table modelled as a ghost sequence "
         "holding every unordered pair of different names once; frozenset keys as an uninterpreted unordered-pair sort"))


def _off_interp(args):
    params, defines = args["interaction"]["parameters"], args["defines"]
    pre = [0]
    for p in params:
        pre.append(pre[-1] + (len(defines[p]) if p in defines else 1))
    return {"expanded_before": lambda i: pre[int(i)] if 0 <= int(i) < len(pre) else 0, "__window__": pre[-1] + len(params) + 4}


REPLACE_DEFINED.ghost_interp = _off_interp

"""C17 (system level): BuildSystem._compose_system -- 'positions of previously accepted molecules are never changed, and when building
ends successfully every residue of every built molecule has a position'.

Built on the PROVED contract of BuildSystem._handle_random_walk (contracts/random_walk.py): an abandoned attempt leaves the engine
exactly as it was, a built molecule has every residue of its search tree positioned and touches nothing else.  Termination is not
claimed (the loop retries a molecule until an attempt succeeds)."""
import z3
from pyvc.types import (TInt, TReal, TBool, TStr, TNode, TObj, TTuple, TVec, TList, TDict, TRec, TOpt, TConst, SDict, key_term, slist_get)
from pyvc.contract import Contract, Registry, Loop
from pyvc import ops
from contracts import random_walk as RW
from contracts.rw_types import V3, ENGINE, NODEATTR, TREE, MK

REG = Registry()
METAMOL2 = TRec("polyply.src.meta_molecule:MetaMolecule", nodes=TDict(TNode, NODEATTR), search_tree=TREE, root=TOpt(TNode), mol_name=TStr)
BUILDSYS2 = TRec("polyply.src.build_system:BuildSystem", nonbond_matrix=ENGINE, box_grid=TList(V3), box=V3,
                 start_dict=TDict(TInt, TOpt(TNode)), rwargs=TConst({}), maxiter=TInt, ignore=TList(TStr))
NS = TNode.sort
m_, x_, i_ = z3.Int("m_"), z3.Const("x_", NS), z3.Int("i_")
has, val_eq = RW.has, RW.val_eq


def mol(molecules, m):
    return slist_get(molecules, m)


def isnode(molecules, m, x):
    return z3.Select(mol(molecules, m).fields["nodes"].dom, x)


def ignored(self_, molecules, m):
    ign = self_.fields["ignore"]
    return z3.Exists([i_], z3.And(0 <= i_, i_ < ign.n, ign.comps[0][i_] == mol(molecules, m).fields["mol_name"]))


def matches_flags(self_, molecules, m):
    """exactly the supplied residues of molecule m are positioned (what NonBondEngine.from_topology establishes)"""
    posd = self_.fields["nonbond_matrix"].fields["posd"]
    nodes = mol(molecules, m).fields["nodes"]
    return z3.ForAll([x_], z3.Implies(z3.Select(nodes.dom, x_), z3.And(has(posd, m, x_) == z3.Not(nodes.comps[0][x_]),
                                                                      has(posd, m, x_) == z3.Not(nodes.comps[1][x_]))))


def pending_ok(self_, molecules, frm):
    return z3.ForAll([m_], z3.Implies(z3.And(frm <= m_, m_ < molecules.n, z3.Not(ignored(self_, molecules, m_))), matches_flags(self_, molecules, m_)))


def done_ok(self_, molecules, acc, upto):
    """every residue of the molecules dealt with is positioned, where it was when the molecule was accepted (ghost snapshot)"""
    posd = self_.fields["nonbond_matrix"].fields["posd"]
    kt = key_term(posd.k, (m_, x_))
    return z3.ForAll([m_, x_], z3.Implies(z3.And(0 <= m_, m_ < upto, z3.Not(ignored(self_, molecules, m_)), isnode(molecules, m_, x_)),
                                          z3.And(has(posd, m_, x_), *[c[kt] == a[kt] for c, a in zip(posd.comps, acc.comps)])))


def supplied_kept(self_, old_self):
    new, old = self_.fields["nonbond_matrix"].fields["posd"], old_self.fields["nonbond_matrix"].fields["posd"]
    return z3.ForAll([m_, x_], z3.Implies(has(old, m_, x_), z3.And(has(new, m_, x_), val_eq(new, old, m_, x_))))


def wf(self_, molecules):
    sd = self_.fields["start_dict"]
    return z3.And(self_.fields["box_grid"].n >= 1, self_.fields["maxiter"] >= 0, *[ops.real(d) > 0 for d in self_.fields["box"].data],
                  z3.ForAll([m_], z3.Implies(z3.And(0 <= m_, m_ < molecules.n), z3.Select(sd.dom, m_))))


def tree_assumptions(self_, M, mol_idx, vector_sphere):
    """assumed facts about the search tree of the molecule of THIS iteration (networkx dfs/bfs tree over a connected residue graph,
    rooted at the start residue) and the definitions of the ghost functions the proof of the walk uses for it"""
    w = RW.walk_of(self_, mol_idx, M, vector_sphere)
    path = M.fields["search_tree"].fields["edges"]
    spans = z3.ForAll([x_], z3.Implies(z3.Select(M.fields["nodes"].dom, x_),
                                       z3.Or(x_ == RW.start_of(w, M), z3.And(0 <= RW.TIDX(x_), RW.TIDX(x_) < path.n, RW.tgt(path, RW.TIDX(x_)) == x_))))
    return z3.And(RW.tree_facts(w, M), spans)


def hook_accept(eng, env):
    """ghost: remember where the residues of the molecule just dealt with are"""
    acc = env["_acc"]
    posd = env["self"].fields["nonbond_matrix"].fields["posd"]
    k = env["mol_idx"] - 1
    key = z3.Const("_ak", acc.comps[0].sort().domain())
    first = MK.unflat([f(key) for f in _accessors(acc)])[0]
    env["_acc"] = SDict(acc.k, acc.v, acc.dom, [z3.Lambda([key], z3.If(first == k, p[key], a[key])) for p, a in zip(posd.comps, acc.comps)])


def _accessors(d):
    from pyvc.types import _TUPLE_CACHE
    ss = d.k.sorts()
    name = "Key_" + "_".join(str(s) for s in ss)
    return _TUPLE_CACHE[name][2]


REG[RW.HANDLE_WALK.target] = RW.HANDLE_WALK
REG.add(Contract("polyply.src.linalg_functions:norm_sphere", params=dict(values=TInt), result=TList(V3),
                 requires={"a non-negative number of directions (numpy raises ValueError otherwise)": "values >= 0"},
                 ensures={"as many directions as asked for": "len(result) == values"},
                 defines={"ghost: definition of 'one of the vectors handed in'": "member_def(result)"},
                 spec_fns=dict(member_def=lambda b: RW.member_def(b)), trusted=True, note="random unit vectors (numpy)"))
REG.add(Contract("polyply.src.nonbond_engine:NonBondEngine.concatenate_trees", params=dict(self=ENGINE), trusted=True,
                 note="abstract view: consolidating the trees changes no position (proved for the concrete engine in C16's units + refinement lemma)"))
REG.add(Contract("polyply.src.nonbond_engine:NonBondEngine.update_positions_in_molecules", params=dict(self=ENGINE, molecules=TList(METAMOL2)),
                 modifies=["molecules"], trusted=True, note="copies the engine's positions into the molecules"))

COMPOSE = REG.add(Contract(
    "polyply.src.build_system:BuildSystem._compose_system",
    params=dict(self=BUILDSYS2, molecules=TList(METAMOL2)),
    requires={"a start grid, a positive box, a start entry per molecule": "wf(self, molecules)",
              "the engine holds exactly the supplied residues of every molecule that is not ignored (NonBondEngine.from_topology)": "pending_ok(self, molecules, 0)"},
    ensures={"every residue of every molecule that is not ignored is positioned, at the place it had when its molecule was accepted":
             "done_ok(self, old(molecules), _acc, len(old(molecules)))",
             "supplied positions are never changed": "supplied_kept(self, old(self))"},
    modifies=["self.nonbond_matrix", "molecules"],
    ghost_locals={"_acc": TDict(MK, V3)},
    ghost={"after:mol_idx += 1": hook_accept},
    loops={0: Loop({"molecules dealt with are completely positioned and have not moved since": "done_ok(self, molecules, _acc, mol_idx)",
                    "molecules still to come hold exactly their supplied residues": "pending_ok(self, molecules, mol_idx)",
                    "supplied positions kept": "supplied_kept(self, old(self))",
                    "cursor": "0 <= mol_idx and mol_idx <= mol_tot and mol_tot == len(molecules)",
                    "frame": "frame(self, old(self), molecules, entry['molecules'], vector_sphere, entry['vector_sphere'])"},
                   head_assumptions={"search-tree facts (networkx tree over a connected residue graph) and ghost definitions for the molecule of this iteration": "implies(mol_idx < len(molecules), tree_assumptions(self, molecules[mol_idx], mol_idx, vector_sphere))"},
                   modifies=["_acc"])},
    spec_fns=dict(wf=wf, pending_ok=pending_ok, done_ok=done_ok, supplied_kept=supplied_kept, tree_assumptions=tree_assumptions,
                  frame=lambda s, s0, ms, ms0, vs, vs0: z3.And(RW.bs_frame(s, s0), TList(TStr).eq(s.fields["ignore"], s0.fields["ignore"]),
                                                               ms.n == ms0.n, *[a == b for a, b in zip(ms.comps, ms0.comps)],
                                                               vs.n == vs0.n, *[a == b for a, b in zip(vs.comps, vs0.comps)], vs.n > 80)),
    props=("C17", "C04"),
    note="uses the proved contract of _handle_random_walk; tqdm modelled as a no-op; termination not claimed"))
CONTRACTS = [COMPOSE]

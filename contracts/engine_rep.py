"""C16: representation invariant of NonBondEngine, proved on the real bodies of its mutators.

Concrete state (fields of the real object):
    positions      gndx -> position or undefined (the all-inf row)            == the abstract view of the statement
    nodes_to_gndx  (mol_idx, node) -> gndx
    defined_idxs   list of index lists, one per search tree
    position_trees list of KD-trees (assumed contract: a tree IS the sequence of the rows it was built from)
    gndx_to_tree   gndx -> tree number, for the positioned residues
Ghost state (not in the program; updated by ghost hooks keyed to statements, never read by the code):
    _gslot   gndx -> index of gndx inside defined_idxs[gndx_to_tree[gndx]]   (witness for "occurs exactly once")
    _gstale  tree number -> the tree has not been rebuilt since its index list changed   (remove_positions only)
    _gwhere  tree number -> an index into the local list tree_idxs that names the tree  (witness)

well_formed(self)  :=
   A  dom(gndx_to_tree) = { g | 0 <= g < N and positions[g] defined }
   B  len(position_trees) = len(defined_idxs) = T >= 1
   C  every entry g = defined_idxs[t][i] is positioned, gndx_to_tree[g] = t and slot[g] = i        (=> lists are duplicate free and disjoint)
   E  every positioned g occurs in defined_idxs[gndx_to_tree[g]] at slot[g]
   F  tree t holds exactly the rows positions[defined_idxs[t][i]], i < len(defined_idxs[t])       (=> queries see exactly the positioned residues)
   G  nodes_to_gndx maps into [0, N)
"""
import z3
from pyvc.types import (TInt, TReal, TBool, TStr, TNode, TObj, TTuple, TVec, TList, TDict, TRec, TOpt, SDict, SList, Rec, key_term)
from pyvc.contract import Contract, Registry, Loop
from pyvc import ops

REG = Registry()
V3 = TVec(3)
MK = TTuple(TInt, TNode)
KDT = TRec("kdtree", n=TInt, pts=TList(V3))
ENGINE_C = TRec("polyply.src.nonbond_engine:NonBondEngine",
                positions=TList(TOpt(V3)), nodes_to_gndx=TDict(MK, TInt), defined_idxs=TList(TList(TInt)),
                position_trees=TList(KDT), gndx_to_tree=TDict(TInt, TInt), boxsize=V3,
                _gslot=TDict(TInt, TInt), _gstale=TDict(TInt, TBool), _gwhere=TDict(TInt, TInt))

g_, t_, i_, j_ = z3.Ints("g_ t_ i_ j_")
m_ = z3.Int("m_")
x_ = z3.Const("x_", TNode.sort)


class View:
    """unpacks the record into z3 arrays"""

    def __init__(self, s):
        s = ENGINE_C.unflat(ENGINE_C.flat(s))        # normalise literal lists / dict literals to their symbolic representation
        f = s.fields
        p = f["positions"]
        self.N = p.n
        self.none, self.px, self.py, self.pz = p.comps
        d = f["defined_idxs"]
        self.T = d.n
        self.dlen, self.D = d.comps            # dlen[t], D[t][i]
        tr = f["position_trees"]
        self.TT = tr.n
        self.tn, self.tplen, self.tx, self.ty, self.tz = tr.comps
        g = f["gndx_to_tree"]
        self.dom, self.g2t = g.dom, g.comps[0]
        n2g = f["nodes_to_gndx"]
        self.n2g_dom, self.n2g = n2g.dom, n2g.comps[0]
        self.n2g_k = n2g.k
        self.slot = f["_gslot"].comps[0]
        self.stale = f["_gstale"].comps[0]
        self.where = f["_gwhere"].comps[0]
        self.box = f["boxsize"]

    def gndx(self, mol, node):
        return self.n2g[key_term(self.n2g_k, (mol, node))]

    def has_key(self, mol, node):
        return z3.Select(self.n2g_dom, key_term(self.n2g_k, (mol, node)))


def wf_A(v):
    return z3.ForAll([g_], v.dom[g_] == z3.And(0 <= g_, g_ < v.N, z3.Not(v.none[g_])))


def wf_B(v):
    return z3.And(v.T >= 1, v.TT == v.T, v.N >= 0, z3.ForAll([t_], z3.Implies(z3.And(0 <= t_, t_ < v.T), v.dlen[t_] >= 0)))


def wf_C(v):
    g = v.D[t_][i_]
    return z3.ForAll([t_, i_], z3.Implies(z3.And(0 <= t_, t_ < v.T, 0 <= i_, i_ < v.dlen[t_]),
                                          z3.And(v.dom[g], v.g2t[g] == t_, v.slot[g] == i_)))


def wf_E(v):
    return z3.ForAll([g_], z3.Implies(v.dom[g_], z3.And(0 <= v.g2t[g_], v.g2t[g_] < v.T, 0 <= v.slot[g_], v.slot[g_] < v.dlen[v.g2t[g_]],
                                                         v.D[v.g2t[g_]][v.slot[g_]] == g_)))


def tree_ok(v, t):
    g = v.D[t][i_]
    return z3.And(v.tn[t] == v.dlen[t], v.tplen[t] == v.dlen[t],
                  z3.ForAll([i_], z3.Implies(z3.And(0 <= i_, i_ < v.dlen[t]),
                                             z3.And(v.tx[t][i_] == v.px[g], v.ty[t][i_] == v.py[g], v.tz[t][i_] == v.pz[g]))))


def wf_F(v):
    return z3.ForAll([t_], z3.Implies(z3.And(0 <= t_, t_ < v.T), tree_ok(v, t_)))


def wf_G(v):
    k = z3.Const("k_", v.n2g_dom.sort().domain())
    return z3.ForAll([k], z3.Implies(v.n2g_dom[k], z3.And(0 <= v.n2g[k], v.n2g[k] < v.N)))


def well_formed(s):
    v = View(s)
    return z3.And(wf_A(v), wf_B(v), wf_C(v), wf_E(v), wf_F(v), wf_G(v))


def wf_but_trees(s):
    v = View(s)
    return z3.And(wf_A(v), wf_B(v), wf_C(v), wf_E(v), wf_G(v))


def same_tables(s, o):
    """nodes_to_gndx, box and the sizes never change"""
    a, b = View(s), View(o)
    return z3.And(a.n2g_dom == b.n2g_dom, a.n2g == b.n2g, V3.eq(a.box, b.box), a.N == b.N)


def pos_eq_at(a, b, g):
    return z3.And(a.none[g] == b.none[g], z3.Implies(z3.Not(a.none[g]), z3.And(a.px[g] == b.px[g], a.py[g] == b.py[g], a.pz[g] == b.pz[g])))


# ---- remove_positions --------------------------------------------------------------------------------

def key_exists(keys, k, pred):
    """exists j < k: pred(keys[j])  -- expanded when the list is a literal of concrete length"""
    if keys.items is not None and isinstance(k, int):
        return z3.Or(*[pred(e) for e in keys.items[:k]]) if k else z3.BoolVal(False)
    if keys.items is not None and z3.is_int_value(k):
        kk = k.as_long()
        return z3.Or(*[pred(e) for e in keys.items[:kk]]) if kk else z3.BoolVal(False)
    return z3.Exists([j_], z3.And(0 <= j_, j_ < k, pred(keys.comps[0][j_])))


def key_forall(keys, pred):
    if keys.items is not None:
        return z3.And(*[pred(e) for e in keys.items]) if keys.items else z3.BoolVal(True)
    return z3.ForAll([j_], z3.Implies(z3.And(0 <= j_, j_ < keys.n), pred(keys.comps[0][j_])))


def removed_upto(s, o, mol, keys, k):
    """view after processing keys[0:k]: exactly those residues are undefined in addition, nothing else moved"""
    a, b = View(s), View(o)
    hit = key_exists(keys, k, lambda e: b.gndx(mol, e) == g_)
    return z3.ForAll([g_], z3.Implies(z3.And(0 <= g_, g_ < b.N),
                                      z3.If(hit, a.none[g_], pos_eq_at(a, b, g_))))


def trees_fresh_or_stale(s, tree_idxs, from_k):
    """every tree either matches its index list or is still queued for a rebuild at an index >= from_k of tree_idxs"""
    v = View(s)
    return z3.And(
        z3.ForAll([t_], z3.Implies(z3.And(0 <= t_, t_ < v.T), z3.Or(tree_ok(v, t_), v.stale[t_]))),
        z3.ForAll([t_], z3.Implies(v.stale[t_], z3.And(0 <= t_, t_ < v.T, from_k <= v.where[t_], v.where[t_] < tree_idxs.n,
                                                        tree_idxs.comps[0][v.where[t_]] == t_))),
        z3.ForAll([i_], z3.Implies(z3.And(0 <= i_, i_ < tree_idxs.n), z3.And(0 <= tree_idxs.comps[0][i_], tree_idxs.comps[0][i_] < v.T))))


def all_removed(s, o, mol, keys):
    a, b = View(s), View(o)
    return key_forall(keys, lambda e: a.none[b.gndx(mol, e)])


def keys_known(s, mol, keys):
    v = View(s)
    return key_forall(keys, lambda e: v.has_key(mol, e))


def hook_after_list_remove(eng, env):
    """ghost: entries behind the removed one move up by one"""
    s = env["self"]
    v = View(s)
    g, t = env["gndx"], env["tree_idx"]
    h = z3.Int("_h")
    gs = s.fields["_gslot"]
    new = z3.Lambda([h], z3.If(z3.And(v.dom[h], v.g2t[h] == t, v.slot[h] > v.slot[g]), v.slot[h] - 1, v.slot[h]))
    env["self"] = s.with_field("_gslot", SDict(gs.k, gs.v, gs.dom, [new]))


def hook_after_rebuild(eng, env):
    """ghost: the tree is fresh again"""
    s = env["self"]
    st = s.fields["_gstale"]
    env["self"] = s.with_field("_gstale", SDict(st.k, st.v, st.dom, [z3.Store(st.comps[0], env["tree_idx"], False)]))


def hook_after_mark(eng, env):
    """ghost: the tree is stale; tree_idxs[len-1] names it"""
    s = env["self"]
    t = env["tree_idx"]
    st, wh = s.fields["_gstale"], s.fields["_gwhere"]
    s = s.with_field("_gstale", SDict(st.k, st.v, st.dom, [z3.Store(st.comps[0], t, True)]))
    s = s.with_field("_gwhere", SDict(wh.k, wh.v, wh.dom, [z3.Store(wh.comps[0], t, env["tree_idxs"].n - 1)]))
    env["self"] = s


REMOVE = REG.add(Contract(
    "polyply.src.nonbond_engine:NonBondEngine.remove_positions",
    params=dict(self=ENGINE_C, mol_idx=TInt, node_keys=TList(TNode)),
    requires={"well formed": "well_formed(self)",
              "the residues are nodes of the system": "keys_known(self, mol_idx, node_keys)",
              "no tree is marked stale (ghost)": "forall(lambda t: Not(stale_at(self, t)))"},
    ensures={
        "well formed again (every touched tree is rebuilt from the positions that remain)": "well_formed(self)",
        "exactly the listed residues become undefined, every other position is unchanged": "removed_upto(self, old(self), mol_idx, node_keys, len(node_keys))",
        "tables unchanged": "same_tables(self, old(self))",
        "no tree is left stale (ghost)": "forall(lambda t: Not(stale_at(self, t)))",
        "each listed residue is undefined afterwards (corollary, stated for callers)": "all_removed(self, old(self), mol_idx, node_keys)",
    },
    loops={
        0: Loop({"bookkeeping": "wf_but_trees(self)", "view": "removed_upto(self, old(self), mol_idx, node_keys, k)",
                 "tables": "same_tables(self, old(self))",
                 "trees": "trees_fresh_or_stale(self, tree_idxs, 0)",
                 "args": "mol_idx == entry['mol_idx']"}),
        1: Loop({"bookkeeping": "wf_but_trees(self)", "view": "removed_upto(self, old(self), mol_idx, node_keys, len(node_keys))",
                 "tables": "same_tables(self, old(self))",
                 "trees": "trees_fresh_or_stale(self, tree_idxs, k)"}),
    },
    ghost={"after:self.defined_idxs[tree_idx].remove(gndx)": hook_after_list_remove,
           "after:tree_idxs.append(tree_idx)": hook_after_mark,
           "after:self.position_trees[tree_idx] = new_tree": hook_after_rebuild},
    locals={"tree_idxs": TList(TInt)},
    spec_fns={"well_formed": well_formed, "wf_but_trees": wf_but_trees, "removed_upto": removed_upto, "same_tables": same_tables,
              "trees_fresh_or_stale": trees_fresh_or_stale, "keys_known": keys_known, "all_removed": all_removed,
              "stale_at": lambda s, t: View(s).stale[t]},
    modifies=["self.positions", "self.defined_idxs", "self.position_trees", "self.gndx_to_tree", "self._gslot", "self._gstale", "self._gwhere"],
    props=("C16", "C17"),
))


# ---- add_positions -----------------------------------------------------------------------------------

def added_view(s, o, mol, node, point):
    """position queries return the last position given: the residue's entry is the point, every other entry unchanged"""
    a, b = View(s), View(o)
    g = b.gndx(mol, node)
    return z3.And(z3.Not(a.none[g]), a.px[g] == ops.real(point.data[0]), a.py[g] == ops.real(point.data[1]), a.pz[g] == ops.real(point.data[2]),
                  z3.ForAll([g_], z3.Implies(z3.And(0 <= g_, g_ < b.N, g_ != g), pos_eq_at(a, b, g_))))


def hook_after_append_last(eng, env):
    """ghost: the new entry sits at the end of the last index list"""
    s = env["self"]
    v = View(s)
    gs = s.fields["_gslot"]
    env["self"] = s.with_field("_gslot", SDict(gs.k, gs.v, gs.dom, [z3.Store(gs.comps[0], env["gndx"], v.dlen[v.T - 1] - 1)]))


def hook_after_new_list(eng, env):
    """ghost: the new entry is the only one of the new index list"""
    s = env["self"]
    gs = s.fields["_gslot"]
    env["self"] = s.with_field("_gslot", SDict(gs.k, gs.v, gs.dom, [z3.Store(gs.comps[0], env["gndx"], 0)]))


ADD = REG.add(Contract(
    "polyply.src.nonbond_engine:NonBondEngine.add_positions",
    params=dict(self=ENGINE_C, point=V3, mol_idx=TInt, node_key=TNode, start=TBool),
    requires={"well formed": "well_formed(self)",
              "the residue is a node of the system": "has_key(self, mol_idx, node_key)",
              "no tree is marked stale (ghost)": "forall(lambda t: Not(stale_at(self, t)))"},
    ensures={
        **{f"well formed again ({w})": f"wf_part(self, '{w}')" for w in "ABCEFG"},
        "the residue has exactly the position given, every other position is unchanged (also when it was positioned before)":
            "added_view(self, old(self), mol_idx, node_key, point)",
        "tables unchanged": "same_tables(self, old(self))",
        "no tree is left stale (ghost)": "forall(lambda t: Not(stale_at(self, t)))",
    },
    ghost={"after:self.defined_idxs[-1].append(gndx)": hook_after_append_last,
           "after:self.defined_idxs.append([gndx])": hook_after_new_list},
    spec_fns={"well_formed": well_formed, "added_view": added_view, "same_tables": same_tables,
              "wf_part": lambda s, w: {"A": wf_A, "B": wf_B, "C": wf_C, "E": wf_E, "F": wf_F, "G": wf_G}[w](View(s)),
              "has_key": lambda s, m, n: View(s).has_key(m, n), "stale_at": lambda s, t: View(s).stale[t]},
    modifies=["self.positions", "self.defined_idxs", "self.position_trees", "self.gndx_to_tree", "self._gslot", "self._gstale", "self._gwhere"],
    props=("C16", "C17"),
))


GET_POINT = REG.add(Contract(
    "polyply.src.nonbond_engine:NonBondEngine.get_point",
    params=dict(self=ENGINE_C, mol_idx=TInt, node=TNode),
    requires={"the residue is a node of the system": "has_key(self, mol_idx, node)", "well formed": "well_formed(self)"},
    ensures={"returns the stored row of the residue (undefined rows are the all-inf row)": "is_row(result, self, mol_idx, node)",
             "pure": "ENGINE_eq(self, old(self))"},
    spec_fns={"has_key": lambda s, m, n: View(s).has_key(m, n), "well_formed": well_formed,
              "is_row": lambda r, s, m, n: (lambda v, g: z3.And(ops.B(r.none) == v.none[g], z3.Implies(z3.Not(v.none[g]), z3.And(
                  ops.real(r.val.data[0]) == v.px[g], ops.real(r.val.data[1]) == v.py[g], ops.real(r.val.data[2]) == v.pz[g]))))(View(s), View(s).gndx(m, n)),
              "ENGINE_eq": lambda a, b: ENGINE_C.eq(a, b)},
    props=("C16",),
))


# ---- concatenate_trees / __init__ : establish the invariant from the positions alone ------------------

def hook_slot_is_rank(eng, env):
    """ghost: after a rebuild from np.where the slot of a residue is its rank among the defined rows"""
    s = env["self"]
    gs = s.fields["_gslot"] if "_gslot" in s.fields else ENGINE_C.fields["_gslot"].fresh("gslot0")
    h = z3.Int("_h")
    rank = eng.last_where_rank
    s = s.with_field("_gslot", SDict(gs.k, gs.v, gs.dom, [z3.Lambda([h], rank(h))]))
    env["self"] = s


def positions_same(s, o):
    a, b = View(s), View(o)
    return z3.And(a.N == b.N, z3.ForAll([g_], z3.Implies(z3.And(0 <= g_, g_ < b.N), pos_eq_at(a, b, g_))))


CONCAT = REG.add(Contract(
    "polyply.src.nonbond_engine:NonBondEngine.concatenate_trees",
    params=dict(self=ENGINE_C),
    requires={"tables map into the position array": "wf_part(self, 'G')", "no tree is marked stale (ghost)": "forall(lambda t: Not(stale_at(self, t)))"},
    ensures={**{f"well formed ({w})": f"wf_part(self, '{w}')" for w in "ABCEFG"},
             "one tree": "len(self.defined_idxs) == 1",
             "no position changes": "positions_same(self, old(self))",
             "tables unchanged": "same_tables(self, old(self))"},
    ghost={"after:self.gndx_to_tree = {idx: 0 for idx in self.defined_idxs[0]}": hook_slot_is_rank},
    spec_fns={"wf_part": lambda s, w: {"A": wf_A, "B": wf_B, "C": wf_C, "E": wf_E, "F": wf_F, "G": wf_G}[w](View(s)),
              "positions_same": positions_same, "same_tables": same_tables, "stale_at": lambda s, t: View(s).stale[t]},
    modifies=["self.defined_idxs", "self.position_trees", "self.gndx_to_tree", "self._gslot"],
    props=("C16",),
))


def init_view(s, positions, n2g, box):
    v = View(s)
    pn, px, py, pz = positions.comps
    return z3.And(v.N == positions.n, z3.ForAll([g_], z3.Implies(z3.And(0 <= g_, g_ < positions.n), z3.And(
        v.none[g_] == pn[g_], z3.Implies(z3.Not(pn[g_]), z3.And(v.px[g_] == px[g_], v.py[g_] == py[g_], v.pz[g_] == pz[g_]))))),
        v.n2g_dom == n2g.dom, v.n2g == n2g.comps[0], V3.eq(v.box, box))


def n2g_in_range(n2g, positions):
    k = z3.Const("k_", n2g.dom.sort().domain())
    return z3.ForAll([k], z3.Implies(n2g.dom[k], z3.And(0 <= n2g.comps[0][k], n2g.comps[0][k] < positions.n)))


INIT = REG.add(Contract(
    "polyply.src.nonbond_engine:NonBondEngine.__init__",
    params=dict(self=ENGINE_C, positions=TList(TOpt(V3)), nodes_to_idx=TDict(MK, TInt), atom_types=TObj, interaction_matrix=TObj,
                bending_matrix=TObj, torsion_matrix=TObj, cut_off=TReal, boxsize=V3),
    requires={"the index table maps into the position array": "n2g_in_range(nodes_to_idx, positions)"},
    ensures={**{f"well formed ({w})": f"wf_part(self, '{w}')" for w in "ABCEFG"},
             "the view is the position array handed in": "init_view(self, positions, nodes_to_idx, boxsize)"},
    ghost={"after:self.gndx_to_tree = {idx: 0 for idx in self.defined_idxs[0]}": hook_slot_is_rank},
    spec_fns={"wf_part": lambda s, w: {"A": wf_A, "B": wf_B, "C": wf_C, "E": wf_E, "F": wf_F, "G": wf_G}[w](View(s)),
              "init_view": init_view, "n2g_in_range": n2g_in_range},
    props=("C16",),
))


# ---- refinement: the abstract contracts used by the callers (contracts/random_walk.py: posd view) follow from the concrete ones ----

def lemma_refinement(ctx):
    """abs(s)(m, x) = positions[nodes_to_gndx[(m, x)]] if defined.  With an injective index table (from_topology numbers the
    residues consecutively) the concrete postconditions of add_positions / remove_positions imply the abstract ones
    'exactly this residue gets the position' / 'exactly the listed residues of that molecule are removed'."""
    s0, s1 = ENGINE_C.fresh("s0"), ENGINE_C.fresh("s1")
    a, b = View(s1), View(s0)
    mol = z3.Int("mol")
    node = z3.Const("node", TNode.sort)
    keys = TList(TNode).fresh("keys")
    p = V3.fresh("p")
    kd = b.n2g_dom.sort().domain()
    k1, k2 = z3.Consts("k1 k2", kd)
    inj = z3.ForAll([k1, k2], z3.Implies(z3.And(b.n2g_dom[k1], b.n2g_dom[k2], b.n2g[k1] == b.n2g[k2]), k1 == k2))
    rng = wf_G(b)

    def ahas(v, m, x):
        return z3.And(v.has_key(m, x), z3.Not(v.none[v.gndx(m, x)]))

    def aval_eq(v, w, m, x):
        g = v.gndx(m, x)
        return z3.And(v.px[g] == w.px[g], v.py[g] == w.py[g], v.pz[g] == w.pz[g])
    out = []
    # add
    hyps = [inj, rng, same_tables(s1, s0), added_view(s1, s0, mol, node, p), b.has_key(mol, node)]
    goal = z3.ForAll([m_, x_], z3.Implies(b.has_key(m_, x_), z3.And(
        ahas(a, m_, x_) == z3.Or(ahas(b, m_, x_), z3.And(m_ == mol, x_ == node)),
        z3.Implies(z3.And(ahas(b, m_, x_), z3.Not(z3.And(m_ == mol, x_ == node))), aval_eq(a, b, m_, x_)))))
    out.append(("add_positions refines 'posd[(mol, node)] := point, nothing else changes'", hyps, goal))
    g = b.gndx(mol, node)
    out.append(("add_positions: the residue holds the point", hyps, z3.And(ahas(a, mol, node), a.px[g] == ops.real(p.data[0]),
                                                                         a.py[g] == ops.real(p.data[1]), a.pz[g] == ops.real(p.data[2]))))
    # remove
    inlist = z3.Exists([j_], z3.And(0 <= j_, j_ < keys.n, keys.comps[0][j_] == x_))
    hyps = [inj, rng, same_tables(s1, s0), removed_upto(s1, s0, mol, keys, keys.n), keys_known(s0, mol, keys)]
    goal = z3.ForAll([m_, x_], z3.Implies(b.has_key(m_, x_), z3.And(
        ahas(a, m_, x_) == z3.And(ahas(b, m_, x_), z3.Not(z3.And(m_ == mol, inlist))),
        z3.Implies(ahas(a, m_, x_), aval_eq(a, b, m_, x_)))))
    out.append(("remove_positions refines 'exactly the listed residues of that molecule are removed'", hyps, goal))
    return out
